"""C12 — taproot output keys commit to the script tree; every leaf spendable; tampering detected.

E1 real-tree: all binary tree shapes with 1..5 leaves (thorough ..8) x internal keys of both parities x leaf
   versions on secp256k1: root, output key, private tweak, sibling-order invariance, control blocks of
   every leaf, query-order independence.
E1 real-tamper: every byte of selected control blocks / leaf scripts x {^01, ^80, +1}.
E3 toy-tree: every internal key of the toy group x shapes <= 4 leaves x every leaf, every byte of the control
   block x all 255 alternative values, differential against the reference (collisions are frequent at 5 bits,
   so the oracle is equality with the reference result, not "must differ").
E1 real-scripts: a leaf-script alphabet (built from commands and/or parsed from raw bytes: empty, OP_0 in two
   spellings, pushes of 2/75/76/255/256/520/521 bytes, non-minimal PUSHDATA1/2 spellings and a short-read
   spelling whose parsed commands equal another leaf's, scripts of 252/253/254/65535/65536 bytes) as single
   leaves, all ordered pairs and (collision sub-alphabet) all ordered triples.
E1 real-paths: every shape with 6..8 leaves, TapBranch.combine, shared subtree objects: root, leaves(), path of
   every leaf (no curve arithmetic).
E1 real-versions: every even leaf version 0x00..0xFE (root, path, header byte round trip for both parity bits);
   full output-key/control-block check for a version subset x both output-key parities x internal-key
   constructors.
E1 real-cb-parse: ControlBlock.parse boundary inputs: every length 0..200, path depths 0/1/127..130 (+-1 byte),
   internal-key field 0, p-1, p, x+p, n, 2^256-1, not-on-curve: accepted iff the BIP341 reference accepts.
"""
import itertools

from io import BytesIO

from mc.core import Engine, Res, attempt, Rejected, filler, filler_int, current_toy
from mc.ref import ec, txref

PROP = "C12"
N = ec.SECP.n


# ---------------------------------------------------------------- shapes & reference tree
def shapes(k, lo=0):
    """All binary tree shapes with k leaves; leaves numbered lo.. in left-to-right order."""
    if k == 1:
        return [lo]
    out = []
    for i in range(1, k):
        for l in shapes(i, lo):
            for r in shapes(k - i, lo + i):
                out.append([l, r])
    return out


_SCRIPT_OF = {}  # leaf index -> script id (set per case; default: every leaf has its own script)


def sid(i):
    return _SCRIPT_OF.get(i, i)


_LEAF = {}  # leaf index -> (alphabet name, "cmds" | "parse") (set per case by the script-alphabet engines)
_ALPHA = {}


def script_alphabet():
    """name -> (commands or None, committed script bytes).  commands None: the spelling exists only as raw
    bytes (non-minimal / short-read push) and is built with Script.parse.  The bytes of command-built
    scripts come from the reference serialiser (direct push, PUSHDATA1 from 76, PUSHDATA2 from 256)."""
    if _ALPHA:
        return _ALPHA
    k1, k2 = b"\x01" * 32, b"\x02" * 32

    def cmds(name, items):
        _ALPHA[name] = (items, txref.script_from_items(items))

    def raw(name, b):
        _ALPHA[name] = (None, b)

    cmds("p2pk-a", [k1, 0xAC])
    raw("p2pk-a/pushdata1", b"\x4c\x20" + k1 + b"\xac")  # same commands as p2pk-a, other bytes
    raw("p2pk-a/pushdata2", b"\x4d\x20\x00" + k1 + b"\xac")
    cmds("p2pk-b", [k2, 0xAC])
    cmds("empty", [])
    cmds("op_true", [0x51])
    cmds("op0-as-bytes", [b""])  # same bytes (00) as op0-as-int, other commands
    cmds("op0-as-int", [0])
    cmds("push2", [b"\xaa\xbb"])
    raw("push2/short-read", b"\x03\xaa\xbb")  # push of 3 with 2 bytes left: same commands as push2 after parsing
    cmds("push75", [b"a" * 75, 0x75, 0x51])
    cmds("push76", [b"a" * 76, 0x75, 0x51])
    cmds("push255", [b"a" * 255, 0x75, 0x51])
    cmds("push256", [b"a" * 256, 0x75, 0x51])
    cmds("push520", [b"a" * 520, 0x75, 0x51])
    raw("push521", b"\x4d\x09\x02" + b"z" * 521 + b"\x75\x51")
    cmds("checksigadd", [k1, 0xAC, k2, 0xBA, 0x52, 0x87])
    cmds("len252", [b"b" * 75] * 3 + [b"c" * 23])  # compact-size boundary 0xFC / 0xFD
    cmds("len253", [b"b" * 75] * 3 + [b"c" * 24])
    cmds("len254", [b"b" * 75] * 3 + [b"c" * 25])
    cmds("len65535", [b"d" * 520] * 125 + [b"e" * 157, 0x51])  # compact-size boundary 0xFFFF / 0x10000
    cmds("len65536", [b"d" * 520] * 125 + [b"e" * 157, 0x51, 0x51])
    for nm, ln in (("len252", 252), ("len253", 253), ("len254", 254), ("len65535", 65535), ("len65536", 65536)):
        assert len(_ALPHA[nm][1]) == ln, (nm, len(_ALPHA[nm][1]))
    return _ALPHA


# spellings a parser may legitimately refuse (promised push longer than the script / than 520 bytes)
LENIENT = ("push2/short-read", "push521")
# leaves that collide in commands (other bytes) or in bytes (other commands) with another member
# (the three groups are unrelated to each other)
COLLIDING = [("p2pk-a", "cmds"), ("p2pk-a/pushdata1", "parse"), ("p2pk-a/pushdata2", "parse"),
             ("op0-as-bytes", "cmds"), ("op0-as-int", "cmds"), ("push2", "cmds"), ("push2/short-read", "parse")]


def alphabet_items():
    out = []
    for name, (cm, _) in script_alphabet().items():
        if cm is not None:
            out.append((name, "cmds"))
        out.append((name, "parse"))
    return out


def set_leaf_table(case):
    _SCRIPT_OF.clear()
    _LEAF.clear()
    for i, sc in enumerate(case.get("scripts") or []):
        _SCRIPT_OF[i] = sc
    for i, it in enumerate(case.get("leaves") or []):
        _LEAF[i] = (it[0], it[1])


def leaf_script_bytes(i):
    """P2PK-style tapscript with a fake 32-byte key: <32 bytes> OP_CHECKSIG (or the case's alphabet member)"""
    if i in _LEAF:
        return script_alphabet()[_LEAF[i][0]][1]
    return b"\x20" + bytes([sid(i) + 1]) * 32 + b"\xac"


def parse_script(raw):
    """bytes -> Script the way a verifier gets it from the witness"""
    from buidl.script import Script

    return Script.parse(BytesIO(txref.varbytes(raw)))


def lib_script(i):
    from buidl.script import Script

    if i in _LEAF:
        name, how = _LEAF[i]
        cm, raw = script_alphabet()[name]
        if how == "parse":
            return parse_script(raw)
        return Script(list(cm))
    return Script([bytes([sid(i) + 1]) * 32, 0xAC])


def twins(shape, leaf, vers):
    """leaf positions committing to the same (version, bytes): the library may answer with the path of any of them"""
    return [j for j in leaves_of(shape) if vers[j] == vers[leaf] and leaf_script_bytes(j) == leaf_script_bytes(leaf)]


def ref_hash(node, vers):
    if isinstance(node, int):
        return txref.tapleaf_hash(leaf_script_bytes(node), vers[node])
    l, r = ref_hash(node[0], vers), ref_hash(node[1], vers)
    a, b = (l, r) if l < r else (r, l)
    return ec.tagged("TapBranch", a + b)


def ref_path(node, leaf, vers):
    """sibling hashes bottom-up, or None"""
    if isinstance(node, int):
        return [] if node == leaf else None
    for me, sib in ((0, 1), (1, 0)):
        p = ref_path(node[me], leaf, vers)
        if p is not None:
            return p + [ref_hash(node[sib], vers)]
    return None


def leaves_of(node):
    return [node] if isinstance(node, int) else leaves_of(node[0]) + leaves_of(node[1])


def swapped_variants(node):
    """the same tree with the children of each single internal node swapped"""
    if isinstance(node, int):
        return []
    out = [[node[1], node[0]]]
    out += [[v, node[1]] for v in swapped_variants(node[0])]
    out += [[node[0], v] for v in swapped_variants(node[1])]
    return out


def ref_output(c, px, root, toy):
    """(Q, parity) or None when degenerate"""
    P = c.lift_x(px)
    if P is None:
        return None
    t = int.from_bytes(ec.tagged("TapTweak", ec.b32(px) + root), "big")
    if toy:
        t %= c.n  # toy instantiation: the 256-bit hash is reduced into the 5..8-bit group
    elif t >= c.n:
        return None
    Q = c.add(P, c.mulg(t))
    if Q is None:
        return None
    return Q, Q[1] & 1, t


def build_lib(node, vers):
    from buidl.script import Script
    from buidl.taproot import TapBranch, TapLeaf

    leafobjs = {}

    def rec(nd):
        if isinstance(nd, int):
            lf = TapLeaf(lib_script(nd), vers[nd])
            leafobjs[nd] = lf
            return lf
        return TapBranch(rec(nd[0]), rec(nd[1]))

    return rec(node), leafobjs


def pt(P):
    return None if isinstance(P, Rejected) or P is None or P.x is None else (P.x.num, P.y.num)


def make_internal(c, P, d, via):
    """the internal key as the caller may hold it: coordinates, SEC bytes, x-only bytes (even lift), or a private key's point"""
    from buidl import pecc

    if via == "sec":
        return pecc.S256Point.parse_sec(bytes([2 + (P[1] & 1)]) + ec.b32(P[0]))
    if via == "sec-uncompressed":
        return pecc.S256Point.parse_sec(b"\x04" + ec.b32(P[0]) + ec.b32(P[1]))
    if via == "xonly":
        return pecc.S256Point.parse_xonly(ec.b32(P[0]))
    if via == "priv":
        return pecc.PrivateKey(d).point
    return pecc.S256Point(P[0], P[1])


def check_tree(res, case, c, toy, engine):
    """Shared by real and toy engines: one (shape, key, versions) triple."""
    from buidl import pecc
    from buidl.taproot import ControlBlock
    from buidl.script import Script

    shape, d, vers = case["shape"], int(case["d"]), case["vers"]
    set_leaf_table(case)
    table = bool(case.get("leaves"))
    vc = {"engine": engine, "case": case}
    if toy:
        vc["toy"] = list(toy)
    if table:
        built = attempt(build_lib, shape, vers)
        if isinstance(built, Rejected):
            if any(_LEAF[i][0] in LENIENT and _LEAF[i][1] == "parse" for i in _LEAF):
                res.skip("Script.parse refuses a short-read / oversized push spelling: no such leaf can be built")
            else:
                res.violation(f"C12/{engine}/leaf-construction", vc, repr(built), "a TapLeaf/TapBranch", "a tree over valid tapscripts cannot be constructed")
            return
        root_obj, leafobjs = built
    else:
        root_obj, leafobjs = build_lib(shape, vers)
    exp_root = ref_hash(shape, vers)
    got_root = attempt(root_obj.hash)
    if got_root != exp_root:
        res.violation(f"C12/{engine}/merkle-root", vc, got_root, exp_root, "tree hash differs from BIP341")
        return
    res.ok("root==ref", nontrivial=("root", repr(shape), tuple(vers)), sample={"shape": shape, "leaf_versions": vers, "internal_secret": case["d"], "root": exp_root.hex()})
    # sibling order invariance
    for sw in swapped_variants(shape):
        o, _ = build_lib(sw, vers)
        if attempt(o.hash) != exp_root:
            res.violation(f"C12/{engine}/sibling-order", vc, attempt(o.hash), exp_root, "root depends on left/right order of siblings")
            return
        res.ok("root invariant under child swap")
    P = c.mulg(d)
    internal = make_internal(c, P, d, case.get("key_via", "xy"))
    exp = ref_output(c, P[0], exp_root, toy)
    if exp is None:
        res.ok("degenerate tweak (t >= n or Q = infinity): not asserted")
        return
    Q, par, t = exp
    got = attempt(root_obj.external_pubkey, internal)
    if pt(got) != Q:
        res.violation(f"C12/{engine}/output-key", vc, pt(got), Q, "output key != lift_x(P) + H_TapTweak(P||root)*G")
        return
    res.ok(f"output key==ref(Podd={P[1]&1},Qodd={par})", nontrivial=("Q", repr(shape), d))
    # private tweak
    priv = attempt(lambda: pecc.PrivateKey(d).tweaked_key(exp_root))
    if isinstance(priv, Rejected):
        # (d_even + t) % n == 0 is the only legitimate failure
        dd = d if P[1] % 2 == 0 else c.n - d
        if (dd + t) % c.n != 0:
            res.violation(f"C12/{engine}/private-tweak", vc, repr(priv), Q, "tweaked private key cannot be computed")
            return
    elif pt(priv.point) != Q:
        res.violation(f"C12/{engine}/private-tweak", vc, pt(priv.point), Q, "tweaked private key is not the discrete log of the output key")
        return
    else:
        res.ok("privkey tweak==ref")
    # control blocks
    lv = leaves_of(shape)
    orders = [lv, lv[::-1]]
    sers = []
    for order in orders:
        ro, lo = build_lib(shape, vers)
        row = {}
        for leaf in order:
            cb = attempt(ro.control_block, internal, lo[leaf])
            row[leaf] = None if isinstance(cb, Rejected) or cb is None else attempt(cb.serialize)
        sers.append(row)
    if sers[0] != sers[1]:
        res.violation(f"C12/{engine}/query-order", vc, str(sers[0])[:200], str(sers[1])[:200], "control blocks depend on the order of queries")
        return
    for leaf in lv:
        path = ref_path(shape, leaf, vers)
        exp_cb = bytes([vers[leaf] | par]) + ec.b32(P[0]) + b"".join(path)
        got_cb = sers[0][leaf]
        if table:
            # several positions may commit to the same (version, bytes): the block of any of them is a correct answer
            tw = twins(shape, leaf, vers)
            cands = [bytes([vers[leaf] | par]) + ec.b32(P[0]) + b"".join(ref_path(shape, j, vers)) for j in tw]
            if got_cb not in cands:
                others = [bytes([vers[leaf] | par]) + ec.b32(P[0]) + b"".join(ref_path(shape, j, vers)) for j in lv if j not in tw]
                cls = "control-block-of-another-leaf" if got_cb in others else "control-block"
                res.violation(f"C12/{engine}/{cls}", vc, got_cb, exp_cb, f"control block of leaf {leaf} ({_LEAF[leaf][0]}, built by {_LEAF[leaf][1]}) differs from BIP341" + (": it is the Merkle path of a different leaf of the tree" if got_cb in others else ""))
                continue
            exp_cb = got_cb
        if got_cb != exp_cb:
            res.violation(f"C12/{engine}/control-block", vc, got_cb, exp_cb, f"control block of leaf {leaf} differs from BIP341")
            continue
        back = attempt(ControlBlock.parse, exp_cb)
        if isinstance(back, Rejected) or attempt(back.serialize) != exp_cb:
            res.violation(f"C12/{engine}/control-block-roundtrip", vc, repr(back), exp_cb, "control block does not parse back identically")
            continue
        if table:
            script = attempt(parse_script, leaf_script_bytes(leaf))
            if isinstance(script, Rejected):
                if _LEAF[leaf][0] in LENIENT:
                    res.skip("Script.parse refuses a short-read / oversized push spelling: spend side not asserted")
                else:
                    res.violation(f"C12/{engine}/leaf-script-reparse", vc, repr(script), "a Script", "the committed leaf script cannot be parsed back on the spending side")
                continue
        else:
            script = Script([bytes([sid(leaf) + 1]) * 32, 0xAC])
            assert script.raw_serialize() == leaf_script_bytes(leaf)
        ek = attempt(back.external_pubkey, script)
        if pt(ek) != Q or back.parity != par or back.tapleaf_version != vers[leaf]:
            res.violation(f"C12/{engine}/control-block-recompute", vc, (pt(ek), back.parity), (Q, par), "parsed control block does not recompute the output key and parity")
            continue
        res.ok("control block==ref & recomputes", nontrivial=("cb", repr(shape), d, leaf, tuple(vers), repr(case.get("leaves"))))
    # single-leaf tree: the leaf argument may be omitted
    if isinstance(shape, int):
        cb0 = attempt(root_obj.control_block, internal)
        got0 = None if isinstance(cb0, Rejected) or cb0 is None else attempt(cb0.serialize)
        exp0 = bytes([vers[shape] | par]) + ec.b32(P[0])
        if got0 != exp0:
            res.violation(f"C12/{engine}/control-block-default-leaf", vc, got0, exp0, "TapLeaf.control_block(internal_pubkey) without a leaf argument differs from BIP341")
        else:
            res.ok("single leaf, leaf argument omitted==ref")
    # the SAME tree object used with other internal keys afterwards (state kept on the tree between calls)
    for d2 in case.get("also_keys", []):
        d2 = int(d2)
        P2 = c.mulg(d2)
        out2 = ref_output(c, P2[0], exp_root, toy)
        if out2 is None:
            continue
        Q2, par2, _ = out2
        internal2 = pecc.S256Point(P2[0], P2[1])
        for leaf in lv:
            exp_cb = bytes([vers[leaf] | par2]) + ec.b32(P2[0]) + b"".join(ref_path(shape, leaf, vers))
            cb = attempt(root_obj.control_block, internal2, leafobjs[leaf])
            got_cb = None if isinstance(cb, Rejected) or cb is None else attempt(cb.serialize)
            if got_cb != exp_cb:
                res.violation(f"C12/{engine}/control-block-on-reused-tree", vc, got_cb, exp_cb, f"control block of leaf {leaf} for a second internal key on the same tree object differs from BIP341 (parity {par} then {par2})")
                return
        res.ok(f"reused tree object, second key (parities {par}->{par2})", nontrivial=("reuse", repr(shape), d, d2))


def check_paths(res, case, engine, root_obj=None, leafobjs=None):
    """Tree-only part (no curve arithmetic): root, child-swap invariance, leaves(), Merkle path of every leaf in
    two query orders, against the reference."""
    shape, vers = case["shape"], case["vers"]
    set_leaf_table(case)
    vc = {"engine": engine, "case": case}
    supplied = root_obj is not None  # a tree built by the caller (combine / shared subtree): queried as is
    if root_obj is None:
        built = attempt(build_lib, shape, vers)
        if isinstance(built, Rejected):
            if any(_LEAF[i][0] in LENIENT and _LEAF[i][1] == "parse" for i in _LEAF):
                res.skip("Script.parse refuses a short-read / oversized push spelling: no such leaf can be built")
            else:
                res.violation(f"C12/{engine}/leaf-construction", vc, repr(built), "a TapLeaf/TapBranch", "a tree over valid tapscripts cannot be constructed")
            return None
        root_obj, leafobjs = built
    exp_root = ref_hash(shape, vers)
    got_root = attempt(root_obj.hash)
    if got_root != exp_root:
        res.violation(f"C12/{engine}/merkle-root", vc, got_root, exp_root, "tree hash differs from BIP341")
        return None
    res.ok("root==ref", nontrivial=("root", repr(shape), tuple(vers), repr(case.get("leaves"))), sample={"shape": shape, "leaf_versions": vers, "leaves": case.get("leaves"), "root": exp_root.hex()})
    if case.get("swaps", True):
        for sw in swapped_variants(shape):
            o = attempt(lambda: build_lib(sw, vers)[0].hash())
            if o != exp_root:
                res.violation(f"C12/{engine}/sibling-order", vc, o, exp_root, "root depends on left/right order of siblings")
                return None
            res.ok("root invariant under child swap")
    lv = leaves_of(shape)
    got_leaves = attempt(lambda: [(lf.tapleaf_version, lf.hash()) for lf in root_obj.leaves()])
    exp_leaves = [(vers[i], txref.tapleaf_hash(leaf_script_bytes(i), vers[i])) for i in lv]
    if got_leaves != exp_leaves:
        res.violation(f"C12/{engine}/leaves", vc, got_leaves, exp_leaves, "leaves() is not the left-to-right list of the tree's leaves")
        return None
    rows = []
    for order in (lv, lv[::-1]):
        ro, lo = (root_obj, leafobjs) if supplied else build_lib(shape, vers)
        row = {}
        for leaf in order:
            ph = attempt(ro.path_hashes, lo[leaf])
            row[leaf] = None if isinstance(ph, Rejected) or ph is None else list(ph)
        rows.append(row)
    if rows[0] != rows[1]:
        res.violation(f"C12/{engine}/query-order", vc, str(rows[0])[:200], str(rows[1])[:200], "Merkle paths depend on the order of queries")
        return None
    for leaf in lv:
        tw = twins(shape, leaf, vers)
        cands = [ref_path(shape, j, vers) for j in tw]
        got = rows[0][leaf]
        if got not in cands:
            others = [ref_path(shape, j, vers) for j in lv if j not in tw]
            cls = "path-of-another-leaf" if got in others else "path"
            what = f"Merkle path of leaf {leaf}" + (f" ({_LEAF[leaf][0]}, built by {_LEAF[leaf][1]})" if leaf in _LEAF else "") + " differs from BIP341"
            res.violation(f"C12/{engine}/{cls}", vc, got, cands[0], what + (": it is the path of a different leaf of the tree" if got in others else ""))
            continue
        # folding the path from the leaf hash gives the root (what a control block must satisfy)
        k = txref.tapleaf_hash(leaf_script_bytes(leaf), vers[leaf])
        for e in got:
            k = ec.tagged("TapBranch", k + e if k < e else e + k)
        assert k == exp_root
        res.ok("path==ref", nontrivial=("path", repr(shape), tuple(vers), repr(case.get("leaves")), leaf))
    return exp_root


def verifier_accepts(cb_bytes, script_items, Q, par, ver):
    """What a taproot verifier does with the library API: parse, recompute, compare key and parity.
    Returns True (accepted as committing to Q) / False."""
    from buidl.script import Script
    from buidl.taproot import ControlBlock

    def f():
        cb = ControlBlock.parse(cb_bytes)
        k = cb.external_pubkey(Script(script_items))
        return pt(k) is not None and k.xonly() == ec.b32(Q[0]) and k.parity == cb.parity

    r = attempt(f)
    return (not isinstance(r, Rejected)) and bool(r)


def ref_verifier_accepts(c, cb, script_bytes, Q, toy):
    """BIP341 script-path commitment check on raw bytes."""
    if len(cb) < 33 or (len(cb) - 33) % 32 or len(cb) > 33 + 128 * 32:
        return False
    ver, par = cb[0] & 0xFE, cb[0] & 1
    px = int.from_bytes(cb[1:33], "big")
    k = txref.tapleaf_hash(script_bytes, ver)
    for j in range(33, len(cb), 32):
        e = cb[j : j + 32]
        k = ec.tagged("TapBranch", k + e if k < e else e + k)
    out = ref_output(c, px, k, toy)
    if out is None:
        return False
    Q2, par2, _ = out
    return Q2[0] == Q[0] and par2 == par


# ---------------------------------------------------------------- real engines
def real_keys(seed):
    c = ec.SECP
    found = {}
    i = 0
    while len(found) < 2:
        d = filler_int(seed, "c12key", i, 1, N - 1)
        found.setdefault(c.mulg(d)[1] & 1, d)
        i += 1
    return [found[0], found[1]]


def gen_real_tree(tier, seed):
    kmax = 5 if tier == "quick" else 8
    keys = real_keys(seed)
    cases = []
    # boundary secrets and the ways a caller may hold the internal key (1- and 2-leaf trees)
    vias = ["sec", "xonly", "priv", "sec-uncompressed"]
    for si, sh in enumerate([0, [0, 1]]):
        k = len(leaves_of(sh))
        for di, d in enumerate([1, 2, N - 1, N - 2]):
            cases.append({"shape": sh, "d": str(d), "vers": [0xC0] * k, "key_via": vias[(si + di) % 4]})
        for ki, d in enumerate(keys):
            for via in vias:
                if tier == "thorough" or (si == 1 and (vias.index(via) + ki) % 2 == 0):
                    cases.append({"shape": sh, "d": str(d), "vers": [0xC0] * k, "key_via": via})
    for k in range(1, kmax + 1):
        for si, sh in enumerate(shapes(k)):
            for ki, d in enumerate(keys):
                if tier == "quick" and k == 5 and (si + ki) % 2:
                    continue  # each 5-leaf shape with one of the two parities
                if k == 8 and (si + ki) % 2:
                    continue  # each 8-leaf shape with one of the two parities (thorough only)
                vers = [0xC0] * k
                cases.append({"shape": sh, "d": str(d), "vers": vers})
            if k <= 3:
                vers = [0xC2 if i % 2 else 0xC0 for i in range(k)]
                cases.append({"shape": sh, "d": str(keys[si % 2]), "vers": vers})
            if 2 <= k <= 4:
                # the same script committed under two leaf versions (first and last leaf share script 0)
                vers = [0xC0] * (k - 1) + [0xC2]
                cases.append({"shape": sh, "d": str(keys[si % 2]), "vers": vers, "scripts": [0] + list(range(1, k - 1)) + [0]})
    # reuse of one tree object with further internal keys (walked until both output-key parities occurred)
    for c_ in cases:
        if len(leaves_of(c_["shape"])) <= (3 if tier == "quick" else 4) and "key_via" not in c_:
            c_["also_keys"] = [str(filler_int(seed, "c12also", j, 1, N - 1)) for j in range(3)]
    return cases


def run_real_tree(case):
    res = Res()
    check_tree(res, case, ec.SECP, None, "real-tree")
    return res


def gen_real_tamper(tier, seed):
    keys = real_keys(seed)
    cases = []
    trees = [([[0, 1], 2], 0), ([0, [1, 2]], 0)] if tier == "quick" else [([[0, 1], 2], 0), ([0, [1, 2]], 0), ([[0, 1], [2, 3]], 3), (0, 0)]
    for ti, (sh, leaf) in enumerate(trees):
        d = keys[ti % 2]
        nleaf = len(leaves_of(sh))
        path = ref_path(sh, leaf, [0xC0] * nleaf)
        n = 33 + 32 * len(path)
        for pos in range(n):
            cases.append({"shape": sh, "d": str(d), "leaf": leaf, "what": "cb", "pos": pos})
        if ti == 0 or tier == "thorough":
            for pos in range(34):
                cases.append({"shape": sh, "d": str(d), "leaf": leaf, "what": "script", "pos": pos})
            cases.append({"shape": sh, "d": str(d), "leaf": leaf, "what": "cb-trunc", "pos": 0})
    return cases


def run_real_tamper(case):
    res = Res()
    c = ec.SECP
    sh, d, leaf = case["shape"], int(case["d"]), case["leaf"]
    set_leaf_table({})
    vers = [0xC0] * len(leaves_of(sh))
    root = ref_hash(sh, vers)
    P = c.mulg(d)
    Q, par, _ = ref_output(c, P[0], root, None)
    cb = bytes([0xC0 | par]) + ec.b32(P[0]) + b"".join(ref_path(sh, leaf, vers))
    script_items = [bytes([leaf + 1]) * 32, 0xAC]
    sb = leaf_script_bytes(leaf)
    vc = {"engine": "real-tamper", "case": case}
    assert ref_verifier_accepts(c, cb, sb, Q, None)
    if case["what"] == "cb-trunc":
        for cut in (1, 31, 32, 33):
            t = cb[:-cut]
            exp = ref_verifier_accepts(c, t, sb, Q, None)
            got = verifier_accepts(t, script_items, Q, par, 0xC0)
            if got and not exp:
                res.violation("C12/real-tamper/truncated-accepted", vc, got, exp, f"control block truncated by {cut} bytes still commits")
            else:
                res.ok("truncated rejected", nontrivial=("trunc", repr(sh), cut))
        return res
    for how in ("^01", "^80", "+1"):
        if case["what"] == "cb":
            b = bytearray(cb)
        else:
            b = bytearray(sb)
        v = b[case["pos"]]
        b[case["pos"]] = {"^01": v ^ 1, "^80": v ^ 0x80, "+1": (v + 1) % 256}[how]
        if case["what"] == "cb":
            exp = ref_verifier_accepts(c, bytes(b), sb, Q, None)
            got = verifier_accepts(bytes(b), script_items, Q, par, 0xC0)
        else:
            # tampered leaf script: parse the raw bytes as the verifier does (witness item -> Script)
            from io import BytesIO
            from buidl.script import Script

            exp = ref_verifier_accepts(c, cb, bytes(b), Q, None)
            scr = attempt(lambda: Script.parse(BytesIO(txref.varbytes(bytes(b)))))
            if isinstance(scr, Rejected):
                got = False
            else:
                if attempt(scr.raw_serialize) != bytes(b):
                    res.skip("tampered script bytes are not a canonical script (push length changed); commitment on re-serialised bytes not asserted")
                    continue
                got = verifier_accepts(cb, scr.commands, Q, par, 0xC0)
        if got and not exp:
            res.violation(f"C12/real-tamper/{case['what']}-accepted", vc, got, exp, f"altered {case['what']} byte {case['pos']} ({how}) still reproduces the output key and parity")
        elif got != exp:
            res.violation(f"C12/real-tamper/{case['what']}-valid-rejected", vc, got, exp, "reference accepts the altered data but the library does not")
        else:
            res.ok("tamper rejected" if not exp else "tamper benign(ref accepts)", nontrivial=(case["what"], repr(sh), case["pos"], how))
    return res


# ---------------------------------------------------------------- script alphabet engine
def gen_real_scripts(tier, seed):
    keys = real_keys(seed)
    items = alphabet_items()
    cases = []
    # every alphabet member as a single-leaf tree: full check (quick: one construction per byte string, the other tree-only)
    for i, it in enumerate(items):
        full = tier == "thorough" or it[1] == "cmds" or script_alphabet()[it[0]][0] is None
        cases.append({"mode": "full" if full else "paths", "shape": 0, "vers": [0xC0], "d": str(keys[i % 2]), "leaves": [list(it)]})
    # ordered pairs: full check over the colliding sub-alphabet (thorough: the whole alphabet), tree-only check over the whole alphabet
    full_pairs = COLLIDING if tier == "quick" else items
    n = 0
    for a in items:
        for b in items:
            full = a in full_pairs and b in full_pairs
            n += 1
            cases.append({"mode": "full" if full else "paths", "shape": [0, 1], "vers": [0xC0, 0xC0], "d": str(keys[n % 2]), "leaves": [list(a), list(b)]})
    # ordered triples of the colliding sub-alphabet on both 3-leaf shapes
    for sh in shapes(3):
        for a in COLLIDING:
            for b in COLLIDING:
                for c_ in COLLIDING:
                    n += 1
                    cases.append({"mode": "full" if tier == "thorough" else "paths", "shape": sh, "vers": [0xC0] * 3, "d": str(keys[n % 2]), "leaves": [list(a), list(b), list(c_)], "swaps": False})
    # spread the expensive (curve arithmetic) cases evenly over the list so that worker chunks are balanced
    heavy = [c_ for c_ in cases if c_["mode"] == "full"]
    light = [c_ for c_ in cases if c_["mode"] != "full"]
    if heavy and light:
        step = max(1, len(light) // len(heavy))
        out = []
        for i, h in enumerate(heavy):
            out.append(h)
            out += light[i * step : (i + 1) * step]
        out += light[len(heavy) * step :]
        assert len(out) == len(cases)
        cases = out
    return cases


def run_real_scripts(case):
    res = Res()
    if case["mode"] == "full":
        check_tree(res, case, ec.SECP, None, "real-scripts")
    else:
        check_paths(res, case, "real-scripts")
    return res


# ---------------------------------------------------------------- large shapes, combine, shared subtrees (tree-only)
def balanced(ix):
    if len(ix) == 1:
        return ix[0]
    h = len(ix) // 2
    return [balanced(ix[:h]), balanced(ix[h:])]


def gen_real_paths(tier, seed):
    cases = []
    for k in (6, 7, 8):
        for sh in shapes(k):
            cases.append({"what": "shape", "shape": sh, "vers": [0xC2 if i % 3 == 2 else 0xC0 for i in range(k)], "swaps": True})
    for k in range(1, 9):
        cases.append({"what": "combine", "n": k, "shape": balanced(list(range(k))), "vers": [0xC0] * k})
    # one TapBranch object used as a subtree of two trees (leaves() memo of the subtree warmed by the first tree)
    for sub in shapes(2) + shapes(3):
        k = len(leaves_of(sub))
        for side in (0, 1):
            cases.append({"what": "shared", "sub": sub, "side": side, "shape": None, "vers": [0xC0] * (k + 2)})
    return cases


def run_real_paths(case):
    from buidl.taproot import TapBranch, TapLeaf

    res = Res()
    eng = "real-paths"
    what = case["what"]
    if what == "shape":
        check_paths(res, case, eng)
        return res
    set_leaf_table(case)
    vc = {"engine": eng, "case": case}
    if what == "combine":
        n = case["n"]
        leafobjs = {i: TapLeaf(lib_script(i), 0xC0) for i in range(n)}
        tree = attempt(TapBranch.combine, [leafobjs[i] for i in range(n)])
        if isinstance(tree, Rejected) or tree is None:
            res.violation(f"C12/{eng}/combine", vc, repr(tree), "a tree", "TapBranch.combine does not build a tree")
            return res
        check_paths(res, case, eng, tree, leafobjs)
        return res
    # shared: sub has leaves 0..k-1; tree A = [sub, k] or [k, sub]; tree B = [k+1, sub] or [sub, k+1]
    sub, side = case["sub"], case["side"]
    k = len(leaves_of(sub))
    sub_obj, leafobjs = build_lib(sub, case["vers"])
    for extra, sd in ((k, side), (k + 1, 1 - side)):
        lf = TapLeaf(lib_script(extra), 0xC0)
        objs = dict(leafobjs)
        objs[extra] = lf
        tree = TapBranch(sub_obj, lf) if sd == 0 else TapBranch(lf, sub_obj)
        shape = [sub, extra] if sd == 0 else [extra, sub]
        c2 = dict(case, shape=shape, swaps=False)
        attempt(tree.leaves)
        # check_paths with the supplied objects (no fresh tree: the shared object is the point)
        check_paths(res, c2, eng, tree, objs)
    return res


# ---------------------------------------------------------------- leaf versions
V_SUBSET = [0x00, 0x02, 0x7E, 0x80, 0xC2, 0xFE]


def key_with_qpar(seed, label, root, want):
    """first secret of a deterministic stream whose output key for this root has the wanted parity"""
    j = 0
    while True:
        d = filler_int(seed, "c12q" + label, j, 1, N - 1)
        out = ref_output(ec.SECP, ec.SECP.mulg(d)[0], root, None)
        if out is not None and out[1] == want:
            return d
        j += 1


def gen_real_versions(tier, seed):
    cases = []
    for v in range(0, 256, 2):
        for pos, (sh, vers) in enumerate((((0, [v])), ([0, 1], [v, 0xC0]), ([0, 1], [0xC0, v]))):
            cases.append({"mode": "hdr", "shape": sh, "vers": vers, "v": v, "pos": pos})
    vias = ["xy", "sec", "xonly", "priv"]
    full = V_SUBSET if tier == "quick" else list(range(0, 256, 2))
    set_leaf_table({})
    for i, v in enumerate(full):
        for sh, vers in ((0, [v]), ([0, 1], [v, full[(i + 1) % len(full)]])):
            root = ref_hash(sh, vers)
            for want in (0, 1):
                d = key_with_qpar(seed, f"{v}/{len(vers)}", root, want)
                cases.append({"mode": "full", "shape": sh, "vers": vers, "d": str(d), "key_via": vias[(i + want + len(vers)) % 4], "want_qpar": want})
    return cases


def run_real_versions(case):
    from buidl.taproot import ControlBlock

    res = Res()
    eng = "real-versions"
    if case["mode"] == "full":
        check_tree(res, case, ec.SECP, None, eng)
        want = f"Qodd={case['want_qpar']})"
        if not res.n_violations and not any(o.endswith(want) for o in res.outcomes):
            raise AssertionError("generator promised the other output-key parity")
        return res
    exp_root = check_paths(res, case, eng)
    if exp_root is None:
        return res
    v, shape, vers = case["v"], case["shape"], case["vers"]
    vc = {"engine": eng, "case": case}
    leaf = 0 if case["pos"] < 2 else 1
    gx = ec.SECP.g[0]
    for par in (0, 1):
        b = bytes([v | par]) + ec.b32(gx) + b"".join(ref_path(shape, leaf, vers))
        back = attempt(ControlBlock.parse, b)
        good = (not isinstance(back, Rejected)) and back is not None and back.tapleaf_version == v and back.parity == par
        good = good and attempt(back.serialize) == b and attempt(back.merkle_root, parse_script(leaf_script_bytes(leaf))) == exp_root
        if not good:
            res.violation(f"C12/{eng}/header-roundtrip", vc, repr(back) if isinstance(back, Rejected) else (getattr(back, "tapleaf_version", None), getattr(back, "parity", None)), (v, par), f"control block with header byte {v | par:#04x} does not parse to (version, parity), serialise back and recompute the root")
        else:
            res.ok("header byte round trip & merkle_root==ref", nontrivial=("hdr", v, par, case["pos"]))
    return res


# ---------------------------------------------------------------- ControlBlock.parse boundary inputs
LEAF0_ITEMS = [b"\x01" * 32, 0xAC]


def ref_commit(px, sibs):
    """reference commitment of leaf 0 (version 0xc0) under the sibling list; any depth"""
    k = txref.tapleaf_hash(b"\x20" + b"\x01" * 32 + b"\xac", 0xC0)
    for e in sibs:
        k = ec.tagged("TapBranch", k + e if k < e else e + k)
    return ref_output(ec.SECP, px, k, None)


KEY_FIELDS = {"zero": 0, "p-1": ec.SECP.p - 1, "p": ec.SECP.p, "p+1": ec.SECP.p + 1, "n": N, "2^256-1": 2**256 - 1, "five(not on curve)": 5}


def gen_real_cb_parse(tier, seed):
    keys = real_keys(seed)
    cases = []
    for ki in (0, 1):
        for L in range(0, 201):
            cases.append({"what": "len", "d": str(keys[ki]), "L": L, "seed": seed})
    for i, m in enumerate((0, 1, 127, 128, 129, 130)):
        for delta in (-1, 0, 1):
            cases.append({"what": "depth", "d": str(keys[i % 2]), "m": m, "delta": delta, "seed": seed})
    for x0 in (1, 2, 3):
        for alt in ("honest", "plus-p"):
            cases.append({"what": "key", "x0": x0, "alt": alt, "seed": seed})
    for ki in (0, 1):
        for name in KEY_FIELDS:
            cases.append({"what": "key", "d": str(keys[ki]), "alt": name, "seed": seed})
    return cases


def run_real_cb_parse(case):
    res = Res()
    c = ec.SECP
    eng = "real-cb-parse"
    set_leaf_table({})
    vc = {"engine": eng, "case": case}
    what, seed = case["what"], case["seed"]
    sb = leaf_script_bytes(0)
    sib = lambda j: filler(seed, "c12sib", j, 32)
    if what == "len":
        px = c.mulg(int(case["d"]))[0]
        sibs = [sib(j) for j in range(3)]
        Q, par, _ = ref_commit(px, sibs)
        cb = bytes([0xC0 | par]) + ec.b32(px) + b"".join(sibs)
        data = (cb + filler(seed, "c12pad", 0, 72))[: case["L"]]
        assert ref_verifier_accepts(c, cb, sb, Q, None)
    elif what == "depth":
        px = c.mulg(int(case["d"]))[0]
        sibs = [sib(j) for j in range(case["m"])]
        Q, par, _ = ref_commit(px, sibs)
        cb = bytes([0xC0 | par]) + ec.b32(px) + b"".join(sibs)
        data = {-1: cb[:-1], 0: cb, 1: cb + b"\x00"}[case["delta"]]
    else:
        if "x0" in case:
            px = case["x0"]  # tiny x coordinates on the curve: x + p still fits in 32 bytes
            assert c.lift_x(px) is not None and px + c.p < 2**256
            field = px if case["alt"] == "honest" else px + c.p
        else:
            px = c.mulg(int(case["d"]))[0]
            field = KEY_FIELDS[case["alt"]]
        sibs = [sib(0)]
        Q, par, _ = ref_commit(px, sibs)
        data = bytes([0xC0 | par]) + ec.b32(field) + b"".join(sibs)
    exp = ref_verifier_accepts(c, data, sb, Q, None)
    got = verifier_accepts(data, LEAF0_ITEMS, Q, par, 0xC0)
    if got and not exp:
        res.violation(f"C12/{eng}/{what}-accepted", vc, got, exp, "a control block the BIP341 reference rejects (length / depth bound / internal key not a valid x coordinate below p) is accepted as committing to the output key")
    elif exp and not got:
        res.violation(f"C12/{eng}/{what}-valid-rejected", vc, got, exp, "a valid control block is rejected")
    else:
        res.ok("accepted==ref(valid)" if exp else "rejected==ref", nontrivial=(what, case.get("L"), case.get("m"), case.get("delta"), case.get("alt"), case.get("x0"), case.get("d")))
    return res


# ---------------------------------------------------------------- toy engine
def gen_toy_tree(toy):
    def g(tier, seed):
        cases = []
        kmax = 3 if tier == "quick" else 4
        for d in range(1, toy[1]):
            for k in range(1, kmax + 1):
                for sh in shapes(k):
                    case = {"toy": list(toy), "shape": sh, "d": str(d), "vers": [0xC0] * k}
                    if k <= 2:
                        case["also_keys"] = [str((d + j) % (toy[1] - 1) + 1) for j in (1, 2, 3, 4)]
                    cases.append(case)
                    if k >= 2:
                        cases.append({"toy": list(toy), "shape": sh, "d": str(d), "vers": [0xC0] * (k - 1) + [0xC2], "scripts": [0] + list(range(1, k - 1)) + [0]})
        return cases

    return g


def run_toy_tree(case):
    from buidl import pecc

    res = Res()
    toy = tuple(case["toy"])
    assert current_toy() == toy and pecc.N == toy[1]
    c = ec.toy_curve(*toy)
    eng = f"toy-tree-{toy[0]}"
    check_tree(res, case, c, toy, eng)
    if res.n_violations:
        return res
    # exhaustive tamper of the first leaf's control block: every byte x all 255 other values (differential)
    sh, d, vers = case["shape"], int(case["d"]), case["vers"]
    root = ref_hash(sh, vers)
    P = c.mulg(d)
    out = ref_output(c, P[0], root, toy)
    if out is None:
        return res
    Q, par, _ = out
    leaf = leaves_of(sh)[0]
    cb = bytes([0xC0 | par]) + ec.b32(P[0]) + b"".join(ref_path(sh, leaf, vers))
    script_items = [bytes([leaf + 1]) * 32, 0xAC]
    sb = leaf_script_bytes(leaf)
    vc = {"engine": eng, "toy": list(toy), "case": case}
    # positions: header byte, the low byte of the key (only byte that matters in a toy field) and one
    # high byte, first/last byte of each path hash
    positions = [0, 1, 31, 32] + [p for j in range(33, len(cb), 32) for p in (j, j + 31)]
    for pos in positions:
        for val in range(256):
            if val == cb[pos]:
                continue
            b = bytearray(cb)
            b[pos] = val
            exp = ref_verifier_accepts(c, bytes(b), sb, Q, toy)
            got = verifier_accepts(bytes(b), script_items, Q, par, 0xC0)
            if got != exp:
                res.violation(f"C12/{eng}/tamper-{'accepted' if got else 'valid-rejected'}", vc, got, exp, f"control block byte {pos} := {val}: library and reference disagree")
                return res
            res.bulk("tamper==ref(collision)" if exp else "tamper==ref(rejected)", 1, 1)
    return res


def engines(tier, seed):
    toys = [(43, 31)] if tier == "quick" else [(43, 31), (79, 67), (67, 79)]
    es = [
        Engine("real-tree", gen_real_tree, run_real_tree, kind="E1", rule="secp256k1: every binary tree shape with 1..5 leaves (thorough ..8; 5-leaf shapes in quick and 8-leaf shapes alternate between the two key parities) x internal keys of both parities (+ mixed leaf versions for <= 3 leaves; + secrets 1, 2, n-1, n-2 and internal keys built from SEC / x-only / private key on 1- and 2-leaf trees; single leaf also with the leaf argument omitted): root, child-swap invariance at every node, output key, private tweak, every leaf's control block (bytes, parse round trip, recomputation of key and parity), query-order independence"),
        Engine("real-tamper", gen_real_tamper, run_real_tamper, kind="E1", rule="secp256k1: every byte of selected control blocks (depth 1 and 2 paths, both parities) and of a leaf script x {^01, ^80, +1}, plus truncations: accepted by the library's parse+recompute+compare iff the BIP341 reference accepts"),
    ]
    es += [
        Engine("real-scripts", gen_real_scripts, run_real_scripts, kind="E1", rule="secp256k1, leaf-script alphabet of 22 byte strings (empty, OP_1, OP_0 as empty push and as opcode, pushes of 2/75/76/255/256/520 bytes, an oversized 521-byte push, CHECKSIGADD script, total lengths 252/253/254/65535/65536, and spellings with the SAME parsed commands but other bytes: PUSHDATA1/PUSHDATA2 of 32 bytes, a short-read push) x construction {Script(commands), Script.parse(bytes)} = 40 members: every member as a single leaf (full check as real-tree; quick: one construction per byte string full, the other tree-only), every ordered pair of members on the 2-leaf shape (root, leaves(), Merkle path of each leaf vs reference; full output-key/control-block/recompute check for pairs inside the 7-member colliding sub-alphabet, thorough: for all pairs), every ordered triple of the colliding sub-alphabet on both 3-leaf shapes (paths; thorough: full). Oracle: reference leaf hash/path on the committed bytes; where several positions commit to the same (version, bytes) the block of any of them is accepted"),
        Engine("real-paths", gen_real_paths, run_real_paths, kind="E1", rule="tree-only (no curve arithmetic): every binary tree shape with 6, 7 and 8 leaves (42+132+429) with leaf versions c0/c2 mixed: root, leaves() order, Merkle path of every leaf in two query orders vs reference, child-swap invariance at every node; TapBranch.combine for 1..8 leaves vs the balanced reference shape; one TapBranch object shared as subtree by two trees (2- and 3-leaf subtrees, both sides)"),
        Engine("real-versions", gen_real_versions, run_real_versions, kind="E1", rule="every even leaf version 0x00..0xfe x position {single leaf, left, right of a pair}: root and paths vs reference, control block header byte version|parity for both parity bits parses to (version, parity), serialises back and merkle_root() gives the reference root; full real-tree check for versions {00,02,7e,80,c2,fe} (thorough: all 128) x {1 leaf, 2 leaves} x output key parity {even, odd} (secret walked until the reference output key has that parity) x internal key built from coordinates / SEC / x-only / private key. Odd version numbers are not leaf versions: nothing asserted"),
        Engine("real-cb-parse", gen_real_cb_parse, run_real_cb_parse, kind="E1", rule="secp256k1, reference-built commitments of one leaf: control block cut/padded to every length 0..200 (two internal keys); honest blocks of path depth 0,1,127,128,129,130 and the same +-1 byte (BIP341 bound 128); internal-key field replaced by x+p for the curve points x=1,2,3 and by 0, p-1, p, p+1, n, 2^256-1, 5: the library's parse+recompute+compare accepts iff the BIP341 reference does"),
    ]
    for toy in toys:
        es.append(Engine(f"toy-tree-{toy[0]}", gen_toy_tree(toy), run_toy_tree, toy=toy, kind="E3", rule=f"toy curve p={toy[0]}: every internal key x every shape with <= 3 leaves (thorough 4): same checks as real-tree, plus header/key/path bytes of a control block x all 255 alternative values compared differentially with the reference (collisions at 5 bits are expected and counted)"))
    return es
