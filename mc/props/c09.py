"""C09 — address and key text encodings invert exactly and reject what the specs reject.

All engines are E1 (bounded exhaustive enumeration, no state graph); the oracle is mc.ref.addrref.

  b58        Base58Check round trip on every payload length 0..82 x leading-zero run 0..5 x body kinds.
  b58acc     "accepted exactly when the checksum matches": every single-character substitution
             (57 alphabet alternatives + the 4 look-alike non-alphabet characters) at every position of
             address / WIF / extended-key strings, all double substitutions of short strings (thorough: of
             real addresses), every bit flip of payload and checksum, mis-constructed checksums, and every
             Base58 string of length <= 3 (thorough <= 4).
  wif        secrets x {compressed, uncompressed} x 4 networks, both directions.
  xkey       78-byte extended-key payloads (20 SLIP-132 versions x shapes) through HDPrivateKey/HDPublicKey.
  segwit-rt  every witness version 0..16 x program length 2..40 x 4 networks x program kinds: encode
             byte-identical to BIP173/350 (constant by version), decode inverts.
  templates  5 standard scriptPubKey templates x 4 networks x hashes: address(), address_to_script_pubkey,
             TxOut.to_address, ScriptPubKey.parse(...).address(), distinctness.
  segwit-sub every single and every double substitution of the data part of segwit addresses: never accepted
             (plus single replacements by characters outside the alphabet / by the upper-case form).
  segwit-malformed  strings with a CORRECT checksum that are still not addresses: every padding value, extra
             5-bit groups, witness versions 17..31, program lengths 0..42 (thorough 0..52), version-0 lengths
             other than 20/32, wrong / missing separator, upper and mixed case - through all three decoders.
  b58addr    every version byte 0..255 x hash lengths {0,1,19,20,21,32} with a correct checksum through the two
             address-level decoders: accepted => it is a P2PKH/P2SH address of some network, script equal.
  wif-shape  every prefix byte x secret widths {0,1,31,32,33,40} x suffixes with a correct checksum through
             PrivateKey.parse.
  entrypoints  the remaining producers of address / WIF text (S256Point.*address, RedeemScript/WitnessScript
             .address/.p2sh_address, HDPrivateKey/HDPublicKey .address/.p2*_address/.wif) x 4 networks.

Not asserted (outside the statement, counted as skips where met): the all-upper-case form of a segwit address
(BIP173: decoders MUST accept; the library rejects), BIP32 semantic validity of extended keys (depth 0 with a
non-zero parent fingerprint / child number), the default argument of PrivateKey.wif() (it ignores key.compressed);
buidl.cecc (libsecp256k1 bindings, not importable in this image) carries its own copy of wif()/parse().
"""
from io import BytesIO

from mc.core import Engine, Res, attempt, Rejected, filler
from mc.ref import addrref as R

PROP = "C09"
NETS = ("mainnet", "testnet", "signet", "regtest")
DECODED_NET = {"mainnet": "mainnet", "testnet": "testnet", "signet": "testnet", "regtest": "regtest"}


def vio(res, fp, engine, case, observed, expected, what):
    res.violation(f"{PROP}/{engine}/{fp}", {"engine": engine, "case": case}, observed, expected, what)


def rej(x):
    return isinstance(x, Rejected) or x is None or x is False


# =============================================================== b58: round trip
def b58_payload(n, z, kind, seed):
    body = n - z
    if body == 0:
        return b"\x00" * z
    if kind in ("chk-lead00", "chk-trail00"):
        # first filler (counter 0, 1, 2, ...) whose 4-byte checksum begins / ends with a zero byte
        pos = 0 if kind == "chk-lead00" else 3
        c = 0
        while True:
            b = filler(seed, "b58-" + kind, (n * 8 + z) * 4096 + c, body)
            if b[0] == 0:
                b = b"\x01" + b[1:]
            if R.dsha(b"\x00" * z + b)[pos] == 0:
                return b"\x00" * z + b
            c += 1
    if kind == "ff":
        b = b"\xff" * body
    elif kind == "01":
        b = b"\x01" + b"\x00" * (body - 1)
    elif kind == "80":
        b = b"\x80" + b"\x00" * (body - 1)
    else:
        b = filler(seed, "b58-" + kind, n * 8 + z, body)
        if b[0] == 0:
            b = b"\x01" + b[1:]
    return b"\x00" * z + b


def gen_b58(tier, seed):
    kinds = ["ff", "01", "80"] + [f"f{k}" for k in range(3 if tier == "quick" else 12)]
    cases = []
    for n in range(0, 83):
        for z in range(0, min(5, n) + 1):
            if z == n:
                cases.append({"n": n, "z": z, "kind": "zero", "seed": seed})
                continue
            for k in kinds:
                cases.append({"n": n, "z": z, "kind": k, "seed": seed})
        # every longer leading-zero run 6..n (incl. the all-zero payload of every length)
        for z in range(6, n + 1):
            if z == n:
                cases.append({"n": n, "z": z, "kind": "zero", "seed": seed})
                continue
            for k in (["ff", "01", "f0"] if tier == "quick" else kinds):
                cases.append({"n": n, "z": z, "kind": k, "seed": seed})
        # payloads whose checksum itself starts / ends with a zero byte
        for z in range(0, min(2, n - 1) + 1):
            if n - z >= 2:
                for k in ("chk-lead00", "chk-trail00"):
                    cases.append({"n": n, "z": z, "kind": k, "seed": seed})
    return cases


def run_b58(case):
    from buidl.helper import decode_base58, encode_base58, encode_base58_checksum, raw_decode_base58

    res = Res()
    n, z = case["n"], case["z"]
    p = b58_payload(n, z, case["kind"], case["seed"])
    cls = "empty" if n == 0 else ("allzero" if z == n else ("lead0" if z else "plain"))
    want = R.b58check_encode(p)
    assert R.b58check_decode(want) == p
    key = (n, z, case["kind"])
    got = attempt(encode_base58_checksum, p)
    if got != want:
        vio(res, f"encode/{cls}", "b58", case, got, want, "encode_base58_checksum differs from reference Base58Check")
    else:
        res.ok("encode==ref", key, sample={"payload": p, "str": want} if z == 2 and n in (2, 21) else None)
    dec = attempt(raw_decode_base58, want)
    if dec != p:
        vio(res, f"decode/{cls}", "b58", case, dec, p, "raw_decode_base58 does not invert the reference encoding")
    else:
        res.ok("decode==payload", key)
    dec1 = attempt(decode_base58, want)
    if dec1 != p[1:]:
        vio(res, f"decode_base58/{cls}", "b58", case, dec1, p[1:], "decode_base58 is not payload minus version byte")
    else:
        res.ok("decode_base58==payload[1:]")
    if n == 0:
        res.skip("encode_base58 of empty bytes: plain Base58 of nothing is not a Base58Check string")
    else:
        raw = attempt(encode_base58, p)
        if raw != R.b58encode(p):
            vio(res, f"encode_raw/{cls}", "b58", case, raw, R.b58encode(p), "encode_base58 differs from reference Base58")
        else:
            res.ok("encode_raw==ref")
    if z:
        res.notes["leading_zero_payloads"] = res.notes.get("leading_zero_payloads", 0) + 1
    return res


# =============================================================== b58acc: accepted iff checksum matches
def b58_strings(seed):
    """name -> (string, kind)"""
    h = filler(seed, "acc-h160", 0, 20)
    sec = (int.from_bytes(filler(seed, "acc-secret", 0, 32), "big") % (R.N - 1)) + 1
    cc = filler(seed, "acc-cc", 0, 32)
    fp = filler(seed, "acc-fp", 0, 4)
    xprv = R.xkey_payload(R.XPRV_VERSIONS["xprv"], 3, fp, 0x80000002, cc, b"\x00" + sec.to_bytes(32, "big"))
    tpub = R.xkey_payload(R.XPUB_VERSIONS["tpub"], 1, fp, 7, cc, R.pubkey_sec(sec))
    out = {
        "p2pkh-main": (R.b58check_encode(b"\x00" + h), "addr"),
        "p2pkh-lead0": (R.b58check_encode(b"\x00\x00\x00" + h[:18]), "addr"),
        "p2pkh-test": (R.b58check_encode(b"\x6f" + h), "addr"),
        "p2sh-main": (R.b58check_encode(b"\x05" + h), "addr"),
        "p2sh-test": (R.b58check_encode(b"\xc4" + h), "addr"),
        "wif-c-main": (R.wif_encode(sec, True, "mainnet"), "wif"),
        "wif-u-test": (R.wif_encode(sec, False, "testnet"), "wif"),
        "xprv": (R.b58check_encode(xprv), "xprv"),
        "tpub": (R.b58check_encode(tpub), "xpub"),
        "tiny": (R.b58check_encode(h[:1]), "raw"),
        "empty": (R.b58check_encode(b""), "raw"),
    }
    return out


_B58S = {}


def b58_strings_cached(seed):
    if seed not in _B58S:
        _B58S[seed] = b58_strings(seed)
    return _B58S[seed]


NON_ALPHABET = "0OIl"


def gen_b58acc(tier, seed):
    strs = b58_strings(seed)
    cases = []
    for name, (s, kind) in strs.items():
        for i in range(len(s)):
            cases.append({"t": "single", "name": name, "i": i, "seed": seed})
        cases.append({"t": "bytes", "name": name, "seed": seed})
    doubles = ["tiny", "empty"] if tier == "quick" else ["tiny", "empty", "p2pkh-main", "p2pkh-lead0", "p2sh-test", "wif-c-main"]
    for name in doubles:
        s = strs[name][0]
        for i in range(len(s) - 1):
            cases.append({"t": "double", "name": name, "i": i, "seed": seed})
    maxlen = 3 if tier == "quick" else 4
    cases.append({"t": "short", "prefix": "", "maxlen": 0, "seed": seed})
    for c in R.B58:
        cases.append({"t": "short", "prefix": c, "maxlen": maxlen, "seed": seed})
    return cases


def typed_decoders(kind):
    """Higher-level parsers that must not accept a string whose checksum is wrong."""
    if kind == "addr":
        from buidl.script import address_to_script_pubkey
        from buidl.tx import TxOut

        return [("address_to_script_pubkey", address_to_script_pubkey), ("TxOut.to_address", lambda s: TxOut.to_address(s, 1))]
    if kind == "wif":
        from buidl.ecc import PrivateKey

        return [("PrivateKey.parse", PrivateKey.parse)]
    if kind == "xprv":
        from buidl.hd import HDPrivateKey

        return [("HDPrivateKey.parse", HDPrivateKey.parse)]
    if kind == "xpub":
        from buidl.hd import HDPublicKey

        return [("HDPublicKey.parse", HDPublicKey.parse)]
    return []


def acc_compare(res, case, s, raw_decode, sub, typed=()):
    """impl accepts s  <=>  reference accepts s (and the payloads agree)."""
    want = R.b58check_decode(s, fast=True)
    try:
        got = raw_decode(s)
        acc = got is not None and got is not False
    except Exception:
        got, acc = None, False
    if acc and want is None:
        vio(res, f"accepts-bad-checksum/{sub}", "b58acc", case, {"string": s, "returned": got}, "rejected",
            "raw_decode_base58 accepts a string whose 4-byte double-SHA256 checksum does not match")
        return False
    if not acc and want is not None:
        vio(res, f"rejects-good-checksum/{sub}", "b58acc", case, {"string": s}, {"payload": want},
            "raw_decode_base58 rejects a string whose checksum matches")
        return False
    if acc and got != want:
        vio(res, f"payload-differs/{sub}", "b58acc", case, {"string": s, "returned": got}, want, "decoded payload differs from reference")
        return False
    for nm, fn in typed:
        try:
            r = fn(s)
            tacc = r is not None and r is not False
        except Exception:
            tacc = False
        if tacc and want is None:
            vio(res, f"typed-accepts-bad-checksum/{nm}", "b58acc", case, {"string": s}, "rejected",
                f"{nm} accepts a Base58Check string whose checksum does not match")
            return False
    return True


def run_b58acc(case):
    from buidl.helper import raw_decode_base58

    res = Res()
    t = case["t"]
    if t == "short":
        pre, maxlen = case["prefix"], case["maxlen"]
        level = [pre]
        n = 0
        for depth in range(len(pre), maxlen + 1):
            for s in level:
                if acc_compare(res, case, s, raw_decode_base58, "short-string"):
                    n += 1
            if depth < maxlen:
                level = [s + c for s in level for c in R.B58]
        res.bulk("short-string: impl verdict == ref verdict (reject)", n, 0)  # too short to carry a checksum: trivial
        return res
    s, kind = b58_strings_cached(case["seed"])[case["name"]]
    name, i = case["name"], case.get("i")
    if t == "single":
        typed = typed_decoders(kind)
        if i == 0:
            # 0-deviation: the honest string is accepted by every decoder
            if acc_compare(res, case, s, raw_decode_base58, "honest"):
                res.ok("honest accepted")
            for nm, fn in typed:
                r = attempt(fn, s)
                if rej(r):
                    vio(res, f"typed-rejects-honest/{nm}/{name}", "b58acc", case, repr(r), "accepted", f"{nm} rejects an honest string")
                else:
                    res.ok("honest accepted (typed)")
        n = n0 = 0
        for c in R.B58 + NON_ALPHABET:
            if c == s[i]:
                continue
            m = s[:i] + c + s[i + 1 :]
            sub = "non-alphabet-char" if c in NON_ALPHABET else "single-substitution"
            if acc_compare(res, case, m, raw_decode_base58, sub, typed):
                if c in NON_ALPHABET:
                    n0 += 1
                else:
                    n += 1
        res.bulk("single substitution: impl verdict == ref verdict", n, n)
        res.bulk("non-alphabet character: rejected", n0, 0)  # never reaches the checksum test: trivial
        return res
    if t == "double":
        n = 0
        for c1 in R.B58:
            if c1 == s[i]:
                continue
            head = s[:i] + c1
            for j in range(i + 1, len(s)):
                mid, tail = s[i + 1 : j], s[j + 1 :]
                for c2 in R.B58:
                    if c2 == s[j]:
                        continue
                    if acc_compare(res, case, head + mid + c2 + tail, raw_decode_base58, "double-substitution"):
                        n += 1
        res.bulk("double substitution: impl verdict == ref verdict", n, n)
        return res
    if t == "bytes":
        payload = R.b58check_decode(s)
        good = R.dsha(payload)[:4]
        full = payload + good
        variants = []
        for bit in range(len(full) * 8):
            b = bytearray(full)
            b[bit // 8] ^= 1 << (bit % 8)
            variants.append(("bitflip-checksum" if bit // 8 >= len(payload) else "bitflip-payload", bytes(b)))
        h = R.dsha(payload)
        variants += [
            ("checksum-3-bytes", payload + good[:3]),
            ("checksum-5-bytes", payload + h[:5]),
            ("checksum-missing", payload),
            ("checksum-single-sha256", payload + R.sha256(payload)[:4]),
            ("checksum-last-4-bytes", payload + h[-4:]),
            ("checksum-reversed", payload + good[::-1]),
            ("checksum-of-payload-without-version", payload + R.dsha(payload[1:])[:4]),
            ("checksum-zero", payload + b"\x00" * 4),
            ("extra-leading-zero", b"\x00" + full),
            ("honest", full),
        ]
        if full[:1] == b"\x00":
            variants.append(("dropped-leading-zero", full[1:]))
        typed = typed_decoders(kind)
        n = 0
        for sub, raw in variants:
            if acc_compare(res, case, R.b58encode(raw), raw_decode_base58, sub, typed):
                n += 1
        res.bulk("byte-level corruption: impl verdict == ref verdict", n, n)
        return res
    raise ValueError(t)


# =============================================================== wif
def wif_secrets(tier, seed):
    out = {}
    ks = range(0, 256) if tier == "thorough" else list(range(0, 256, 8)) + [1, 7, 9, 247, 249, 255]
    for k in ks:
        out[f"2^{k}"] = 1 << k
        if k:
            out[f"2^{k}-1"] = (1 << k) - 1
    out["n-1"] = R.N - 1
    out["n-2"] = R.N - 2
    out["(n-1)/2"] = (R.N - 1) // 2
    for k in range(8 if tier == "quick" else 32):
        out[f"f{k}"] = int.from_bytes(filler(seed, "wif", k, 32), "big") % (R.N - 1) + 1
    return out


def gen_wif(tier, seed):
    cases = []
    for label, sec in wif_secrets(tier, seed).items():
        for comp in (True, False):
            for net in NETS:
                cases.append({"label": label, "secret": f"{sec:064x}", "compressed": comp, "network": net})
    return cases


def run_wif(case):
    from buidl.ecc import PrivateKey

    res = Res()
    sec, comp, net = int(case["secret"], 16), case["compressed"], case["network"]
    want = R.wif_encode(sec, comp, net)
    assert R.wif_decode(want) == (sec, comp, net == "mainnet")
    key = (case["label"], comp, net)
    cls = f"{'compressed' if comp else 'uncompressed'}/{'mainnet' if net == 'mainnet' else 'non-mainnet'}"
    pk = attempt(PrivateKey, sec, net, comp)
    if isinstance(pk, Rejected):
        vio(res, f"construct/{cls}", "wif", case, repr(pk), "PrivateKey", "cannot build a PrivateKey for a secret in [1, n-1]")
        return res
    got = attempt(pk.wif, comp)
    if got != want:
        vio(res, f"encode/{cls}", "wif", case, got, want, "PrivateKey.wif differs from reference WIF")
    else:
        res.ok("wif==ref", key, sample={"secret": case["label"], "compressed": comp, "network": net, "wif": want} if case["label"] == "2^0" else None)
    parsed = attempt(PrivateKey.parse, want)
    if isinstance(parsed, Rejected):
        vio(res, f"parse-rejects/{cls}", "wif", case, repr(parsed), "parsed", "PrivateKey.parse rejects a reference WIF string")
        return res
    obs = attempt(lambda: (parsed.secret, bool(parsed.compressed), parsed.network == "mainnet"))
    if obs != (sec, comp, net == "mainnet"):
        vio(res, f"parse-fields/{cls}", "wif", case, obs, (sec, comp, net == "mainnet"), "parsed (secret, compressed, mainnet?) differ from what was encoded")
    else:
        res.ok("parse==fields", key)
    back = attempt(lambda: parsed.wif(compressed=parsed.compressed))
    if back != want:
        vio(res, f"reencode/{cls}", "wif", case, back, want, "parse -> wif does not reproduce the string")
    else:
        res.ok("parse->wif==string")
    return res


# =============================================================== xkey
XK_SHAPES = [("master", 0, "zero", 0)] + [(f"d{d}-c{c:x}", d, "f", c) for d in (1, 255) for c in (0, 1, 0x80000000, 0xFFFFFFFF)]


def gen_xkey(tier, seed):
    cases = []
    versions = [("prv", k) for k in R.XPRV_VERSIONS] + [("pub", k) for k in R.XPUB_VERSIONS]
    for side, ver in versions:
        for shape, depth, fpk, child in XK_SHAPES:
            combos = [("f", "f")]
            if tier == "thorough" or shape == "d1-c1":
                combos += [("lead0", "f"), ("f", "one"), ("lead0", "one"), ("f", "n-1")]
            for cck, keyk in combos:
                cases.append({"side": side, "ver": ver, "shape": shape, "depth": depth, "fp": fpk, "child": child, "cc": cck, "key": keyk, "seed": seed})
    return cases


_PUBS = {}


def run_xkey(case):
    from buidl.ecc import PrivateKey
    from buidl.hd import HDPrivateKey, HDPublicKey

    res = Res()
    seed = case["seed"]
    fp = b"\x00" * 4 if case["fp"] == "zero" else filler(seed, "xk-fp", 0, 4)
    cc = filler(seed, "xk-cc", 0, 32)
    if case["cc"] == "lead0":
        cc = b"\x00\x00" + cc[2:]
    sec = {"one": 1, "n-1": R.N - 1}.get(case["key"]) or int.from_bytes(filler(seed, "xk-key", 0, 32), "big") % (R.N - 1) + 1
    side, ver = case["side"], case["ver"]
    mainnet = ver[0] in "xyzYZ"
    if side == "prv":
        key33 = b"\x00" + sec.to_bytes(32, "big")
        vhex = R.XPRV_VERSIONS[ver]
    else:
        if sec not in _PUBS:
            _PUBS[sec] = R.pubkey_sec(sec)
        key33 = _PUBS[sec]
        vhex = R.XPUB_VERSIONS[ver]
    payload = R.xkey_payload(vhex, case["depth"], fp, case["child"], cc, key33)
    s = R.b58check_encode(payload)
    assert len(payload) == 78 and len(s) in (111, 112)
    key = (side, ver, case["shape"], case["cc"], case["key"])
    cls = f"{side}/{'bip32' if ver in ('xprv', 'xpub', 'tprv', 'tpub') else 'slip132'}"
    want_fields = (case["depth"], fp, case["child"], cc, key33, mainnet)
    if side == "prv":
        k = attempt(HDPrivateKey.parse, s)
        fields = lambda k: (k.depth, k.parent_fingerprint, k.child_number, k.chain_code, b"\x00" + k.private_key.secret.to_bytes(32, "big"), k.network == "mainnet")
        ser = lambda k: k.xprv()
    else:
        k = attempt(HDPublicKey.parse, s)
        fields = lambda k: (k.depth, k.parent_fingerprint, k.child_number, k.chain_code, k.point.sec(), k.network == "mainnet")
        ser = lambda k: k.xpub()
    if isinstance(k, Rejected):
        vio(res, f"parse-rejects/{cls}", "xkey", case, repr(k), "parsed", "extended-key parser rejects a well-formed reference string")
        return res
    f = attempt(fields, k)
    if f != want_fields:
        vio(res, f"parse-fields/{cls}", "xkey", case, f, want_fields, "parsed extended-key fields differ from the encoded payload")
    else:
        res.ok("parse==fields", key)
    back = attempt(ser, k)
    if back != s:
        vio(res, f"reencode/{cls}", "xkey", case, back, s, "parse -> serialise does not reproduce the string")
    else:
        res.ok("parse->text==string", key, sample={"ver": ver, "shape": case["shape"], "str": s} if case["shape"] == "master" and ver in ("zprv", "tpub") else None)
    # encoding direction without the parser: construct from fields
    net = "mainnet" if mainnet else "testnet"
    if side == "prv":
        built = attempt(lambda: HDPrivateKey(PrivateKey(sec), cc, case["depth"], fp, case["child"], net, priv_version=bytes.fromhex(vhex)).xprv())
    else:
        built = attempt(lambda: HDPublicKey(k.point, cc, case["depth"], fp, case["child"], net, pub_version=bytes.fromhex(vhex)).xpub())
    if built != s:
        vio(res, f"encode/{cls}", "xkey", case, built, s, "extended key built from its fields does not serialise to the reference string")
    else:
        res.ok("encode==ref")
    return res


# =============================================================== segwit-rt
def prog_bytes(kind, n, seed, label):
    if kind == "zeros":
        return b"\x00" * n
    if kind == "ff":
        return b"\xff" * n
    if kind == "lead0":
        return b"\x00" + filler(seed, label, n, n)[1:]
    if kind == "low-bit":
        return b"\x00" * (n - 1) + b"\x01"
    if kind == "high-bit":
        return b"\x80" + b"\x00" * (n - 1)
    return filler(seed, label + kind, n, n)


def gen_segwit_rt(tier, seed):
    kinds = ["zeros", "ff", "f0"] if tier == "quick" else ["zeros", "ff", "lead0", "low-bit", "high-bit"] + [f"f{k}" for k in range(5)]
    return [
        {"ver": v, "n": n, "network": net, "kind": k, "seed": seed}
        for v in range(17)
        for n in range(2, 41)
        for net in NETS
        for k in kinds
    ]


def run_segwit_rt(case):
    from buidl.bech32 import decode_bech32, encode_bech32_checksum
    from buidl.script import address_to_script_pubkey
    from buidl.tx import TxOut

    res = Res()
    v, n, net = case["ver"], case["n"], case["network"]
    prog = prog_bytes(case["kind"], n, case["seed"], "swrt")
    hrp = R.NETWORKS[net][0]
    spk = R.witness_script_pubkey(v, prog)
    want = R.segwit_encode_raw(hrp, v, prog)
    assert R.segwit_decode(hrp, want, strict_v0=False) == (v, prog)
    bip_valid = R.segwit_valid(hrp, want)
    assert bip_valid == (v != 0 or n in (20, 32))
    vcls = "v0" if v == 0 else "v1-16"
    key = (v, n, net, case["kind"])
    tag = "" if bip_valid else " (v0 with a length BIP141 does not define)"
    got = attempt(encode_bech32_checksum, spk, net)
    if got != want:
        if isinstance(got, str) and got[: -6] == want[:-6]:
            part = "checksum"
        elif isinstance(got, str) and got.startswith(hrp + "1") and len(got) == len(want):
            part = "data"
        else:
            part = "shape"
        vio(res, f"encode/{vcls}/{part}", "segwit-rt", case, got, want, "encode_bech32_checksum differs from the BIP173/BIP350 reference address")
    else:
        res.ok("encode==ref" + tag, key, sample={"ver": v, "len": n, "network": net, "addr": want} if n in (2, 40) and v in (0, 16) and case["kind"] == "f0" else None)
    if isinstance(got, str) and got.startswith(hrp + "1") and all(c in R.CHARSET_INDEX for c in got[len(hrp) + 1 :]):
        pm = R.polymod(R.hrp_expand(hrp) + [R.CHARSET_INDEX[c] for c in got[len(hrp) + 1 :]])
        if pm != R.const_for_version(v):
            vio(res, f"constant/{vcls}", "segwit-rt", case, hex(pm), hex(R.const_for_version(v)),
                "checksum constant: version 0 must verify as Bech32 (1), versions 1..16 as Bech32m (0x2bc830a3)")
        else:
            res.ok("constant-by-version")
    dec = attempt(decode_bech32, want)
    exp = [DECODED_NET[net], v, prog]
    if isinstance(dec, Rejected) or list(dec) != exp:
        vio(res, f"decode/{vcls}/{'regtest' if net == 'regtest' else 'bc-tb'}", "segwit-rt", case, dec, exp, "decode_bech32 does not invert the reference encoding")
    else:
        res.ok("decode==(network,version,program)" + tag, key)
    # address-level decoders may refuse witness programs they have no template for, but an address they
    # accept must be converted to the scriptPubKey it encodes (otherwise two addresses share one script)
    if bip_valid:
        for nm, fn in (
            ("address_to_script_pubkey", lambda a: address_to_script_pubkey(a).raw_serialize()),
            ("TxOut.to_address", lambda a: TxOut.to_address(a, 1).script_pubkey.raw_serialize()),
        ):
            r = attempt(fn, want)
            if isinstance(r, Rejected):
                res.ok(f"{nm}: not accepted")
            elif r != spk:
                vio(res, f"address-level/{nm}/wrong-script/{vcls}", "segwit-rt", case, {"addr": want, "script": r}, spk,
                    f"{nm} accepts a valid segwit address but returns a scriptPubKey other than the one the address encodes")
            else:
                res.ok(f"{nm}: script == encoded witness program", (nm,) + key)
    # the same data with the other checksum constant (Bech32m for v0, Bech32 for v1..16) must not decode
    other = R.bech_encode(hrp, [v] + R.regroup(prog, 8, 5, True), R.BECH32M_CONST if v == 0 else R.BECH32_CONST)
    assert other != want and not R.segwit_valid(hrp, other, strict_v0=False)
    r = attempt(decode_bech32, other)
    if not rej(r):
        vio(res, f"wrong-constant-accepted/{vcls}", "segwit-rt", case, {"addr": other, "returned": r}, "rejected",
            "decode_bech32 accepts a version-0 address with the Bech32m constant / a version-1..16 address with the Bech32 constant")
    else:
        res.ok("other-constant address rejected", key)
    return res


# =============================================================== templates
def tmpl_hashes(tier, seed):
    kinds = ["zeros", "ff", "lead0x1", "lead0x2", "lead0x3", "trail0", "low-bit"]
    kinds += [f"f{k}" for k in range(12 if tier == "quick" else 150)]
    return kinds


def tmpl_hash(kind, n, seed):
    if kind == "zeros":
        return b"\x00" * n
    if kind == "ff":
        return b"\xff" * n
    if kind.startswith("lead0x"):
        z = int(kind[6:])
        return b"\x00" * z + b"\x01" + filler(seed, "tmpl-l", z, n)[z + 1 :]
    if kind == "trail0":
        return filler(seed, "tmpl-t", 0, n - 3) + b"\x00" * 3
    if kind == "low-bit":
        return b"\x00" * (n - 1) + b"\x01"
    return filler(seed, "tmpl-" + kind, n, n)


def gen_templates(tier, seed):
    return [{"network": net, "kind": k, "seed": seed} for net in NETS for k in tmpl_hashes(tier, seed)]


def run_templates(case):
    from buidl import script as bs
    from buidl.tx import TxOut

    res = Res()
    net, kind, seed = case["network"], case["kind"], case["seed"]
    classes = {
        "p2pkh": bs.P2PKHScriptPubKey,
        "p2sh": bs.P2SHScriptPubKey,
        "p2wpkh": bs.P2WPKHScriptPubKey,
        "p2wsh": bs.P2WSHScriptPubKey,
        "p2tr": bs.P2TRScriptPubKey,
    }
    netcls = net
    addrs = {}
    for t in R.TEMPLATES:
        h = tmpl_hash(kind, R.TEMPLATE_HASHLEN[t], seed)
        spk = R.script_pubkey(t, h)
        want = R.address(t, h, net)
        assert R.address_decode(want, net) == (t, h)
        fam = "segwit" if t in ("p2wpkh", "p2wsh", "p2tr") else "base58"
        # fingerprint class: what actually distinguishes networks in the text form (HRP, or the version-byte family)
        netcls = R.NETWORKS[net][0] if fam == "segwit" else ("mainnet" if net == "mainnet" else "testnets")
        key = (t, net, kind)
        # script -> address
        obj = attempt(classes[t], h)
        if isinstance(obj, Rejected) or attempt(obj.raw_serialize) != spk:
            vio(res, f"construct/{t}", "templates", case, repr(obj), spk, "template class does not serialise to the standard scriptPubKey")
            continue
        got = attempt(obj.address, net)
        addrs[t] = got
        if got != want:
            vio(res, f"address/{t}/{netcls}", "templates", case, got, want, "ScriptPubKey.address(network) differs from the reference address")
        else:
            res.ok("address==ref", key, sample={"template": t, "network": net, "hash": h, "addr": want} if kind == "lead0x2" else None)
        # the SAME object asked for every network in turn, in two orders (state kept on the object between calls)
        for order in (list(R.NETWORKS), list(R.NETWORKS)[::-1], [net] + [x for x in R.NETWORKS if x != net]):
            o2 = attempt(classes[t], h)
            seq = []
            for n2 in order:
                seq.append((n2, attempt(o2.address, n2), R.address(t, h, n2)))
            bad = [(n2, g, w) for n2, g, w in seq if g != w]
            if bad:
                vio(res, f"address-on-reused-object/{t}", "templates", case, {"order": order, "got": [g for _, g, _ in seq]}, [w for _, _, w in seq],
                    "address(network) on one script object asked for several networks in turn differs from the reference")
                break
        else:
            res.ok("one object, all networks in turn == ref", ("reuse",) + key)
        # parsed script -> address
        ps = attempt(lambda: bs.ScriptPubKey.parse(BytesIO(bytes([len(spk)]) + spk)))
        pa = attempt(lambda: (type(ps).__name__, ps.address(net)))
        if pa != (classes[t].__name__, want):
            vio(res, f"parsed-address/{t}/{netcls}", "templates", case, pa, (classes[t].__name__, want), "ScriptPubKey.parse(spk).address(network) differs from the reference")
        else:
            res.ok("parse(spk).address==ref")
        # address -> script (two entry points)
        back = attempt(bs.address_to_script_pubkey, want)
        ob = back if isinstance(back, Rejected) else attempt(lambda: (type(back).__name__, back.raw_serialize()))
        if ob != (classes[t].__name__, spk):
            vio(res, f"address_to_script_pubkey/{fam}/{netcls}", "templates", case, {"addr": want, "got": ob}, (classes[t].__name__, spk),
                "address_to_script_pubkey does not return the scriptPubKey the address encodes")
        else:
            res.ok("address_to_script_pubkey==spk", key)
        amount = 1 + (len(kind) * 7919) % 100000
        to = attempt(TxOut.to_address, want, amount)
        ob = to if isinstance(to, Rejected) else attempt(lambda: (to.amount, type(to.script_pubkey).__name__, to.script_pubkey.raw_serialize()))
        if ob != (amount, classes[t].__name__, spk):
            vio(res, f"to_address/{fam}/{netcls}", "templates", case, {"addr": want, "got": ob}, (amount, classes[t].__name__, spk),
                "TxOut.to_address does not produce the scriptPubKey the address encodes (address() produced this address)")
        else:
            res.ok("TxOut.to_address==spk", key)
        # the same witness program under the other checksum constant is not an address
        if fam == "segwit":
            hrp = R.NETWORKS[net][0]
            ver = 1 if t == "p2tr" else 0
            other = R.bech_encode(hrp, [ver] + R.regroup(h, 8, 5, True), R.BECH32_CONST if ver else R.BECH32M_CONST)
            assert R.address_decode(other, net) is None
            for nm, fn in (("address_to_script_pubkey", bs.address_to_script_pubkey), ("TxOut.to_address", lambda a: TxOut.to_address(a, 1))):
                r = attempt(fn, other)
                if not rej(r):
                    vio(res, f"wrong-constant-accepted/{nm}/{'v1' if ver else 'v0'}", "templates", case, {"addr": other, "returned": repr(r)}, "rejected",
                        f"{nm} accepts a segwit address whose checksum uses the constant of the other encoding")
                else:
                    res.ok("other-constant address rejected")
        # nested form: the P2SH address of a witness program
        if t in ("p2wpkh", "p2wsh"):
            import hashlib

            h160 = hashlib.new("ripemd160", R.sha256(spk)).digest()
            nested = attempt(obj.p2sh_address, net)
            if nested != R.address("p2sh", h160, net):
                vio(res, f"p2sh_address/{t}/{netcls}", "templates", case, nested, R.address("p2sh", h160, net), "p2sh_address differs from reference P2SH address of the witness program")
            else:
                res.ok("p2sh-wrapped address==ref")
    if len(addrs) == 5:
        if len(set(map(str, addrs.values()))) != 5:
            vio(res, f"not-injective/{netcls}", "templates", case, addrs, "5 distinct addresses", "two templates over related hashes map to the same address")
        else:
            res.ok("5 templates -> 5 distinct addresses")
    return res


# =============================================================== segwit-sub
def sub_addresses(tier, seed):
    """name -> (hrp, ver, prog)"""
    f = lambda lbl, n: filler(seed, "sub-" + lbl, n, n)
    out = {
        "bc-v0-20": ("bc", 0, f("a", 20)),
        "tb-v1-32": ("tb", 1, f("b", 32)),
        "bcrt-v16-2": ("bcrt", 16, f("c", 2)),
        "bcrt-v0-20": ("bcrt", 0, f("d", 20)),
    }
    if tier == "thorough":
        for hrp in ("bc", "tb", "bcrt"):
            for ver, n in ((0, 20), (0, 32), (1, 32), (16, 2), (16, 40), (2, 2)):
                out.setdefault(f"{hrp}-v{ver}-{n}", (hrp, ver, f(f"{hrp}{ver}", n)))
        out["bc-v0-20-zeros"] = ("bc", 0, b"\x00" * 20)
        out["bc-v1-32-ff"] = ("bc", 1, b"\xff" * 32)
    return out


def gen_segwit_sub(tier, seed):
    cases = []
    for name, (hrp, ver, prog) in sub_addresses(tier, seed).items():
        L = len(R.segwit_encode_raw(hrp, ver, prog)) - len(hrp) - 1
        for i in range(L):
            cases.append({"name": name, "i": i, "seed": seed, "tier": tier})
    return cases


_SUB = {}


def sub_ctx(name, tier, seed):
    k = (name, tier, seed)
    if k not in _SUB:
        hrp, ver, prog = sub_addresses(tier, seed)[name]
        addr = R.segwit_encode(hrp, ver, prog)
        ds = addr[len(hrp) + 1 :]
        data = [R.CHARSET_INDEX[c] for c in ds]
        T = R.syndrome_table(hrp, len(data))
        base = R.polymod(R.hrp_expand(hrp) + data)
        assert base == R.const_for_version(ver)
        _SUB[k] = (hrp, ver, prog, addr, ds, data, T, base)
    return _SUB[k]


def run_segwit_sub(case):
    from buidl.bech32 import decode_bech32
    from buidl.script import address_to_script_pubkey
    from buidl.tx import TxOut

    res = Res()
    name, i, tier = case["name"], case["i"], case["tier"]
    hrp, ver, prog, addr, ds, data, T, base = sub_ctx(name, tier, case["seed"])
    L = len(data)
    standard = (ver == 0 and len(prog) in (20, 32)) or (ver == 1 and len(prog) == 32)
    apis = [("decode_bech32", decode_bech32)]
    apis1 = list(apis)
    if standard:
        apis.append(("address_to_script_pubkey", address_to_script_pubkey))
        apis1 = apis + [("TxOut.to_address", lambda s: TxOut.to_address(s, 1))]
    # doubles: mainnet addresses go through every decoder; tb/bcrt through decode_bech32 and (standard programs)
    # TxOut.to_address, whose prefix dispatch differs per HRP (+ address_to_script_pubkey in thorough)
    apis2 = apis1 if (hrp == "bc" or tier == "thorough") else [a for a in apis1 if a[0] != "address_to_script_pubkey"]
    if i == 0:
        got = attempt(decode_bech32, addr)
        exp = [{"bc": "mainnet", "tb": "testnet", "bcrt": "regtest"}[hrp], ver, prog]
        if isinstance(got, Rejected) or list(got) != exp:
            vio(res, f"honest-rejected/{hrp}", "segwit-sub", case, got, exp, "the unmodified address is not decoded")
        else:
            res.ok("honest accepted")
        if standard:
            r = attempt(address_to_script_pubkey, addr)
            if rej(r) or attempt(r.raw_serialize) != R.witness_script_pubkey(ver, prog):
                vio(res, f"honest-rejected/address_to_script_pubkey/{hrp}", "segwit-sub", case, repr(r), "accepted", "the unmodified address is not accepted")
            else:
                res.ok("honest accepted")
    pre = hrp + "1"
    M, B = R.BECH32M_CONST, R.BECH32_CONST
    CH = R.CHARSET

    def check(s, syn, newver, nsub, apilist):
        ref_ok = (base ^ syn) == (B if newver == 0 else M)
        if ref_ok:
            ref_ok = R.segwit_valid(hrp, s)
        ok = True
        for nm, fn in apilist:
            try:
                r = fn(s)
                acc = r is not None and r is not False
            except Exception:
                acc = False
            if acc:
                ok = False
                if ref_ok:
                    res.ok(f"benign: reference also accepts ({nsub} substitutions)", (s, nm))
                    res.notes["reference_accepted_substitutions"] = res.notes.get("reference_accepted_substitutions", 0) + 1
                else:
                    where = "version-char" if i == 0 else ("checksum-chars" if i >= L - 6 else "program-chars")
                    vio(res, f"accepted/{nm}/{nsub}-substitution/{where}", "segwit-sub", case, {"orig": addr, "mutated": s, "returned": repr(r)}, "rejected",
                        f"{nm} accepts a segwit address obtained from a valid one by substituting {nsub} character(s) of the data part")
        return ok

    # a replacement character from outside the data alphabet: the separator "1", the three excluded letters,
    # and the upper-case form of the original character (mixed case) - never an address
    outside = ["1", "b", "i", "o"] + ([ds[i].upper()] if ds[i].upper() != ds[i] else [])
    n0 = 0
    for c in outside:
        s0 = pre + ds[:i] + c + ds[i + 1 :]
        assert not R.segwit_valid(hrp, s0, strict_v0=False)
        for nm, fn in apis1:
            try:
                r = fn(s0)
                acc = r is not None and r is not False
            except Exception:
                acc = False
            if acc:
                vio(res, f"accepted/{nm}/non-alphabet-character", "segwit-sub", case, {"orig": addr, "mutated": s0, "returned": repr(r)}, "rejected",
                    f"{nm} accepts a segwit address in which one data character was replaced by a character outside the Bech32 alphabet (or by its upper-case form)")
            else:
                n0 += 1
    res.bulk("non-alphabet / mixed-case substitution rejected", n0, 0)  # never reaches the checksum test: trivial
    n1 = n2 = 0
    for d1 in range(1, 32):
        v1 = data[i] ^ d1
        nv = v1 if i == 0 else data[0]
        head = pre + ds[:i] + CH[v1]
        if check(head + ds[i + 1 :], T[i][d1], nv, 1, apis1):
            n1 += 1
        s1 = T[i][d1]
        for j in range(i + 1, L):
            mid, tail, Tj, dj = ds[i + 1 : j], ds[j + 1 :], T[j], data[j]
            hm = head + mid
            for d2 in range(1, 32):
                if check(hm + CH[dj ^ d2] + tail, s1 ^ Tj[d2], nv, 2, apis2):
                    n2 += 1
    res.bulk("single substitution rejected by every decoder", n1, n1)
    if n2:
        res.bulk("double substitution rejected by every decoder", n2, n2)
    res.notes["decoder_calls"] = res.notes.get("decoder_calls", 0) + 31 * len(apis1) + 31 * 31 * (L - 1 - i) * len(apis2)
    return res


# =============================================================== shared: verdict comparison for text decoders
def accepted(fn, s):
    """(accepted?, value) - False/None/exception are all 'rejected'."""
    try:
        r = fn(s)
    except Exception:
        return False, None
    return (r is not None and r is not False), r


def check_injective(res, engine, case, api, hits, what):
    """hits: [(string, network-or-None, result, already_reported)].  Two different accepted strings of one
    network must not give the same result; a collision that involves a string already reported as wrongly
    accepted is the same finding and is only counted."""
    groups = {}
    for s, net, result, flagged in hits:
        groups.setdefault((net, result), {}).setdefault(s, flagged)
    for (net, result), members in groups.items():
        if len(members) < 2:
            continue
        if any(members.values()):
            res.notes["collisions_explained_by_a_reported_acceptance"] = res.notes.get("collisions_explained_by_a_reported_acceptance", 0) + 1
        else:
            vio(res, f"not-injective/{api}", engine, case, {"strings": sorted(members), "result": result}, "distinct results", what)
            return
    res.ok(f"{api}: accepted strings -> pairwise distinct results")


# =============================================================== segwit-malformed
HRPS = ("bc", "tb", "bcrt")
HRP_NET = {"bc": "mainnet", "tb": "testnet", "bcrt": "regtest"}
EXTRA_GROUPS = ([0], [1], [16], [0, 0], [0, 1], [16, 0])
WHY_NAMES = {"version": "version-over-16", "no-hrp": "separator", "hrp": "separator"}


def seg_verdict(hrp, s, strict_v0):
    """((version, program), None) when the reference decoder accepts s for this HRP, else (None, reason class)."""
    try:
        return R.segwit_decode(hrp, s, strict_v0), None
    except R.Invalid as e:
        why = str(e)
        if why == "padding":
            # BIP173: an incomplete group "MUST be 4 bits or less" and "MUST be all zeroes": name which rule is broken
            groups = len(s) - s.rfind("1") - 1 - 7
            why = "padding-over-4-bits" if (groups * 5) % 8 >= 5 else "nonzero-padding"
        return None, WHY_NAMES.get(why, why)


def gen_segwit_malformed(tier, seed):
    lens = range(0, 43) if tier == "quick" else range(0, 53)
    kinds = ["f0"] if tier == "quick" else ["f0", "zeros", "ff"]
    return [{"hrp": h, "ver": v, "n": n, "kind": k, "seed": seed} for h in HRPS for v in range(32) for n in lens for k in kinds]


def malformed_variants(hrp, ver, prog):
    """[(class, string)]: hand-built data parts with a CORRECT checksum (constant chosen by version), then
    textual variants of the canonical string that the checksum does not cover."""
    const = R.const_for_version(ver)
    g0 = R.regroup(prog, 8, 5, True)
    canon = R.bech_encode(hrp, [ver] + g0, const)
    out = [("canonical", canon)]
    padbits = len(g0) * 5 - 8 * len(prog)
    for k in range(1, 1 << padbits):
        out.append(("padding-value", R.bech_encode(hrp, [ver] + g0[:-1] + [g0[-1] | k], const)))
    for e in EXTRA_GROUPS:
        out.append(("extra-groups", R.bech_encode(hrp, [ver] + g0 + list(e), const)))
    body = canon[len(hrp) + 1 :]
    for c in ("q", "2", "x", "", "11"):
        out.append(("separator", hrp + c + body))
    out.append(("uppercase", canon.upper()))
    out.append(("mixed-case", hrp.upper() + "1" + body))
    out.append(("mixed-case", hrp + "1" + body.upper()))
    k = next((j for j, ch in enumerate(body) if j and ch.isalpha()), None)
    if k is not None:
        out.append(("mixed-case", hrp + "1" + body[:k] + body[k].upper() + body[k + 1 :]))
    return out


def run_segwit_malformed(case):
    from buidl.bech32 import decode_bech32
    from buidl.script import address_to_script_pubkey
    from buidl.tx import TxOut

    res = Res()
    hrp, ver, n = case["hrp"], case["ver"], case["n"]
    prog = prog_bytes(case["kind"], n, case["seed"], "swmal") if n else b""
    net = HRP_NET[hrp]
    addr_apis = (
        ("address_to_script_pubkey", lambda a: address_to_script_pubkey(a).raw_serialize()),
        ("TxOut.to_address", lambda a: TxOut.to_address(a, 1).script_pubkey.raw_serialize()),
    )
    hits = {"decode_bech32": [], "address_to_script_pubkey": [], "TxOut.to_address": []}
    seen = set()
    for cls, s in malformed_variants(hrp, ver, prog):
        if s in seen:
            continue
        seen.add(s)
        lower = s == s.lower()
        textual = cls in ("separator", "mixed-case")
        # --- decode_bech32: the generic decoder (any version 0..16, any program length 2..40)
        want, why = seg_verdict(hrp, s, False)
        acc, r = accepted(decode_bech32, s)
        flagged = False
        if acc and want is None:
            flagged = True
            vio(res, f"accepted/decode_bech32/{cls if textual else why}", "segwit-malformed", case, {"string": s, "class": cls, "returned": r}, f"rejected ({why})",
                "decode_bech32 accepts a string with a correct checksum that BIP173/BIP350 do not allow as a segwit address")
        elif acc and list(r) != [net, want[0], want[1]]:
            vio(res, f"wrong-result/decode_bech32/{cls}", "segwit-malformed", case, {"string": s, "returned": r}, [net, want[0], want[1]],
                "decode_bech32 accepts a valid segwit address but returns another (network, version, program)")
        elif not acc and want is not None and lower:
            vio(res, f"rejects-valid/decode_bech32/{cls}", "segwit-malformed", case, {"string": s}, [net, want[0], want[1]],
                "decode_bech32 rejects a lower-case string that is a valid segwit address (version 0..16, program 2..40 bytes, zero padding)")
        elif not acc and want is not None:
            res.skip("all-upper-case form of a valid address is not accepted (BIP173 asks decoders to accept it; the statement does not)")
        else:
            res.ok(f"decode_bech32: verdict == reference ({'accepted' if acc else 'rejected'}) [{cls}]", ("d", hrp, ver, n, s) if cls != "canonical" else None)
        if acc:
            ident = attempt(lambda: (r[1], bytes(r[2])))
            hits["decode_bech32"].append((s.lower(), net, repr(r) if isinstance(ident, Rejected) else ident, flagged))
        # --- address-level decoders: BIP173/350 incl. the version-0 length rule; need not know every witness program
        want, why = seg_verdict(hrp, s, True)
        std = want is not None and R.address_decode(s, net) is not None
        for nm, fn in addr_apis:
            acc, r = accepted(fn, s)
            flagged = False
            if acc and want is None:
                flagged = True
                vio(res, f"accepted/{nm}/{cls if textual else why}", "segwit-malformed", case, {"string": s, "class": cls, "script": r}, f"rejected ({why})",
                    f"{nm} accepts a string with a correct checksum that BIP173/BIP350 do not allow as a segwit address")
            elif acc and r != R.witness_script_pubkey(*want):
                vio(res, f"wrong-script/{nm}/{cls}", "segwit-malformed", case, {"string": s, "script": r}, R.witness_script_pubkey(*want),
                    f"{nm} accepts a valid segwit address but returns a scriptPubKey other than the one it encodes")
            elif not acc and std and lower:
                vio(res, f"rejects-valid/{nm}/{cls}", "segwit-malformed", case, {"string": s}, R.witness_script_pubkey(*want),
                    f"{nm} rejects a valid address of a standard template (P2WPKH / P2WSH / P2TR)")
            elif not acc and std:
                res.skip("all-upper-case form of a valid address is not accepted (BIP173 asks decoders to accept it; the statement does not)")
            else:
                res.ok(f"{nm}: {'accepted, script == encoded program' if acc else 'rejected'} [{cls}]", (nm, hrp, ver, n, s) if cls != "canonical" else None)
            if acc:
                hits[nm].append((s.lower(), net, r, flagged))
    for nm, h in hits.items():
        if h:
            check_injective(res, "segwit-malformed", case, nm, h, f"{nm} maps two different accepted strings of one network to the same witness program")
    return res


# =============================================================== b58addr: version byte x payload length
B58A_LENS = (0, 1, 19, 20, 21, 32)


def gen_b58addr(tier, seed):
    kinds = ["zeros", "ff"] + [f"f{k}" for k in range(3 if tier == "quick" else 10)]
    cases = [{"hlen": n, "kind": k, "seed": seed} for n in B58A_LENS for k in (kinds if n else kinds[:1])]
    cases.append({"hlen": -1, "kind": "none", "seed": seed})  # the empty payload: not even a version byte
    return cases


def run_b58addr(case):
    from buidl.script import address_to_script_pubkey
    from buidl.tx import TxOut

    res = Res()
    n = case["hlen"]
    if n < 0:
        payloads = [b""]
    else:
        h = {"zeros": b"\x00" * n, "ff": b"\xff" * n}.get(case["kind"])
        if h is None:
            h = filler(case["seed"], "b58addr-" + case["kind"], n, n)
        payloads = [bytes([v]) + h for v in range(256)]
    apis = (
        ("address_to_script_pubkey", lambda a: (lambda o: (type(o).__name__, o.raw_serialize()))(address_to_script_pubkey(a))),
        ("TxOut.to_address", lambda a: (lambda o: (type(o.script_pubkey).__name__, o.script_pubkey.raw_serialize()))(TxOut.to_address(a, 1))),
    )
    cname = {"p2pkh": "P2PKHScriptPubKey", "p2sh": "P2SHScriptPubKey"}
    hits = {nm: [] for nm, _ in apis}
    for p in payloads:
        s = R.b58check_encode(p)
        assert R.b58check_decode(s) == p
        nets = [x for x in NETS if R.address_decode(s, x) is not None]
        want = None
        if nets:
            t, hh = R.address_decode(s, nets[0])
            want = (cname[t], R.script_pubkey(t, hh))
        fam = None if not nets else ("mainnet" if nets == ["mainnet"] else "testnets")
        cls = "payload-length" if len(p) != 21 else "version-byte"
        for nm, fn in apis:
            acc, r = accepted(fn, s)
            flagged = False
            if acc and want is None:
                flagged = True
                vio(res, f"accepted/{nm}/{cls}", "b58addr", case, {"string": s, "payload": p, "returned": r}, "rejected",
                    f"{nm} accepts a Base58Check string (checksum correct) that is not an address: "
                    + ("the payload is not version byte + 20-byte hash" if cls == "payload-length" else "the version byte is not 0x00/0x05/0x6f/0xc4"))
            elif acc and r != want:
                vio(res, f"wrong-script/{nm}", "b58addr", case, {"string": s, "returned": r}, want, f"{nm} returns a scriptPubKey other than the one the address encodes")
            elif not acc and want is not None:
                vio(res, f"rejects-valid/{nm}", "b58addr", case, {"string": s}, want, f"{nm} rejects a valid P2PKH / P2SH address")
            else:
                res.ok(f"{nm}: verdict == reference ({'accepted' if acc else 'rejected'})", (nm, s))
            if acc:
                hits[nm].append((s, fam, r[1] if isinstance(r, tuple) else repr(r), flagged))
    for nm, hh in hits.items():
        if hh:
            check_injective(res, "b58addr", case, nm, hh, f"{nm} maps two different accepted Base58 strings of one network to the same scriptPubKey")
    return res


# =============================================================== wif-shape: payload shape with a correct checksum
WIF_WIDTHS = (0, 1, 31, 32, 33, 40)
WIF_SUFFIXES = (b"", b"\x00", b"\x01", b"\x02", b"\x01\x01")


def gen_wif_shape(tier, seed):
    return [{"prefix": p, "seed": seed} for p in range(256)]


def wif_bodies(seed):
    out = []
    for w in WIF_WIDTHS:
        if w == 0:
            out.append(("w0", b""))
            continue
        out.append((f"w{w}-zero", b"\x00" * w))
        out.append((f"w{w}-one", b"\x00" * (w - 1) + b"\x01"))
        out.append((f"w{w}-ff", b"\xff" * w))
        f = filler(seed, "wif-shape", w, w)
        out.append((f"w{w}-f0", bytes([f[0] & 0x7F]) + f[1:]))
        if w == 32:
            out.append(("w32-n-1", (R.N - 1).to_bytes(32, "big")))
            out.append(("w32-n", R.N.to_bytes(32, "big")))
    return out


def run_wif_shape(case):
    from buidl.ecc import PrivateKey

    res = Res()
    p0 = case["prefix"]
    hits = []
    for label, body in wif_bodies(case["seed"]):
        for suf in WIF_SUFFIXES:
            payload = bytes([p0]) + body + suf
            s = R.b58check_encode(payload)
            ref = R.wif_decode(s)
            valid = ref is not None and 1 <= ref[0] <= R.N - 1
            acc, k = accepted(PrivateKey.parse, s)
            flagged = False
            if acc and not valid:
                flagged = True
                if ref is not None:
                    cls = "secret-range"
                elif p0 not in (0x80, 0xEF):
                    cls = "prefix"
                elif len(payload) not in (33, 34):
                    cls = "payload-length"
                else:
                    cls = "suffix"
                vio(res, f"accepted/{cls}", "wif-shape", case, {"string": s, "payload": payload, "secret": getattr(k, "secret", None)}, "rejected",
                    "PrivateKey.parse accepts a Base58Check string (checksum correct) that is not a WIF key: WIF is prefix 0x80/0xef + 32-byte secret in [1, n-1] + optional 0x01")
            elif acc:
                obs = attempt(lambda: (k.secret, bool(k.compressed), k.network == "mainnet"))
                back = attempt(lambda: k.wif(compressed=k.compressed))
                if obs != ref:
                    vio(res, "fields", "wif-shape", case, {"string": s, "parsed": obs}, ref, "parsed (secret, compressed, mainnet?) differ from the payload")
                elif back != s:
                    vio(res, "reencode", "wif-shape", case, {"string": s, "reencoded": back}, s, "parse -> wif(compressed=key.compressed) does not reproduce the accepted string")
                else:
                    res.ok("valid WIF: parsed fields == payload, re-encodes to itself", (p0, label, suf))
            elif valid:
                vio(res, "rejects-valid", "wif-shape", case, {"string": s}, ref, "PrivateKey.parse rejects a valid WIF string")
            else:
                res.ok("not a WIF payload: rejected", (p0, label, suf))
            if acc:
                ident = attempt(lambda: (k.secret, bool(k.compressed)))
                hits.append((s, "mainnet" if p0 == 0x80 else "other", ident if not isinstance(ident, Rejected) else repr(k), flagged))
    if hits:
        check_injective(res, "wif-shape", case, "PrivateKey.parse", hits, "PrivateKey.parse maps two different accepted strings to the same (secret, compressed) key")
    return res


# =============================================================== entrypoints: every other producer of address / WIF text
def ep_secrets(tier, seed):
    out = {"1": 1, "2": 2, "n-1": R.N - 1}
    for k in range(5 if tier == "quick" else 21):
        out[f"f{k}"] = int.from_bytes(filler(seed, "entry", k, 32), "big") % (R.N - 1) + 1
    return out


def gen_entrypoints(tier, seed):
    return [{"label": l, "secret": f"{x:064x}", "network": net, "seed": seed} for l, x in ep_secrets(tier, seed).items() for net in NETS]


def run_entrypoints(case):
    import hashlib

    from buidl import script as bs
    from buidl.ecc import PrivateKey
    from buidl.hd import HDPrivateKey, HDPublicKey
    from mc.ref.ec import SECP

    res = Res()
    sec, net, seed = int(case["secret"], 16), case["network"], case["seed"]
    h160 = lambda b: hashlib.new("ripemd160", R.sha256(b)).digest()
    P = SECP.mulg(sec)
    secc, secu = SECP.sec(P, True), SECP.sec(P, False)
    assert secc == R.pubkey_sec(sec) and len(secu) == 65
    tw = SECP.taproot_tweak(P[0])
    spk_wpkh = R.script_pubkey("p2wpkh", h160(secc))
    raw = b"\x21" + secc + b"\xac"  # <pubkey> OP_CHECKSIG, used as redeem script and as witness script
    spk_wsh = R.script_pubkey("p2wsh", R.sha256(raw))
    want = {
        "p2pkh(compressed)": R.address("p2pkh", h160(secc), net),
        "p2pkh(uncompressed)": R.address("p2pkh", h160(secu), net),
        "p2wpkh": R.address("p2wpkh", h160(secc), net),
        "p2sh-p2wpkh": R.address("p2sh", h160(spk_wpkh), net),
        "p2sh(script)": R.address("p2sh", h160(raw), net),
        "p2wsh(script)": R.address("p2wsh", R.sha256(raw), net),
        "p2sh-p2wsh(script)": R.address("p2sh", h160(spk_wsh), net),
    }
    if tw is not None:
        want["p2tr(key path)"] = R.address("p2tr", tw[0][0].to_bytes(32, "big"), net)
    else:
        res.skip("taproot tweak undefined for this key")
    key = (case["label"], net)

    def cmp(group, name, got, exp):
        if got != exp:
            vio(res, f"{group}/{name}", "entrypoints", case, got, exp, f"{group}: {name} differs from the reference text for this key and network")
        else:
            res.ok(f"{group}: {name} == reference", (group, name) + key)

    pk = attempt(PrivateKey, sec, net)
    if isinstance(pk, Rejected):
        vio(res, "construct/PrivateKey", "entrypoints", case, repr(pk), "PrivateKey", "cannot build a PrivateKey for a secret in [1, n-1]")
        return res
    pt = pk.point
    cmp("S256Point", "address(compressed)", attempt(pt.address, compressed=True, network=net), want["p2pkh(compressed)"])
    cmp("S256Point", "address(uncompressed)", attempt(pt.address, compressed=False, network=net), want["p2pkh(uncompressed)"])
    cmp("S256Point", "p2wpkh_address", attempt(pt.p2wpkh_address, network=net), want["p2wpkh"])
    cmp("S256Point", "p2sh_p2wpkh_address", attempt(pt.p2sh_p2wpkh_address, network=net), want["p2sh-p2wpkh"])
    if tw is not None:
        cmp("S256Point", "p2tr_address", attempt(pt.p2tr_address, network=net), want["p2tr(key path)"])
    rs = attempt(bs.RedeemScript, [secc, 0xAC])
    ws = attempt(bs.WitnessScript, [secc, 0xAC])
    if attempt(lambda: rs.raw_serialize()) != raw or attempt(lambda: ws.raw_serialize()) != raw:
        vio(res, "construct/script", "entrypoints", case, repr(rs), raw, "<pubkey> OP_CHECKSIG does not serialise to its bytes")
    else:
        cmp("RedeemScript", "address", attempt(rs.address, net), want["p2sh(script)"])
        cmp("WitnessScript", "address", attempt(ws.address, net), want["p2wsh(script)"])
        cmp("WitnessScript", "p2sh_address", attempt(ws.p2sh_address, net), want["p2sh-p2wsh(script)"])
    # HD keys carry the network themselves: built from fields for each of the 4 networks ...
    cc = filler(seed, "entry-cc", 0, 32)
    fp = filler(seed, "entry-fp", 0, 4)
    hd = attempt(lambda: HDPrivateKey(PrivateKey(sec), cc, 1, fp, 1, net))
    hp = attempt(lambda: HDPublicKey(pt, cc, 1, fp, 1, net))
    objs = [("HDPrivateKey(fields)", hd, net), ("HDPublicKey(fields)", hp, net)]
    # ... and parsed from reference-built extended-key strings (mainnet / testnet version bytes)
    pnet = "mainnet" if net == "mainnet" else "testnet"
    xs = R.b58check_encode(R.xkey_payload(R.XPRV_VERSIONS["xprv" if net == "mainnet" else "tprv"], 1, fp, 1, cc, b"\x00" + sec.to_bytes(32, "big")))
    xp = R.b58check_encode(R.xkey_payload(R.XPUB_VERSIONS["xpub" if net == "mainnet" else "tpub"], 1, fp, 1, cc, secc))
    objs += [("HDPrivateKey.parse", attempt(HDPrivateKey.parse, xs), pnet), ("HDPublicKey.parse", attempt(HDPublicKey.parse, xp), pnet)]
    for group, o, onet in objs:
        if isinstance(o, Rejected):
            vio(res, f"construct/{group}", "entrypoints", case, repr(o), "object", f"{group} fails for a well-formed key")
            continue
        exp = lambda t, hh: R.address(t, hh, onet)
        cmp(group, "address", attempt(o.address), exp("p2pkh", h160(secc)))
        cmp(group, "p2wpkh_address", attempt(o.p2wpkh_address), exp("p2wpkh", h160(secc)))
        cmp(group, "p2sh_p2wpkh_address", attempt(o.p2sh_p2wpkh_address), exp("p2sh", h160(spk_wpkh)))
        if tw is not None:
            cmp(group, "p2tr_address", attempt(o.p2tr_address), exp("p2tr", tw[0][0].to_bytes(32, "big")))
        if group.startswith("HDPrivateKey"):
            cmp(group, "wif", attempt(o.wif), R.wif_encode(sec, True, onet))
    # every produced text decodes back to the script it was made from
    back = {
        "p2pkh(compressed)": R.script_pubkey("p2pkh", h160(secc)), "p2pkh(uncompressed)": R.script_pubkey("p2pkh", h160(secu)),
        "p2wpkh": spk_wpkh, "p2sh-p2wpkh": R.script_pubkey("p2sh", h160(spk_wpkh)), "p2sh(script)": R.script_pubkey("p2sh", h160(raw)),
        "p2wsh(script)": spk_wsh, "p2sh-p2wsh(script)": R.script_pubkey("p2sh", h160(spk_wsh)),
    }
    if tw is not None:
        back["p2tr(key path)"] = R.script_pubkey("p2tr", tw[0][0].to_bytes(32, "big"))
    for name, a in want.items():
        got = attempt(lambda: bs.address_to_script_pubkey(a).raw_serialize())
        cmp("address_to_script_pubkey", name, got, back[name])
    return res


# =============================================================== engines
def engines(tier, seed):
    return [
        Engine(
            "b58", gen_b58, run_b58, kind="E1",
            rule="Base58Check payloads: every length 0..82 x leading-zero run 0..min(5,len) x body kinds {0xff.., 0x01 00.., 0x80 00.., seeded fillers "
            "(3 quick / 12 thorough)} + all-zero payloads; additionally EVERY longer leading-zero run 6..len (body kinds ff, 01 00.., one filler quick / all thorough; "
            "all-zero payload of every length) and, for runs 0..2, payloads searched (filler counter 0,1,2,..) so that the checksum's first / last byte is 0x00; "
            "encode byte-identical to reference, raw_decode_base58/decode_base58 invert, plain encode_base58. "
            "Non-trivial = every distinct payload (notes count those with leading zeros)",
        ),
        Engine(
            "b58acc", gen_b58acc, run_b58acc, kind="E1",
            rule="11 strings (P2PKH/P2SH main+test, leading-zero hash, WIF c/u, xprv, tpub, 1-byte and empty payload): every position x 57 alphabet "
            "alternatives + 4 non-alphabet look-alikes; all double substitutions of the 2 short strings (thorough: also of 4 real addresses/WIF); every bit flip "
            "of payload+checksum and 11 mis-constructed checksums; every Base58 string of length <= 3 (thorough 4). impl accepts <=> reference checksum "
            "accepts, payloads equal; typed parsers (address_to_script_pubkey, TxOut.to_address, PrivateKey.parse, HD*.parse) accept => checksum ok. "
            "Non-trivial = mutated string over the Base58 alphabet (reaches the checksum comparison; distinct by construction); short strings and "
            "non-alphabet substitutions are counted as trivial",
        ),
        Engine(
            "wif", gen_wif, run_wif, kind="E1",
            rule="secrets {2^k, 2^k-1 (k multiple of 8 and +-1 quick / every k thorough), n-1, n-2, (n-1)/2, 8/32 fillers} x {compressed, uncompressed} x 4 networks; "
            "wif() byte-identical to reference, parse() returns secret/compressed/mainnet-ness, parse->wif reproduces the string. Non-trivial = every case",
        ),
        Engine(
            "xkey", gen_xkey, run_xkey, kind="E1",
            rule="20 SLIP-132/BIP32 versions x 9 shapes (master; depth 1/255 x child 0,1,2^31,2^32-1) x (chain code, key) kinds (all 5 combos thorough, on one shape quick); "
            "reference builds the 78-byte payload and Base58Check string; parse fields, parse->text, construct->text compared. Non-trivial = every case",
        ),
        Engine(
            "segwit-rt", gen_segwit_rt, run_segwit_rt, kind="E1",
            rule="every witness version 0..16 x program length 2..40 x 4 networks x program kinds (3 quick / 10 thorough); encode_bech32_checksum byte-identical to the "
            "BIP173/350 reference, checksum constant verified by version, decode_bech32 returns (network, version, program). Non-trivial = every case",
        ),
        Engine(
            "templates", gen_templates, run_templates, kind="E1",
            rule="4 networks x hash kinds (zeros, ff, 1..3 leading zero bytes, trailing zeros, low bit, 12/150 fillers) x 5 templates: address(), parse(spk).address(), "
            "address_to_script_pubkey, TxOut.to_address, p2sh-wrapped address, pairwise distinctness. Non-trivial = every (template, network, hash)",
        ),
        Engine(
            "segwit-sub", gen_segwit_sub, run_segwit_sub, kind="E1",
            rule="for each address (quick: bc v0/20B, tb v1/32B, bcrt v16/2B, bcrt v0/20B; thorough: 3 HRPs x {v0/20,v0/32,v1/32,v16/2,v16/40,v2/2} + all-zero and all-ff programs) "
            "ALL single substitutions (len x 31) and ALL double substitutions (C(len,2) x 31^2) of the data part incl. version and checksum characters, through "
            "decode_bech32 (standard programs: singles also through address_to_script_pubkey and TxOut.to_address; doubles through both for HRP bc, through "
            "TxOut.to_address for tb/bcrt, thorough also address_to_script_pubkey for tb/bcrt); reference verdict from exact GF(2) syndrome "
            "tables + full BIP173/350 decoder; at every position additionally the replacements '1','b','i','o' and the upper-case form of the original character "
            "(outside the alphabet / mixed case: rejected by every decoder, counted as trivial). "
            "Non-trivial = mutated string that still reaches the checksum test (all: HRP, separator, charset and length are intact)",
        ),
        Engine(
            "segwit-malformed", gen_segwit_malformed, run_segwit_malformed, kind="E1",
            rule="3 HRPs (bc, tb, bcrt) x EVERY 5-bit version value 0..31 x program length 0..42 (thorough 0..52) x program kinds (1 filler quick / + zeros, ff thorough); "
            "per (hrp, version, program) the data part is built by hand and given a CORRECT checksum (Bech32 for version 0, Bech32m otherwise): canonical, every non-zero "
            "value of the padding bits, 6 suffixes of extra 5-bit groups ([0],[1],[16],[0,0],[0,1],[16,0]); then text variants of the canonical string the checksum does "
            "not cover: separator replaced by q/2/x, deleted, doubled; all upper case; upper-case HRP, upper-case data, one upper-case data character. Oracle: reference "
            "BIP173/BIP350 decoder. decode_bech32: accepts <=> reference accepts (version-0 length rule not applied, as in segwit-rt; upper case: accept optional), "
            "result == (network, version, program). address_to_script_pubkey / TxOut.to_address: accepts => reference accepts incl. version-0 length rule and script == "
            "witness scriptPubKey; must accept lower-case P2WPKH/P2WSH/P2TR addresses. Accepted strings of one case -> pairwise distinct results. "
            "Non-trivial = every non-canonical string x decoder",
        ),
        Engine(
            "b58addr", gen_b58addr, run_b58addr, kind="E1",
            rule="EVERY version byte 0..255 x hash length {0,1,19,20,21,32} x hash kinds {zeros, ff, 3 fillers quick / 10 thorough} + the empty payload, Base58Check-encoded by the "
            "reference (checksum correct), through address_to_script_pubkey and TxOut.to_address: accepts <=> the string is a P2PKH/P2SH address of one of the 4 networks "
            "(21-byte payload, version 0x00/0x05/0x6f/0xc4), class and scriptPubKey == reference; accepted strings of one network -> pairwise distinct scripts. "
            "Non-trivial = every (string, decoder)",
        ),
        Engine(
            "wif-shape", gen_wif_shape, run_wif_shape, kind="E1",
            rule="EVERY prefix byte 0..255 x secret field {empty; widths 1,31,32,33,40 x {zero, one, ff.., filler}; 32-byte n-1 and n} x suffix {none, 00, 01, 02, 01 01}, "
            "Base58Check-encoded by the reference, through PrivateKey.parse: accepts <=> prefix 0x80/0xef, 32-byte secret in [1, n-1], suffix none or 01; parsed fields == "
            "payload; parse -> wif(compressed=key.compressed) reproduces the string; accepted strings -> pairwise distinct (secret, compressed). Non-trivial = every payload",
        ),
        Engine(
            "entrypoints", gen_entrypoints, run_entrypoints, kind="E1",
            rule="secrets {1, 2, n-1, 5 fillers quick / 21 thorough} x 4 networks: S256Point.address (compressed, uncompressed), p2wpkh_address, p2sh_p2wpkh_address, "
            "p2tr_address (BIP341 key path, reference tweak from mc.ref.ec); RedeemScript.address, WitnessScript.address / p2sh_address of <pubkey> OP_CHECKSIG; "
            "HDPrivateKey / HDPublicKey built from fields with each network and parsed from reference xprv/tprv/xpub/tpub strings: address, p2wpkh_address, "
            "p2sh_p2wpkh_address, p2tr_address, HDPrivateKey.wif; every reference address text back through address_to_script_pubkey. All compared with the "
            "reference text for that key and network. Non-trivial = every (producer, method, key, network)",
        ),
    ]
