"""C09 — address and key text encodings invert exactly and reject what the specs reject.

All engines are E1 (bounded exhaustive enumeration, no state graph); the oracle is mc.ref.addrref.

  b58        Base58Check round trip on every payload length 0..82 x leading-zero run 0..5 x body kinds.
  b58acc     "accepted exactly when the checksum matches": every single-character substitution
             (57 alphabet alternatives + the 4 look-alike non-alphabet characters) at every position of
             address / WIF / extended-key strings, all double substitutions of short strings (thorough: of
             real addresses), every bit flip of payload and checksum, mis-constructed checksums, and every
             Base58 string of length <= 3 (thorough <= 4).
  wif        secrets x {compressed, uncompressed} x 4 networks, both directions.
  xkey       78-byte extended-key payloads (20 SLIP-132 versions x shapes) through HDPrivateKey/HDPublicKey.
  segwit-rt  every witness version 0..16 x program length 2..40 x 4 networks x program kinds: encode
             byte-identical to BIP173/350 (constant by version), decode inverts.
  templates  5 standard scriptPubKey templates x 4 networks x hashes: address(), address_to_script_pubkey,
             TxOut.to_address, ScriptPubKey.parse(...).address(), distinctness.
  segwit-sub every single and every double substitution of the data part of segwit addresses: never accepted.
"""
from io import BytesIO

from mc.core import Engine, Res, attempt, Rejected, filler
from mc.ref import addrref as R

PROP = "C09"
NETS = ("mainnet", "testnet", "signet", "regtest")
DECODED_NET = {"mainnet": "mainnet", "testnet": "testnet", "signet": "testnet", "regtest": "regtest"}


def vio(res, fp, engine, case, observed, expected, what):
    res.violation(f"{PROP}/{engine}/{fp}", {"engine": engine, "case": case}, observed, expected, what)


def rej(x):
    return isinstance(x, Rejected) or x is None or x is False


# =============================================================== b58: round trip
def b58_payload(n, z, kind, seed):
    body = n - z
    if body == 0:
        return b"\x00" * z
    if kind == "ff":
        b = b"\xff" * body
    elif kind == "01":
        b = b"\x01" + b"\x00" * (body - 1)
    elif kind == "80":
        b = b"\x80" + b"\x00" * (body - 1)
    else:
        b = filler(seed, "b58-" + kind, n * 8 + z, body)
        if b[0] == 0:
            b = b"\x01" + b[1:]
    return b"\x00" * z + b


def gen_b58(tier, seed):
    kinds = ["ff", "01", "80"] + [f"f{k}" for k in range(3 if tier == "quick" else 12)]
    cases = []
    for n in range(0, 83):
        for z in range(0, min(5, n) + 1):
            if z == n:
                cases.append({"n": n, "z": z, "kind": "zero", "seed": seed})
                continue
            for k in kinds:
                cases.append({"n": n, "z": z, "kind": k, "seed": seed})
    return cases


def run_b58(case):
    from buidl.helper import decode_base58, encode_base58, encode_base58_checksum, raw_decode_base58

    res = Res()
    n, z = case["n"], case["z"]
    p = b58_payload(n, z, case["kind"], case["seed"])
    cls = "empty" if n == 0 else ("allzero" if z == n else ("lead0" if z else "plain"))
    want = R.b58check_encode(p)
    assert R.b58check_decode(want) == p
    key = (n, z, case["kind"])
    got = attempt(encode_base58_checksum, p)
    if got != want:
        vio(res, f"encode/{cls}", "b58", case, got, want, "encode_base58_checksum differs from reference Base58Check")
    else:
        res.ok("encode==ref", key, sample={"payload": p, "str": want} if z == 2 and n in (2, 21) else None)
    dec = attempt(raw_decode_base58, want)
    if dec != p:
        vio(res, f"decode/{cls}", "b58", case, dec, p, "raw_decode_base58 does not invert the reference encoding")
    else:
        res.ok("decode==payload", key)
    dec1 = attempt(decode_base58, want)
    if dec1 != p[1:]:
        vio(res, f"decode_base58/{cls}", "b58", case, dec1, p[1:], "decode_base58 is not payload minus version byte")
    else:
        res.ok("decode_base58==payload[1:]")
    if n == 0:
        res.skip("encode_base58 of empty bytes: plain Base58 of nothing is not a Base58Check string")
    else:
        raw = attempt(encode_base58, p)
        if raw != R.b58encode(p):
            vio(res, f"encode_raw/{cls}", "b58", case, raw, R.b58encode(p), "encode_base58 differs from reference Base58")
        else:
            res.ok("encode_raw==ref")
    if z:
        res.notes["leading_zero_payloads"] = res.notes.get("leading_zero_payloads", 0) + 1
    return res


# =============================================================== b58acc: accepted iff checksum matches
def b58_strings(seed):
    """name -> (string, kind)"""
    h = filler(seed, "acc-h160", 0, 20)
    sec = (int.from_bytes(filler(seed, "acc-secret", 0, 32), "big") % (R.N - 1)) + 1
    cc = filler(seed, "acc-cc", 0, 32)
    fp = filler(seed, "acc-fp", 0, 4)
    xprv = R.xkey_payload(R.XPRV_VERSIONS["xprv"], 3, fp, 0x80000002, cc, b"\x00" + sec.to_bytes(32, "big"))
    tpub = R.xkey_payload(R.XPUB_VERSIONS["tpub"], 1, fp, 7, cc, R.pubkey_sec(sec))
    out = {
        "p2pkh-main": (R.b58check_encode(b"\x00" + h), "addr"),
        "p2pkh-lead0": (R.b58check_encode(b"\x00\x00\x00" + h[:18]), "addr"),
        "p2pkh-test": (R.b58check_encode(b"\x6f" + h), "addr"),
        "p2sh-main": (R.b58check_encode(b"\x05" + h), "addr"),
        "p2sh-test": (R.b58check_encode(b"\xc4" + h), "addr"),
        "wif-c-main": (R.wif_encode(sec, True, "mainnet"), "wif"),
        "wif-u-test": (R.wif_encode(sec, False, "testnet"), "wif"),
        "xprv": (R.b58check_encode(xprv), "xprv"),
        "tpub": (R.b58check_encode(tpub), "xpub"),
        "tiny": (R.b58check_encode(h[:1]), "raw"),
        "empty": (R.b58check_encode(b""), "raw"),
    }
    return out


_B58S = {}


def b58_strings_cached(seed):
    if seed not in _B58S:
        _B58S[seed] = b58_strings(seed)
    return _B58S[seed]


NON_ALPHABET = "0OIl"


def gen_b58acc(tier, seed):
    strs = b58_strings(seed)
    cases = []
    for name, (s, kind) in strs.items():
        for i in range(len(s)):
            cases.append({"t": "single", "name": name, "i": i, "seed": seed})
        cases.append({"t": "bytes", "name": name, "seed": seed})
    doubles = ["tiny", "empty"] if tier == "quick" else ["tiny", "empty", "p2pkh-main", "p2pkh-lead0", "p2sh-test", "wif-c-main"]
    for name in doubles:
        s = strs[name][0]
        for i in range(len(s) - 1):
            cases.append({"t": "double", "name": name, "i": i, "seed": seed})
    maxlen = 3 if tier == "quick" else 4
    cases.append({"t": "short", "prefix": "", "maxlen": 0, "seed": seed})
    for c in R.B58:
        cases.append({"t": "short", "prefix": c, "maxlen": maxlen, "seed": seed})
    return cases


def typed_decoders(kind):
    """Higher-level parsers that must not accept a string whose checksum is wrong."""
    if kind == "addr":
        from buidl.script import address_to_script_pubkey
        from buidl.tx import TxOut

        return [("address_to_script_pubkey", address_to_script_pubkey), ("TxOut.to_address", lambda s: TxOut.to_address(s, 1))]
    if kind == "wif":
        from buidl.ecc import PrivateKey

        return [("PrivateKey.parse", PrivateKey.parse)]
    if kind == "xprv":
        from buidl.hd import HDPrivateKey

        return [("HDPrivateKey.parse", HDPrivateKey.parse)]
    if kind == "xpub":
        from buidl.hd import HDPublicKey

        return [("HDPublicKey.parse", HDPublicKey.parse)]
    return []


def acc_compare(res, case, s, raw_decode, sub, typed=()):
    """impl accepts s  <=>  reference accepts s (and the payloads agree)."""
    want = R.b58check_decode(s, fast=True)
    try:
        got = raw_decode(s)
        acc = got is not None and got is not False
    except Exception:
        got, acc = None, False
    if acc and want is None:
        vio(res, f"accepts-bad-checksum/{sub}", "b58acc", case, {"string": s, "returned": got}, "rejected",
            "raw_decode_base58 accepts a string whose 4-byte double-SHA256 checksum does not match")
        return False
    if not acc and want is not None:
        vio(res, f"rejects-good-checksum/{sub}", "b58acc", case, {"string": s}, {"payload": want},
            "raw_decode_base58 rejects a string whose checksum matches")
        return False
    if acc and got != want:
        vio(res, f"payload-differs/{sub}", "b58acc", case, {"string": s, "returned": got}, want, "decoded payload differs from reference")
        return False
    for nm, fn in typed:
        try:
            r = fn(s)
            tacc = r is not None and r is not False
        except Exception:
            tacc = False
        if tacc and want is None:
            vio(res, f"typed-accepts-bad-checksum/{nm}", "b58acc", case, {"string": s}, "rejected",
                f"{nm} accepts a Base58Check string whose checksum does not match")
            return False
    return True


def run_b58acc(case):
    from buidl.helper import raw_decode_base58

    res = Res()
    t = case["t"]
    if t == "short":
        pre, maxlen = case["prefix"], case["maxlen"]
        level = [pre]
        n = 0
        for depth in range(len(pre), maxlen + 1):
            for s in level:
                if acc_compare(res, case, s, raw_decode_base58, "short-string"):
                    n += 1
            if depth < maxlen:
                level = [s + c for s in level for c in R.B58]
        res.bulk("short-string: impl verdict == ref verdict (reject)", n, 0)  # too short to carry a checksum: trivial
        return res
    s, kind = b58_strings_cached(case["seed"])[case["name"]]
    name, i = case["name"], case.get("i")
    if t == "single":
        typed = typed_decoders(kind)
        if i == 0:
            # 0-deviation: the honest string is accepted by every decoder
            if acc_compare(res, case, s, raw_decode_base58, "honest"):
                res.ok("honest accepted")
            for nm, fn in typed:
                r = attempt(fn, s)
                if rej(r):
                    vio(res, f"typed-rejects-honest/{nm}/{name}", "b58acc", case, repr(r), "accepted", f"{nm} rejects an honest string")
                else:
                    res.ok("honest accepted (typed)")
        n = n0 = 0
        for c in R.B58 + NON_ALPHABET:
            if c == s[i]:
                continue
            m = s[:i] + c + s[i + 1 :]
            sub = "non-alphabet-char" if c in NON_ALPHABET else "single-substitution"
            if acc_compare(res, case, m, raw_decode_base58, sub, typed):
                if c in NON_ALPHABET:
                    n0 += 1
                else:
                    n += 1
        res.bulk("single substitution: impl verdict == ref verdict", n, n)
        res.bulk("non-alphabet character: rejected", n0, 0)  # never reaches the checksum test: trivial
        return res
    if t == "double":
        n = 0
        for c1 in R.B58:
            if c1 == s[i]:
                continue
            head = s[:i] + c1
            for j in range(i + 1, len(s)):
                mid, tail = s[i + 1 : j], s[j + 1 :]
                for c2 in R.B58:
                    if c2 == s[j]:
                        continue
                    if acc_compare(res, case, head + mid + c2 + tail, raw_decode_base58, "double-substitution"):
                        n += 1
        res.bulk("double substitution: impl verdict == ref verdict", n, n)
        return res
    if t == "bytes":
        payload = R.b58check_decode(s)
        good = R.dsha(payload)[:4]
        full = payload + good
        variants = []
        for bit in range(len(full) * 8):
            b = bytearray(full)
            b[bit // 8] ^= 1 << (bit % 8)
            variants.append(("bitflip-checksum" if bit // 8 >= len(payload) else "bitflip-payload", bytes(b)))
        h = R.dsha(payload)
        variants += [
            ("checksum-3-bytes", payload + good[:3]),
            ("checksum-5-bytes", payload + h[:5]),
            ("checksum-missing", payload),
            ("checksum-single-sha256", payload + R.sha256(payload)[:4]),
            ("checksum-last-4-bytes", payload + h[-4:]),
            ("checksum-reversed", payload + good[::-1]),
            ("checksum-of-payload-without-version", payload + R.dsha(payload[1:])[:4]),
            ("checksum-zero", payload + b"\x00" * 4),
            ("extra-leading-zero", b"\x00" + full),
            ("honest", full),
        ]
        if full[:1] == b"\x00":
            variants.append(("dropped-leading-zero", full[1:]))
        typed = typed_decoders(kind)
        n = 0
        for sub, raw in variants:
            if acc_compare(res, case, R.b58encode(raw), raw_decode_base58, sub, typed):
                n += 1
        res.bulk("byte-level corruption: impl verdict == ref verdict", n, n)
        return res
    raise ValueError(t)


# =============================================================== wif
def wif_secrets(tier, seed):
    out = {}
    ks = range(0, 256) if tier == "thorough" else list(range(0, 256, 8)) + [1, 7, 9, 247, 249, 255]
    for k in ks:
        out[f"2^{k}"] = 1 << k
        if k:
            out[f"2^{k}-1"] = (1 << k) - 1
    out["n-1"] = R.N - 1
    out["n-2"] = R.N - 2
    out["(n-1)/2"] = (R.N - 1) // 2
    for k in range(8 if tier == "quick" else 32):
        out[f"f{k}"] = int.from_bytes(filler(seed, "wif", k, 32), "big") % (R.N - 1) + 1
    return out


def gen_wif(tier, seed):
    cases = []
    for label, sec in wif_secrets(tier, seed).items():
        for comp in (True, False):
            for net in NETS:
                cases.append({"label": label, "secret": f"{sec:064x}", "compressed": comp, "network": net})
    return cases


def run_wif(case):
    from buidl.ecc import PrivateKey

    res = Res()
    sec, comp, net = int(case["secret"], 16), case["compressed"], case["network"]
    want = R.wif_encode(sec, comp, net)
    assert R.wif_decode(want) == (sec, comp, net == "mainnet")
    key = (case["label"], comp, net)
    cls = f"{'compressed' if comp else 'uncompressed'}/{'mainnet' if net == 'mainnet' else 'non-mainnet'}"
    pk = attempt(PrivateKey, sec, net, comp)
    if isinstance(pk, Rejected):
        vio(res, f"construct/{cls}", "wif", case, repr(pk), "PrivateKey", "cannot build a PrivateKey for a secret in [1, n-1]")
        return res
    got = attempt(pk.wif, comp)
    if got != want:
        vio(res, f"encode/{cls}", "wif", case, got, want, "PrivateKey.wif differs from reference WIF")
    else:
        res.ok("wif==ref", key, sample={"secret": case["label"], "compressed": comp, "network": net, "wif": want} if case["label"] == "2^0" else None)
    parsed = attempt(PrivateKey.parse, want)
    if isinstance(parsed, Rejected):
        vio(res, f"parse-rejects/{cls}", "wif", case, repr(parsed), "parsed", "PrivateKey.parse rejects a reference WIF string")
        return res
    obs = attempt(lambda: (parsed.secret, bool(parsed.compressed), parsed.network == "mainnet"))
    if obs != (sec, comp, net == "mainnet"):
        vio(res, f"parse-fields/{cls}", "wif", case, obs, (sec, comp, net == "mainnet"), "parsed (secret, compressed, mainnet?) differ from what was encoded")
    else:
        res.ok("parse==fields", key)
    back = attempt(lambda: parsed.wif(compressed=parsed.compressed))
    if back != want:
        vio(res, f"reencode/{cls}", "wif", case, back, want, "parse -> wif does not reproduce the string")
    else:
        res.ok("parse->wif==string")
    return res


# =============================================================== xkey
XK_SHAPES = [("master", 0, "zero", 0)] + [(f"d{d}-c{c:x}", d, "f", c) for d in (1, 255) for c in (0, 1, 0x80000000, 0xFFFFFFFF)]


def gen_xkey(tier, seed):
    cases = []
    versions = [("prv", k) for k in R.XPRV_VERSIONS] + [("pub", k) for k in R.XPUB_VERSIONS]
    for side, ver in versions:
        for shape, depth, fpk, child in XK_SHAPES:
            combos = [("f", "f")]
            if tier == "thorough" or shape == "d1-c1":
                combos += [("lead0", "f"), ("f", "one"), ("lead0", "one"), ("f", "n-1")]
            for cck, keyk in combos:
                cases.append({"side": side, "ver": ver, "shape": shape, "depth": depth, "fp": fpk, "child": child, "cc": cck, "key": keyk, "seed": seed})
    return cases


_PUBS = {}


def run_xkey(case):
    from buidl.ecc import PrivateKey
    from buidl.hd import HDPrivateKey, HDPublicKey

    res = Res()
    seed = case["seed"]
    fp = b"\x00" * 4 if case["fp"] == "zero" else filler(seed, "xk-fp", 0, 4)
    cc = filler(seed, "xk-cc", 0, 32)
    if case["cc"] == "lead0":
        cc = b"\x00\x00" + cc[2:]
    sec = {"one": 1, "n-1": R.N - 1}.get(case["key"]) or int.from_bytes(filler(seed, "xk-key", 0, 32), "big") % (R.N - 1) + 1
    side, ver = case["side"], case["ver"]
    mainnet = ver[0] in "xyzYZ"
    if side == "prv":
        key33 = b"\x00" + sec.to_bytes(32, "big")
        vhex = R.XPRV_VERSIONS[ver]
    else:
        if sec not in _PUBS:
            _PUBS[sec] = R.pubkey_sec(sec)
        key33 = _PUBS[sec]
        vhex = R.XPUB_VERSIONS[ver]
    payload = R.xkey_payload(vhex, case["depth"], fp, case["child"], cc, key33)
    s = R.b58check_encode(payload)
    assert len(payload) == 78 and len(s) in (111, 112)
    key = (side, ver, case["shape"], case["cc"], case["key"])
    cls = f"{side}/{'bip32' if ver in ('xprv', 'xpub', 'tprv', 'tpub') else 'slip132'}"
    want_fields = (case["depth"], fp, case["child"], cc, key33, mainnet)
    if side == "prv":
        k = attempt(HDPrivateKey.parse, s)
        fields = lambda k: (k.depth, k.parent_fingerprint, k.child_number, k.chain_code, b"\x00" + k.private_key.secret.to_bytes(32, "big"), k.network == "mainnet")
        ser = lambda k: k.xprv()
    else:
        k = attempt(HDPublicKey.parse, s)
        fields = lambda k: (k.depth, k.parent_fingerprint, k.child_number, k.chain_code, k.point.sec(), k.network == "mainnet")
        ser = lambda k: k.xpub()
    if isinstance(k, Rejected):
        vio(res, f"parse-rejects/{cls}", "xkey", case, repr(k), "parsed", "extended-key parser rejects a well-formed reference string")
        return res
    f = attempt(fields, k)
    if f != want_fields:
        vio(res, f"parse-fields/{cls}", "xkey", case, f, want_fields, "parsed extended-key fields differ from the encoded payload")
    else:
        res.ok("parse==fields", key)
    back = attempt(ser, k)
    if back != s:
        vio(res, f"reencode/{cls}", "xkey", case, back, s, "parse -> serialise does not reproduce the string")
    else:
        res.ok("parse->text==string", key, sample={"ver": ver, "shape": case["shape"], "str": s} if case["shape"] == "master" and ver in ("zprv", "tpub") else None)
    # encoding direction without the parser: construct from fields
    net = "mainnet" if mainnet else "testnet"
    if side == "prv":
        built = attempt(lambda: HDPrivateKey(PrivateKey(sec), cc, case["depth"], fp, case["child"], net, priv_version=bytes.fromhex(vhex)).xprv())
    else:
        built = attempt(lambda: HDPublicKey(k.point, cc, case["depth"], fp, case["child"], net, pub_version=bytes.fromhex(vhex)).xpub())
    if built != s:
        vio(res, f"encode/{cls}", "xkey", case, built, s, "extended key built from its fields does not serialise to the reference string")
    else:
        res.ok("encode==ref")
    return res


# =============================================================== segwit-rt
def prog_bytes(kind, n, seed, label):
    if kind == "zeros":
        return b"\x00" * n
    if kind == "ff":
        return b"\xff" * n
    if kind == "lead0":
        return b"\x00" + filler(seed, label, n, n)[1:]
    if kind == "low-bit":
        return b"\x00" * (n - 1) + b"\x01"
    if kind == "high-bit":
        return b"\x80" + b"\x00" * (n - 1)
    return filler(seed, label + kind, n, n)


def gen_segwit_rt(tier, seed):
    kinds = ["zeros", "ff", "f0"] if tier == "quick" else ["zeros", "ff", "lead0", "low-bit", "high-bit"] + [f"f{k}" for k in range(5)]
    return [
        {"ver": v, "n": n, "network": net, "kind": k, "seed": seed}
        for v in range(17)
        for n in range(2, 41)
        for net in NETS
        for k in kinds
    ]


def run_segwit_rt(case):
    from buidl.bech32 import decode_bech32, encode_bech32_checksum
    from buidl.script import address_to_script_pubkey
    from buidl.tx import TxOut

    res = Res()
    v, n, net = case["ver"], case["n"], case["network"]
    prog = prog_bytes(case["kind"], n, case["seed"], "swrt")
    hrp = R.NETWORKS[net][0]
    spk = R.witness_script_pubkey(v, prog)
    want = R.segwit_encode_raw(hrp, v, prog)
    assert R.segwit_decode(hrp, want, strict_v0=False) == (v, prog)
    bip_valid = R.segwit_valid(hrp, want)
    assert bip_valid == (v != 0 or n in (20, 32))
    vcls = "v0" if v == 0 else "v1-16"
    key = (v, n, net, case["kind"])
    tag = "" if bip_valid else " (v0 with a length BIP141 does not define)"
    got = attempt(encode_bech32_checksum, spk, net)
    if got != want:
        if isinstance(got, str) and got[: -6] == want[:-6]:
            part = "checksum"
        elif isinstance(got, str) and got.startswith(hrp + "1") and len(got) == len(want):
            part = "data"
        else:
            part = "shape"
        vio(res, f"encode/{vcls}/{part}", "segwit-rt", case, got, want, "encode_bech32_checksum differs from the BIP173/BIP350 reference address")
    else:
        res.ok("encode==ref" + tag, key, sample={"ver": v, "len": n, "network": net, "addr": want} if n in (2, 40) and v in (0, 16) and case["kind"] == "f0" else None)
    if isinstance(got, str) and got.startswith(hrp + "1") and all(c in R.CHARSET_INDEX for c in got[len(hrp) + 1 :]):
        pm = R.polymod(R.hrp_expand(hrp) + [R.CHARSET_INDEX[c] for c in got[len(hrp) + 1 :]])
        if pm != R.const_for_version(v):
            vio(res, f"constant/{vcls}", "segwit-rt", case, hex(pm), hex(R.const_for_version(v)),
                "checksum constant: version 0 must verify as Bech32 (1), versions 1..16 as Bech32m (0x2bc830a3)")
        else:
            res.ok("constant-by-version")
    dec = attempt(decode_bech32, want)
    exp = [DECODED_NET[net], v, prog]
    if isinstance(dec, Rejected) or list(dec) != exp:
        vio(res, f"decode/{vcls}/{'regtest' if net == 'regtest' else 'bc-tb'}", "segwit-rt", case, dec, exp, "decode_bech32 does not invert the reference encoding")
    else:
        res.ok("decode==(network,version,program)" + tag, key)
    # address-level decoders may refuse witness programs they have no template for, but an address they
    # accept must be converted to the scriptPubKey it encodes (otherwise two addresses share one script)
    if bip_valid:
        for nm, fn in (
            ("address_to_script_pubkey", lambda a: address_to_script_pubkey(a).raw_serialize()),
            ("TxOut.to_address", lambda a: TxOut.to_address(a, 1).script_pubkey.raw_serialize()),
        ):
            r = attempt(fn, want)
            if isinstance(r, Rejected):
                res.ok(f"{nm}: not accepted")
            elif r != spk:
                vio(res, f"address-level/{nm}/wrong-script/{vcls}", "segwit-rt", case, {"addr": want, "script": r}, spk,
                    f"{nm} accepts a valid segwit address but returns a scriptPubKey other than the one the address encodes")
            else:
                res.ok(f"{nm}: script == encoded witness program", (nm,) + key)
    # the same data with the other checksum constant (Bech32m for v0, Bech32 for v1..16) must not decode
    other = R.bech_encode(hrp, [v] + R.regroup(prog, 8, 5, True), R.BECH32M_CONST if v == 0 else R.BECH32_CONST)
    assert other != want and not R.segwit_valid(hrp, other, strict_v0=False)
    r = attempt(decode_bech32, other)
    if not rej(r):
        vio(res, f"wrong-constant-accepted/{vcls}", "segwit-rt", case, {"addr": other, "returned": r}, "rejected",
            "decode_bech32 accepts a version-0 address with the Bech32m constant / a version-1..16 address with the Bech32 constant")
    else:
        res.ok("other-constant address rejected", key)
    return res


# =============================================================== templates
def tmpl_hashes(tier, seed):
    kinds = ["zeros", "ff", "lead0x1", "lead0x2", "lead0x3", "trail0", "low-bit"]
    kinds += [f"f{k}" for k in range(12 if tier == "quick" else 150)]
    return kinds


def tmpl_hash(kind, n, seed):
    if kind == "zeros":
        return b"\x00" * n
    if kind == "ff":
        return b"\xff" * n
    if kind.startswith("lead0x"):
        z = int(kind[6:])
        return b"\x00" * z + b"\x01" + filler(seed, "tmpl-l", z, n)[z + 1 :]
    if kind == "trail0":
        return filler(seed, "tmpl-t", 0, n - 3) + b"\x00" * 3
    if kind == "low-bit":
        return b"\x00" * (n - 1) + b"\x01"
    return filler(seed, "tmpl-" + kind, n, n)


def gen_templates(tier, seed):
    return [{"network": net, "kind": k, "seed": seed} for net in NETS for k in tmpl_hashes(tier, seed)]


def run_templates(case):
    from buidl import script as bs
    from buidl.tx import TxOut

    res = Res()
    net, kind, seed = case["network"], case["kind"], case["seed"]
    classes = {
        "p2pkh": bs.P2PKHScriptPubKey,
        "p2sh": bs.P2SHScriptPubKey,
        "p2wpkh": bs.P2WPKHScriptPubKey,
        "p2wsh": bs.P2WSHScriptPubKey,
        "p2tr": bs.P2TRScriptPubKey,
    }
    netcls = net
    addrs = {}
    for t in R.TEMPLATES:
        h = tmpl_hash(kind, R.TEMPLATE_HASHLEN[t], seed)
        spk = R.script_pubkey(t, h)
        want = R.address(t, h, net)
        assert R.address_decode(want, net) == (t, h)
        fam = "segwit" if t in ("p2wpkh", "p2wsh", "p2tr") else "base58"
        # fingerprint class: what actually distinguishes networks in the text form (HRP, or the version-byte family)
        netcls = R.NETWORKS[net][0] if fam == "segwit" else ("mainnet" if net == "mainnet" else "testnets")
        key = (t, net, kind)
        # script -> address
        obj = attempt(classes[t], h)
        if isinstance(obj, Rejected) or attempt(obj.raw_serialize) != spk:
            vio(res, f"construct/{t}", "templates", case, repr(obj), spk, "template class does not serialise to the standard scriptPubKey")
            continue
        got = attempt(obj.address, net)
        addrs[t] = got
        if got != want:
            vio(res, f"address/{t}/{netcls}", "templates", case, got, want, "ScriptPubKey.address(network) differs from the reference address")
        else:
            res.ok("address==ref", key, sample={"template": t, "network": net, "hash": h, "addr": want} if kind == "lead0x2" else None)
        # the SAME object asked for every network in turn, in two orders (state kept on the object between calls)
        for order in (list(R.NETWORKS), list(R.NETWORKS)[::-1], [net] + [x for x in R.NETWORKS if x != net]):
            o2 = attempt(classes[t], h)
            seq = []
            for n2 in order:
                seq.append((n2, attempt(o2.address, n2), R.address(t, h, n2)))
            bad = [(n2, g, w) for n2, g, w in seq if g != w]
            if bad:
                vio(res, f"address-on-reused-object/{t}", "templates", case, {"order": order, "got": [g for _, g, _ in seq]}, [w for _, _, w in seq],
                    "address(network) on one script object asked for several networks in turn differs from the reference")
                break
        else:
            res.ok("one object, all networks in turn == ref", ("reuse",) + key)
        # parsed script -> address
        ps = attempt(lambda: bs.ScriptPubKey.parse(BytesIO(bytes([len(spk)]) + spk)))
        pa = attempt(lambda: (type(ps).__name__, ps.address(net)))
        if pa != (classes[t].__name__, want):
            vio(res, f"parsed-address/{t}/{netcls}", "templates", case, pa, (classes[t].__name__, want), "ScriptPubKey.parse(spk).address(network) differs from the reference")
        else:
            res.ok("parse(spk).address==ref")
        # address -> script (two entry points)
        back = attempt(bs.address_to_script_pubkey, want)
        ob = back if isinstance(back, Rejected) else attempt(lambda: (type(back).__name__, back.raw_serialize()))
        if ob != (classes[t].__name__, spk):
            vio(res, f"address_to_script_pubkey/{fam}/{netcls}", "templates", case, {"addr": want, "got": ob}, (classes[t].__name__, spk),
                "address_to_script_pubkey does not return the scriptPubKey the address encodes")
        else:
            res.ok("address_to_script_pubkey==spk", key)
        amount = 1 + (len(kind) * 7919) % 100000
        to = attempt(TxOut.to_address, want, amount)
        ob = to if isinstance(to, Rejected) else attempt(lambda: (to.amount, type(to.script_pubkey).__name__, to.script_pubkey.raw_serialize()))
        if ob != (amount, classes[t].__name__, spk):
            vio(res, f"to_address/{fam}/{netcls}", "templates", case, {"addr": want, "got": ob}, (amount, classes[t].__name__, spk),
                "TxOut.to_address does not produce the scriptPubKey the address encodes (address() produced this address)")
        else:
            res.ok("TxOut.to_address==spk", key)
        # the same witness program under the other checksum constant is not an address
        if fam == "segwit":
            hrp = R.NETWORKS[net][0]
            ver = 1 if t == "p2tr" else 0
            other = R.bech_encode(hrp, [ver] + R.regroup(h, 8, 5, True), R.BECH32_CONST if ver else R.BECH32M_CONST)
            assert R.address_decode(other, net) is None
            for nm, fn in (("address_to_script_pubkey", bs.address_to_script_pubkey), ("TxOut.to_address", lambda a: TxOut.to_address(a, 1))):
                r = attempt(fn, other)
                if not rej(r):
                    vio(res, f"wrong-constant-accepted/{nm}/{'v1' if ver else 'v0'}", "templates", case, {"addr": other, "returned": repr(r)}, "rejected",
                        f"{nm} accepts a segwit address whose checksum uses the constant of the other encoding")
                else:
                    res.ok("other-constant address rejected")
        # nested form: the P2SH address of a witness program
        if t in ("p2wpkh", "p2wsh"):
            import hashlib

            h160 = hashlib.new("ripemd160", R.sha256(spk)).digest()
            nested = attempt(obj.p2sh_address, net)
            if nested != R.address("p2sh", h160, net):
                vio(res, f"p2sh_address/{t}/{netcls}", "templates", case, nested, R.address("p2sh", h160, net), "p2sh_address differs from reference P2SH address of the witness program")
            else:
                res.ok("p2sh-wrapped address==ref")
    if len(addrs) == 5:
        if len(set(map(str, addrs.values()))) != 5:
            vio(res, f"not-injective/{netcls}", "templates", case, addrs, "5 distinct addresses", "two templates over related hashes map to the same address")
        else:
            res.ok("5 templates -> 5 distinct addresses")
    return res


# =============================================================== segwit-sub
def sub_addresses(tier, seed):
    """name -> (hrp, ver, prog)"""
    f = lambda lbl, n: filler(seed, "sub-" + lbl, n, n)
    out = {
        "bc-v0-20": ("bc", 0, f("a", 20)),
        "tb-v1-32": ("tb", 1, f("b", 32)),
        "bcrt-v16-2": ("bcrt", 16, f("c", 2)),
        "bcrt-v0-20": ("bcrt", 0, f("d", 20)),
    }
    if tier == "thorough":
        for hrp in ("bc", "tb", "bcrt"):
            for ver, n in ((0, 20), (0, 32), (1, 32), (16, 2), (16, 40), (2, 2)):
                out.setdefault(f"{hrp}-v{ver}-{n}", (hrp, ver, f(f"{hrp}{ver}", n)))
        out["bc-v0-20-zeros"] = ("bc", 0, b"\x00" * 20)
        out["bc-v1-32-ff"] = ("bc", 1, b"\xff" * 32)
    return out


def gen_segwit_sub(tier, seed):
    cases = []
    for name, (hrp, ver, prog) in sub_addresses(tier, seed).items():
        L = len(R.segwit_encode_raw(hrp, ver, prog)) - len(hrp) - 1
        for i in range(L):
            cases.append({"name": name, "i": i, "seed": seed, "tier": tier})
    return cases


_SUB = {}


def sub_ctx(name, tier, seed):
    k = (name, tier, seed)
    if k not in _SUB:
        hrp, ver, prog = sub_addresses(tier, seed)[name]
        addr = R.segwit_encode(hrp, ver, prog)
        ds = addr[len(hrp) + 1 :]
        data = [R.CHARSET_INDEX[c] for c in ds]
        T = R.syndrome_table(hrp, len(data))
        base = R.polymod(R.hrp_expand(hrp) + data)
        assert base == R.const_for_version(ver)
        _SUB[k] = (hrp, ver, prog, addr, ds, data, T, base)
    return _SUB[k]


def run_segwit_sub(case):
    from buidl.bech32 import decode_bech32
    from buidl.script import address_to_script_pubkey
    from buidl.tx import TxOut

    res = Res()
    name, i, tier = case["name"], case["i"], case["tier"]
    hrp, ver, prog, addr, ds, data, T, base = sub_ctx(name, tier, case["seed"])
    L = len(data)
    standard = (ver == 0 and len(prog) in (20, 32)) or (ver == 1 and len(prog) == 32)
    apis = [("decode_bech32", decode_bech32)]
    apis1 = list(apis)
    if standard:
        apis.append(("address_to_script_pubkey", address_to_script_pubkey))
        apis1 = apis + [("TxOut.to_address", lambda s: TxOut.to_address(s, 1))]
    # doubles: mainnet addresses go through every decoder; tb/bcrt through decode_bech32 (+ address_to_script_pubkey in thorough)
    apis2 = apis1 if hrp == "bc" else (apis if tier == "thorough" else apis[:1])
    if i == 0:
        got = attempt(decode_bech32, addr)
        exp = [{"bc": "mainnet", "tb": "testnet", "bcrt": "regtest"}[hrp], ver, prog]
        if isinstance(got, Rejected) or list(got) != exp:
            vio(res, f"honest-rejected/{hrp}", "segwit-sub", case, got, exp, "the unmodified address is not decoded")
        else:
            res.ok("honest accepted")
        if standard:
            r = attempt(address_to_script_pubkey, addr)
            if rej(r) or attempt(r.raw_serialize) != R.witness_script_pubkey(ver, prog):
                vio(res, f"honest-rejected/address_to_script_pubkey/{hrp}", "segwit-sub", case, repr(r), "accepted", "the unmodified address is not accepted")
            else:
                res.ok("honest accepted")
    pre = hrp + "1"
    M, B = R.BECH32M_CONST, R.BECH32_CONST
    CH = R.CHARSET

    def check(s, syn, newver, nsub, apilist):
        ref_ok = (base ^ syn) == (B if newver == 0 else M)
        if ref_ok:
            ref_ok = R.segwit_valid(hrp, s)
        ok = True
        for nm, fn in apilist:
            try:
                r = fn(s)
                acc = r is not None and r is not False
            except Exception:
                acc = False
            if acc:
                ok = False
                if ref_ok:
                    res.ok(f"benign: reference also accepts ({nsub} substitutions)", (s, nm))
                    res.notes["reference_accepted_substitutions"] = res.notes.get("reference_accepted_substitutions", 0) + 1
                else:
                    where = "version-char" if i == 0 else ("checksum-chars" if i >= L - 6 else "program-chars")
                    vio(res, f"accepted/{nm}/{nsub}-substitution/{where}", "segwit-sub", case, {"orig": addr, "mutated": s, "returned": repr(r)}, "rejected",
                        f"{nm} accepts a segwit address obtained from a valid one by substituting {nsub} character(s) of the data part")
        return ok

    n1 = n2 = 0
    for d1 in range(1, 32):
        v1 = data[i] ^ d1
        nv = v1 if i == 0 else data[0]
        head = pre + ds[:i] + CH[v1]
        if check(head + ds[i + 1 :], T[i][d1], nv, 1, apis1):
            n1 += 1
        s1 = T[i][d1]
        for j in range(i + 1, L):
            mid, tail, Tj, dj = ds[i + 1 : j], ds[j + 1 :], T[j], data[j]
            hm = head + mid
            for d2 in range(1, 32):
                if check(hm + CH[dj ^ d2] + tail, s1 ^ Tj[d2], nv, 2, apis2):
                    n2 += 1
    res.bulk("single substitution rejected by every decoder", n1, n1)
    if n2:
        res.bulk("double substitution rejected by every decoder", n2, n2)
    res.notes["decoder_calls"] = res.notes.get("decoder_calls", 0) + 31 * len(apis1) + 31 * 31 * (L - 1 - i) * len(apis2)
    return res


# =============================================================== engines
def engines(tier, seed):
    return [
        Engine(
            "b58", gen_b58, run_b58, kind="E1",
            rule="Base58Check payloads: every length 0..82 x leading-zero run 0..min(5,len) x body kinds {0xff.., 0x01 00.., 0x80 00.., seeded fillers "
            "(3 quick / 12 thorough)} + all-zero payloads; encode byte-identical to reference, raw_decode_base58/decode_base58 invert, plain encode_base58. "
            "Non-trivial = every distinct payload (notes count those with leading zeros)",
        ),
        Engine(
            "b58acc", gen_b58acc, run_b58acc, kind="E1",
            rule="11 strings (P2PKH/P2SH main+test, leading-zero hash, WIF c/u, xprv, tpub, 1-byte and empty payload): every position x 57 alphabet "
            "alternatives + 4 non-alphabet look-alikes; all double substitutions of the 2 short strings (thorough: also of 4 real addresses/WIF); every bit flip "
            "of payload+checksum and 11 mis-constructed checksums; every Base58 string of length <= 3 (thorough 4). impl accepts <=> reference checksum "
            "accepts, payloads equal; typed parsers (address_to_script_pubkey, TxOut.to_address, PrivateKey.parse, HD*.parse) accept => checksum ok. "
            "Non-trivial = mutated string over the Base58 alphabet (reaches the checksum comparison; distinct by construction); short strings and "
            "non-alphabet substitutions are counted as trivial",
        ),
        Engine(
            "wif", gen_wif, run_wif, kind="E1",
            rule="secrets {2^k, 2^k-1 (k multiple of 8 and +-1 quick / every k thorough), n-1, n-2, (n-1)/2, 8/32 fillers} x {compressed, uncompressed} x 4 networks; "
            "wif() byte-identical to reference, parse() returns secret/compressed/mainnet-ness, parse->wif reproduces the string. Non-trivial = every case",
        ),
        Engine(
            "xkey", gen_xkey, run_xkey, kind="E1",
            rule="20 SLIP-132/BIP32 versions x 9 shapes (master; depth 1/255 x child 0,1,2^31,2^32-1) x (chain code, key) kinds (all 5 combos thorough, on one shape quick); "
            "reference builds the 78-byte payload and Base58Check string; parse fields, parse->text, construct->text compared. Non-trivial = every case",
        ),
        Engine(
            "segwit-rt", gen_segwit_rt, run_segwit_rt, kind="E1",
            rule="every witness version 0..16 x program length 2..40 x 4 networks x program kinds (3 quick / 10 thorough); encode_bech32_checksum byte-identical to the "
            "BIP173/350 reference, checksum constant verified by version, decode_bech32 returns (network, version, program). Non-trivial = every case",
        ),
        Engine(
            "templates", gen_templates, run_templates, kind="E1",
            rule="4 networks x hash kinds (zeros, ff, 1..3 leading zero bytes, trailing zeros, low bit, 12/150 fillers) x 5 templates: address(), parse(spk).address(), "
            "address_to_script_pubkey, TxOut.to_address, p2sh-wrapped address, pairwise distinctness. Non-trivial = every (template, network, hash)",
        ),
        Engine(
            "segwit-sub", gen_segwit_sub, run_segwit_sub, kind="E1",
            rule="for each address (quick: bc v0/20B, tb v1/32B, bcrt v16/2B, bcrt v0/20B; thorough: 3 HRPs x {v0/20,v0/32,v1/32,v16/2,v16/40,v2/2} + all-zero and all-ff programs) "
            "ALL single substitutions (len x 31) and ALL double substitutions (C(len,2) x 31^2) of the data part incl. version and checksum characters, through "
            "decode_bech32 (standard programs: singles also through address_to_script_pubkey and TxOut.to_address; doubles through both for HRP bc, thorough also "
            "address_to_script_pubkey for tb/bcrt); reference verdict from exact GF(2) syndrome "
            "tables + full BIP173/350 decoder. Non-trivial = mutated string that still reaches the checksum test (all: HRP, separator, charset and length are intact)",
        ),
    ]
