"""C05 — signature hashes equal the Satoshi / BIP143 / BIP341 digests for every hash type, and depend only on
the current transaction content (no stale state on the object).

E1 digest:  product of tx shapes x input index x hash type x spent-output kind x taproot witness shape; every
            digest obtained through Tx.sig_hash (dispatch) and through the direct methods == reference.
E2 history: explicit-state search over interleavings of digest queries and edits on ONE Tx object; in every
            state every query must equal the reference evaluated on the current content.
E1 scripts: script-code / spent-scriptPubKey / output-script / annex alphabets across the compact-size boundaries and
            with non-canonical (raw-preserved) encodings, for every carrier of a script code.
E1 fields:  extreme values of every 32/64-bit field x ways of building the object (constructor, Tx.parse of both wire
            forms, segwit flag, network).
E1 routes:  the digest that is actually signed (get_sig_*, sign_p2tr_keypath) and actually checked (check_sig_*,
            verify_input through the signature opcodes) is the reference digest: signatures are made with the
            reference curve code over the reference digest; includes m-of-n CHECKMULTISIG with different hash-type
            bytes per signature and taproot script paths of a real two-leaf tree.
E2 fetch-history: like `history`, but the spent outputs come from TxFetcher.cache (looked up by outpoint), the object is
            built by Tx.parse, all queries go through the Tx.sig_hash dispatch, and the edits include outpoints,
            adding/removing inputs, in-place edits of scriptSig / witness items and of a raw-preserved output script.
"""
import itertools

from mc.core import Engine, Res, attempt, Rejected
from mc.ref import txref, ec

PROP = "C05"

H20 = bytes(range(1, 21))
PK1 = b"\x02" + bytes(range(40, 72))
PK2 = b"\x03" + bytes(range(80, 112))
MS = bytes([0x51]) + txref.push(PK1) + txref.push(PK2) + bytes([0x52, 0xAE])  # 1-of-2
TAPSCRIPT = txref.push(bytes(range(100, 132))) + b"\xac"
XONLY = bytes(range(150, 182))
LEGACY_HTS = [1, 2, 3, 0x81, 0x82, 0x83]
# not "standard", but both algorithms define them without ambiguity (base type = hash_type & 0x1f is neither NONE nor
# SINGLE, so all outputs are committed; 0x80 has ANYONECANPAY set; the four hash-type bytes are serialized as given)
EXTRA_LEGACY_HTS = [0, 0x80]
TAP_HTS = [0, 1, 2, 3, 0x81, 0x82, 0x83]
AMOUNTS = [0, 1, 2**32, 2**63 - 1, 5000000000]
KINDS = ["p2pkh", "p2sh-ms", "p2wpkh", "p2sh-p2wpkh", "p2wsh-ms", "p2sh-p2wsh-ms", "p2tr-key", "p2tr-script"]
TAP_KEY_SHAPES = ["sig", "sig50", "sig+annex", "empty"]
TAP_SCRIPT_SHAPES = ["script", "script+annex", "script-1arg", "script-1arg+annex"]
ANNEX = b"\x50\x01\x02\x03"
SIG64 = bytes(range(64))
SIG50 = b"\x50" + bytes(range(63))
CB = b"\xc0" + XONLY  # depth-0 control block
CB1 = b"\xc1" + XONLY + bytes(range(200, 232))


def kind_setup(kind, shape=None):
    """-> (spk bytes, scriptSig bytes, witness items, ref script_code)"""
    if kind == "p2pkh":
        spk = b"\x76\xa9\x14" + H20 + b"\x88\xac"
        return spk, b"", [], spk
    if kind == "p2sh-ms":
        return b"\xa9\x14" + txref.h160(MS) + b"\x87", b"\x00" + txref.push(MS), [], MS
    if kind == "p2wpkh":
        return b"\x00\x14" + H20, b"", [b"\x30\x01", PK1], b"\x76\xa9\x14" + H20 + b"\x88\xac"
    if kind == "p2sh-p2wpkh":
        redeem = b"\x00\x14" + H20
        return b"\xa9\x14" + txref.h160(redeem) + b"\x87", txref.push(redeem), [b"\x30\x01", PK1], b"\x76\xa9\x14" + H20 + b"\x88\xac"
    if kind == "p2wsh-ms":
        return b"\x00\x20" + txref.sha256(MS), b"", [b"", b"\x30\x02", MS], MS
    if kind == "p2sh-p2wsh-ms":
        redeem = b"\x00\x20" + txref.sha256(MS)
        return b"\xa9\x14" + txref.h160(redeem) + b"\x87", txref.push(redeem), [b"", b"\x30\x02", MS], MS
    spk = b"\x51\x20" + XONLY
    if kind == "p2tr-key":
        w = {"sig": [SIG64], "sig50": [SIG50], "sig+annex": [SIG64, ANNEX], "empty": []}[shape]
        return spk, b"", w, None
    w = {
        "script": [SIG64, TAPSCRIPT, CB],
        "script+annex": [SIG64, TAPSCRIPT, CB, ANNEX],
        "script-1arg": [TAPSCRIPT, CB1],
        "script-1arg+annex": [TAPSCRIPT, CB1, ANNEX],
    }[shape]
    return spk, b"", w, None


def make_abstract(nin, nout, idx, kind, shape, variant=0):
    """The input under test has `kind`; the others rotate through other kinds."""
    ins, spent = [], []
    others = ["p2pkh", "p2wpkh", "p2tr-key", "p2wsh-ms"]
    for i in range(nin):
        if i == idx:
            spk, ss, wit, _ = kind_setup(kind, shape)
        else:
            k = others[(i + variant) % 4]
            spk, ss, wit, _ = kind_setup(k, "sig")
        ins.append({"prev": bytes([17 * (i + 1) % 256]) * 31 + bytes([i]), "index": (i * 3 + variant) % 5, "script": ss, "seq": [0xFFFFFFFF, 0xFFFFFFFE, 0, 5][(i + variant) % 4], "witness": wit})
        spent.append((AMOUNTS[(i + variant) % len(AMOUNTS)], spk))
    outs = [{"amount": AMOUNTS[(o + 1 + variant) % len(AMOUNTS)], "script": [b"\x76\xa9\x14" + H20 + b"\x88\xac", b"\x00\x14" + H20, b"\x51\x20" + XONLY, b"\x6a\x02hi", b""][o % 5]} for o in range(nout)]
    tx = {"version": [1, 2][variant % 2], "locktime": [0, 500000001][variant % 2], "segwit": True, "ins": ins, "outs": outs}
    return tx, spent


def build_lib(tx, spent):
    from io import BytesIO
    from buidl.script import Script, ScriptPubKey
    from buidl.tx import Tx, TxIn, TxOut
    from buidl.witness import Witness

    tins = []
    for i, (inp, (amt, spk)) in enumerate(zip(tx["ins"], spent)):
        ti = TxIn(inp["prev"], inp["index"], Script.parse(BytesIO(txref.varbytes(inp["script"]))), inp["seq"])
        ti._value = amt
        ti._script_pubkey = ScriptPubKey.parse(BytesIO(txref.varbytes(spk)))
        ti.witness = Witness(list(inp["witness"]))
        tins.append(ti)
    touts = [TxOut(o["amount"], ScriptPubKey.parse(BytesIO(txref.varbytes(o["script"])))) for o in tx["outs"]]
    return Tx(tx["version"], tins, touts, tx["locktime"], network="mainnet", segwit=True)


def ref_digest(tx, spent, idx, kind, shape, ht):
    """Reference digest as bytes, or None when undefined."""
    _, _, wit, sc = kind_setup(kind, shape)
    if kind in ("p2pkh", "p2sh-ms"):
        return txref.sighash_legacy(tx, idx, sc, ht)
    if kind in ("p2wpkh", "p2sh-p2wpkh", "p2wsh-ms", "p2sh-p2wsh-ms"):
        return txref.sighash_bip143(tx, idx, sc, spent[idx][0], ht)
    w = list(wit)
    annex = None
    if len(w) >= 2 and w[-1] and w[-1][0] == 0x50:
        annex = w.pop()
    if kind == "p2tr-key":
        return txref.sighash_bip341(tx, idx, spent, ht, annex=annex)
    script, cb = w[-2], w[-1]
    leaf = txref.tapleaf_hash(script, cb[0] & 0xFE)
    return txref.sighash_bip341(tx, idx, spent, ht, annex=annex, leaf_hash=leaf)


def norm(v):
    """library digests are ints (legacy, BIP143) or bytes (BIP341)"""
    if isinstance(v, Rejected) or v is None:
        return None
    if isinstance(v, int):
        return v.to_bytes(32, "big")
    return bytes(v)


def lib_digests(ltx, idx, kind, shape, ht):
    """name -> digest bytes/None for every API route that should give this digest."""
    from io import BytesIO
    from buidl.script import RedeemScript, WitnessScript

    out = {"sig_hash": norm(attempt(ltx.sig_hash, idx, ht))}
    if kind == "p2pkh":
        out["sig_hash_legacy"] = norm(attempt(ltx.sig_hash_legacy, idx, None, ht))
    elif kind == "p2sh-ms":
        out["sig_hash_legacy"] = norm(attempt(lambda: ltx.sig_hash_legacy(idx, RedeemScript.convert(MS), ht)))
    elif kind == "p2wpkh":
        out["sig_hash_bip143"] = norm(attempt(lambda: ltx.sig_hash_bip143(idx, hash_type=ht)))
    elif kind == "p2sh-p2wpkh":
        out["sig_hash_bip143"] = norm(attempt(lambda: ltx.sig_hash_bip143(idx, redeem_script=RedeemScript.convert(b"\x00\x14" + H20), hash_type=ht)))
    elif kind == "p2wsh-ms":
        out["sig_hash_bip143"] = norm(attempt(lambda: ltx.sig_hash_bip143(idx, witness_script=WitnessScript.convert(MS), hash_type=ht)))
    elif kind == "p2sh-p2wsh-ms":
        out["sig_hash_bip143"] = norm(attempt(lambda: ltx.sig_hash_bip143(idx, redeem_script=RedeemScript.convert(b"\x00\x20" + txref.sha256(MS)), witness_script=WitnessScript.convert(MS), hash_type=ht)))
    elif kind == "p2tr-key":
        out["sig_hash_bip341"] = norm(attempt(lambda: ltx.sig_hash_bip341(idx, ext_flag=0, hash_type=ht)))
    else:
        out["sig_hash_bip341"] = norm(attempt(lambda: ltx.sig_hash_bip341(idx, ext_flag=1, hash_type=ht)))
    return out


def gen_digest(tier, seed):
    nmax = 4 if tier == "quick" else 6
    cases = []
    for nin in range(1, nmax + 1):
        for nout in range(0, nmax + 1):
            for idx in range(nin):
                for kind in KINDS:
                    cases.append({"nin": nin, "nout": nout, "idx": idx, "kind": kind, "variant": (nin + nout + idx) % 4})
    return cases


def run_digest(case):
    res = Res()
    kind = case["kind"]
    shapes = [None]
    hts = LEGACY_HTS + EXTRA_LEGACY_HTS
    if kind == "p2tr-key":
        shapes, hts = TAP_KEY_SHAPES, TAP_HTS
    elif kind == "p2tr-script":
        shapes, hts = TAP_SCRIPT_SHAPES, TAP_HTS
    only = case.get("only")
    for shape in shapes:
        tx, spent = make_abstract(case["nin"], case["nout"], case["idx"], kind, shape, case["variant"])
        for ht in hts:
            if only and only != [shape, ht]:
                continue
            if shape == "empty":
                # no witness at all: only the direct key-path method is meaningful (this is what signing uses)
                pass
            ltx = build_lib(tx, spent)
            exp = ref_digest(tx, spent, case["idx"], kind, shape, ht)
            got = lib_digests(ltx, case["idx"], kind, shape, ht)
            base = ht & 3
            single_missing = base == 3 and case["idx"] >= case["nout"]
            for route, val in got.items():
                vc = {"engine": "digest", "case": dict(case, only=[shape, ht])}
                if val != exp:
                    cls = f"{route}/{kind}"
                    if shape:
                        cls += f"/{shape}"
                    cls += f"/ht{ht:02x}" + ("/single-without-output" if single_missing else "")
                    res.violation(f"C05/digest/{cls}", vc, val, exp, f"{route} != reference digest")
                else:
                    res.ok("digest==ref" + ("(undefined->refused)" if exp is None else ""), nontrivial=(case["nin"], case["nout"], case["idx"], kind, shape, ht, route), sample=dict(case, shape=shape, ht=ht) if ht == 0x83 and case["nin"] == 2 else None)
    return res


# ------------------------------------------------------------------ E2 history search
QUERIES = [(m, i, ht) for m in ("legacy", "bip143", "bip341") for i in (0, 1) for ht in ((1, 3, 0x82) if m != "bip341" else (0, 3, 0x81))]
EDITS = ["out0.amount", "nout", "in0.seq", "locktime", "in1.index", "in0.value", "in0.annex", "version"]
MEMO = ["_hash_prevouts", "_hash_sequence", "_hash_outputs", "_sha_prevouts", "_sha_amounts", "_sha_script_pubkeys", "_sha_sequence", "_sha_sequences", "_sha_outputs"]


def hist_base():
    """2 inputs (0: p2wpkh, 1: p2tr key path), 2 outputs."""
    tx, spent = make_abstract(2, 2, 0, "p2wpkh", None, 0)
    spk, ss, wit, _ = kind_setup("p2tr-key", "sig")
    tx["ins"][1].update(script=ss, witness=wit)
    spent[1] = (spent[1][0], spk)
    # queries of every algorithm are asked on both inputs, so give input 0 a P2TR-compatible view as well
    return tx, spent


def apply_edit_abstract(tx, spent, e):
    if e == "out0.amount":
        tx["outs"][0]["amount"] ^= 0x100
    elif e == "nout":
        if len(tx["outs"]) == 2:
            tx["outs"].append({"amount": 777, "script": b"\x51"})
        else:
            tx["outs"].pop()
    elif e == "in0.seq":
        tx["ins"][0]["seq"] ^= 0x10
    elif e == "locktime":
        tx["locktime"] ^= 0x40
    elif e == "in1.index":
        tx["ins"][1]["index"] ^= 1
    elif e == "in0.value":
        spent[0] = (spent[0][0] ^ 0x1000, spent[0][1])
    elif e == "in0.annex":
        w = tx["ins"][1]["witness"]
        if len(w) == 1:
            w.append(ANNEX)
        else:
            w.pop()
    elif e == "version":
        tx["version"] ^= 3


def apply_edit_lib(ltx, e):
    from buidl.script import Script
    from buidl.timelock import Locktime, Sequence
    from buidl.tx import TxOut

    if e == "out0.amount":
        ltx.tx_outs[0].amount ^= 0x100
    elif e == "nout":
        if len(ltx.tx_outs) == 2:
            ltx.tx_outs.append(TxOut(777, Script([0x51])))
        else:
            ltx.tx_outs.pop()
    elif e == "in0.seq":
        ltx.tx_ins[0].sequence = Sequence(int(ltx.tx_ins[0].sequence) ^ 0x10)
    elif e == "locktime":
        ltx.locktime = Locktime(int(ltx.locktime) ^ 0x40)
    elif e == "in1.index":
        # the statement takes the spent outputs as given: the output the new outpoint spends carries the same amount
        # and scriptPubKey, so whatever the harness planted on the input is planted again for the new outpoint
        ti = ltx.tx_ins[1]
        planted = (ti._value, ti._script_pubkey)
        ti.prev_index ^= 1
        ti._value, ti._script_pubkey = planted
    elif e == "in0.value":
        ltx.tx_ins[0]._value ^= 0x1000
    elif e == "in0.annex":
        w = ltx.tx_ins[1].witness.items
        if len(w) == 1:
            w.append(ANNEX)
        else:
            w.pop()
    elif e == "version":
        ltx.version ^= 3


def ref_query(tx, spent, q):
    m, i, ht = q
    if m == "legacy":
        return txref.sighash_legacy(tx, i, b"\x76\xa9\x14" + H20 + b"\x88\xac", ht)
    if m == "bip143":
        return txref.sighash_bip143(tx, i, b"\x76\xa9\x14" + H20 + b"\x88\xac", spent[i][0], ht)
    w = tx["ins"][i]["witness"]
    annex = w[-1] if len(w) >= 2 and w[-1] and w[-1][0] == 0x50 else None
    return txref.sighash_bip341(tx, i, spent, ht, annex=annex)


def lib_query(ltx, q):
    from io import BytesIO
    from buidl.script import RedeemScript, Script

    m, i, ht = q
    p2pkh = Script.parse(BytesIO(txref.varbytes(b"\x76\xa9\x14" + H20 + b"\x88\xac")))
    if m == "legacy":
        return norm(attempt(lambda: ltx.sig_hash_legacy(i, p2pkh, ht)))
    if m == "bip143":
        return norm(attempt(lambda: ltx.sig_hash_bip143(i, redeem_script=RedeemScript.convert(b"\x00\x14" + H20), hash_type=ht)))
    return norm(attempt(lambda: ltx.sig_hash_bip341(i, ext_flag=0, hash_type=ht)))


def replay_history(hist):
    """fresh objects, events replayed; returns (ltx, tx, spent, per-query observations)"""
    import copy

    tx, spent = hist_base()
    tx = copy.deepcopy(tx)
    ltx = build_lib(tx, spent)
    obs = []
    for ev in hist:
        if ev[0] == "q":
            q = tuple(ev[1])
            obs.append((lib_query(ltx, q), ref_query(tx, spent, q)))
        else:
            apply_edit_abstract(tx, spent, ev[1])
            apply_edit_lib(ltx, ev[1])
            obs.append(None)
    return ltx, tx, spent, obs


def canon(ltx, tx, spent):
    memo = tuple(getattr(ltx, n, None) for n in MEMO)
    return (txref.ser_tx(tx), tuple(spent), memo)


def gen_history(tier, seed):
    # one case per first event: the search below each first event is independent, which shards the BFS
    events = [["q", list(q)] for q in QUERIES] + [["e", e] for e in EDITS]
    depth = 4 if tier == "quick" else 6
    return [{"first": ev, "depth": depth} for ev in events]


def run_history(case):
    import collections

    res = Res()
    events = [["q", list(q)] for q in QUERIES] + [["e", e] for e in EDITS]
    # thorough depth 6 keeps the query alphabet of steps 3.. to one hash type per algorithm to stay finite in time
    depth = case["depth"]
    seen = set()
    frontier = collections.deque([[case["first"]]])
    if case.get("replay"):
        frontier = collections.deque([case["replay"]])
        depth = 0
    while frontier:
        hist = frontier.popleft()
        ltx, tx, spent, obs = replay_history(hist)
        res.transitions += 1
        last = obs[-1]
        if last is not None and last[0] != last[1]:
            # minimal description of the violating history
            q = hist[-1][1]
            edits = [e[1] for e in hist if e[0] == "e"]
            stale = any(h[0] == "e" for h in hist[:-1]) and any(h[0] == "q" for h in hist[:-1])
            fresh = replay_history([hist[-1]] if not edits else [h for h in hist if h[0] == "e"] + [hist[-1]])[3][-1]
            if fresh[0] == fresh[1]:
                cls = f"stale-after-edit/{q[0]}"
            else:
                cls = f"wrong-digest/{q[0]}/ht{q[2]:02x}"
            res.violation(f"C05/history/{cls}", {"engine": "history", "case": dict({k: v for k, v in case.items() if k != "replay"}, replay=hist)}, last[0], last[1], f"query {q} after history {hist[:-1]} differs from the reference on the current content")
            continue
        k = canon(ltx, tx, spent)
        if k in seen:
            continue
        seen.add(k)
        res.states += 1
        if last is not None:
            res.ok("query==ref", nontrivial=repr(hist) if any(h[0] == "e" for h in hist[:-1]) else None, sample={"history": hist} if len(hist) == 3 and hist[0][0] == "q" and hist[1][0] == "e" else None)
        if len(hist) < depth:
            for ev in events:
                if len(hist) >= 4 and ev[0] == "q" and ev[1][2] not in (3, 0x81):
                    continue
                frontier.append(hist + [ev])
    if case.get("replay"):
        pass
    return res


def run_history_replay(case):
    """Replay one recorded history (used by --replay)."""
    res = Res()
    hist = case["replay"]
    ltx, tx, spent, obs = replay_history(hist)
    last = obs[-1]
    if last is not None and last[0] != last[1]:
        res.violation("C05/history/replayed", {"engine": "history", "case": case}, last[0], last[1], "replayed history still violates")
    return res


# ------------------------------------------------------------------ E1 scripts: script-code / spk / annex alphabets
H20B = bytes(range(31, 51))
XONLY2 = bytes(range(60, 92))


def long_script(n):
    """exactly n bytes: 520-byte PUSHDATA2 pushes padded with OP_NOPs (few commands, so parsing stays cheap)"""
    chunk = b"\x4d\x08\x02" + bytes(range(256)) * 2 + bytes(8)
    out = chunk * (n // len(chunk))
    return out + b"\x61" * (n - len(out))


def script_alphabet():
    """name -> (class, bytes). Classes name what is special about the encoding (they become the fingerprint)."""
    pd = lambda d: [txref.push(d), b"\x4c" + bytes([len(d)]) + d, b"\x4d" + len(d).to_bytes(2, "little") + d, b"\x4e" + len(d).to_bytes(4, "little") + d]
    a = {}
    a["pk-direct-push"] = ("canonical", pd(PK1)[0] + b"\xac")
    a["pk-pushdata1"] = ("noncanonical-push", pd(PK1)[1] + b"\xac")
    a["pk-pushdata2"] = ("noncanonical-push", pd(PK1)[2] + b"\xac")
    a["pk-pushdata4"] = ("noncanonical-push", pd(PK1)[3] + b"\xac")
    a["ms-mixed-pushdata"] = ("noncanonical-push", b"\x51" + pd(PK1)[1] + pd(PK2)[2] + b"\x52\xae")
    a["pushdata1-empty"] = ("noncanonical-push", b"\x4c\x00\x51")
    a["push-01"] = ("noncanonical-push", b"\x01\x01\x51")
    a["trunc-direct-push"] = ("truncated-push", b"\x51\x21" + PK1[:10])
    a["trunc-pushdata1"] = ("truncated-push", b"\x51\x4c")
    a["trunc-pushdata2"] = ("truncated-push", b"\x51\x4d\x05")
    a["push-521"] = ("oversize-push", b"\x4d\x09\x02" + bytes(521) + b"\x75\x51")
    a["op0"] = ("canonical", b"\x00\x51")
    a["empty"] = ("empty", b"")
    a["ms15"] = ("len>=253", b"\x5f" + b"".join(txref.push(bytes([2]) + bytes([k]) * 32) for k in range(15)) + b"\x5f\xae")
    a["len252"] = ("len<253", b"\x61" * 252)
    a["len253"] = ("len>=253", b"\x61" * 253)
    a["len65535"] = ("len>=253", long_script(65535))
    a["len65536"] = ("len>=65536", long_script(65536))
    a["opsuccess"] = ("canonical", b"\x50\x51")
    a["reserved-ff"] = ("canonical", b"\xff\x51")
    a["p2pkh"] = ("canonical", b"\x76\xa9\x14" + H20 + b"\x88\xac")
    return a


ANNEXES = {"none": None, "1": b"\x50", "4": ANNEX, "252": b"\x50" + bytes(251), "253": b"\x50" + bytes(252), "65536": b"\x50" + bytes(65535)}
CARRIERS = ["p2sh", "p2wsh", "p2sh-p2wsh", "bare", "tapscript"]
ODD_SPKS = {
    "empty": b"",
    "op_return": b"\x6a",
    "pushdata1-h20": b"\x4c\x14" + H20,
    "p2wpkh-pushdata1": b"\x00\x4c\x14" + H20,
    "p2tr-pushdata1": b"\x51\x4c\x20" + XONLY,
    "p2sh-pushdata1": b"\xa9\x4c\x14" + H20 + b"\x87",
    "len252": b"\x61" * 252,
    "len253": b"\x61" * 253,
    "len65536": None,  # long_script(65536), filled in below
    "trunc-push": b"\x51\x21" + bytes(5),
}
ODD_SPKS["len65536"] = long_script(65536)
ALL_KIND_SHAPES = [(k, None) for k in KINDS[:6]] + [("p2tr-key", s) for s in TAP_KEY_SHAPES] + [("p2tr-script", s) for s in TAP_SCRIPT_SHAPES]


def gen_scripts(tier, seed):
    cases = []
    names = list(script_alphabet())
    for name in names:
        for carrier in CARRIERS:
            annexes = ["none"] if carrier != "tapscript" else (["none", "1", "253"] if tier == "quick" else list(ANNEXES))
            for annex in annexes:
                cases.append({"dim": "script", "script": name, "carrier": carrier, "annex": annex})
    for spk in ODD_SPKS:
        for kind, shape in ALL_KIND_SHAPES:
            cases.append({"dim": "spent-spk", "spk": spk, "kind": kind, "shape": shape})
    for kind, shape in ALL_KIND_SHAPES:
        cases.append({"dim": "output-script", "kind": kind, "shape": shape})
        for annex in ("1", "252", "253", "65536"):
            if kind.startswith("p2tr") and shape and "annex" in shape:
                cases.append({"dim": "annex", "annex": annex, "kind": kind, "shape": shape})
    return cases


def _cmp(res, fp, case, got, exp, key, what):
    if got != exp:
        res.violation(fp, {"engine": case["_engine"], "case": {k: v for k, v in case.items() if k != "_engine"}}, got, exp, what)
    else:
        res.ok("digest==ref" + ("(undefined->refused)" if exp is None else ""), nontrivial=key)


def run_scripts(case):
    from buidl.script import RedeemScript, WitnessScript

    res = Res()
    case = dict(case, _engine="scripts")
    dim = case["dim"]
    if dim == "script":
        cls, sc = script_alphabet()[case["script"]]
        carrier = case["carrier"]
        if carrier == "p2sh" and not 0 < len(sc) <= 520:
            res.skip("redeem script that cannot be pushed (empty or > 520 bytes)")
            return res
        annex = ANNEXES[case["annex"]]
        for idx in (0, 1):
            tx, spent = make_abstract(2, 2, idx, "p2pkh", None, 1 + idx)
            amt = spent[idx][0]
            direct = None
            if carrier == "p2sh":
                tx["ins"][idx].update(script=b"\x00" + txref.push(sc), witness=[])
                spent[idx] = (amt, b"\xa9\x14" + txref.h160(sc) + b"\x87")
                ref = lambda ht: txref.sighash_legacy(tx, idx, sc, ht)
                direct = lambda l, ht: l.sig_hash_legacy(idx, RedeemScript.convert(sc), ht)
                hts = LEGACY_HTS
            elif carrier == "bare":
                tx["ins"][idx].update(script=b"", witness=[])
                spent[idx] = (amt, sc)
                ref = lambda ht: txref.sighash_legacy(tx, idx, sc, ht)
                direct = lambda l, ht: l.sig_hash_legacy(idx, None, ht)
                hts = LEGACY_HTS
            elif carrier == "p2wsh":
                tx["ins"][idx].update(script=b"", witness=[b"", b"\x30\x02", sc])
                spent[idx] = (amt, b"\x00\x20" + txref.sha256(sc))
                ref = lambda ht: txref.sighash_bip143(tx, idx, sc, amt, ht)
                direct = lambda l, ht: l.sig_hash_bip143(idx, witness_script=WitnessScript.convert(sc), hash_type=ht)
                hts = LEGACY_HTS
            elif carrier == "p2sh-p2wsh":
                redeem = b"\x00\x20" + txref.sha256(sc)
                tx["ins"][idx].update(script=txref.push(redeem), witness=[b"", sc])
                spent[idx] = (amt, b"\xa9\x14" + txref.h160(redeem) + b"\x87")
                ref = lambda ht: txref.sighash_bip143(tx, idx, sc, amt, ht)
                direct = lambda l, ht: l.sig_hash_bip143(idx, redeem_script=RedeemScript.convert(redeem), witness_script=WitnessScript.convert(sc), hash_type=ht)
                hts = LEGACY_HTS
            else:
                tx["ins"][idx].update(script=b"", witness=[SIG64, sc, CB] + ([annex] if annex else []))
                spent[idx] = (amt, b"\x51\x20" + XONLY)
                ref = lambda ht: txref.sighash_bip341(tx, idx, spent, ht, annex=annex, leaf_hash=txref.tapleaf_hash(sc, 0xC0))
                direct = lambda l, ht: l.sig_hash_bip341(idx, ext_flag=1, hash_type=ht)
                hts = TAP_HTS
            for ht in hts:
                exp = ref(ht)
                ltx = build_lib(tx, spent)
                got = {"sig_hash": norm(attempt(ltx.sig_hash, idx, ht)), "direct": norm(attempt(direct, ltx, ht))}
                for route, val in got.items():
                    fp = f"C05/scripts/script-code/{carrier}/{cls}" + (f"/annex-len-{case['annex']}" if annex and case["annex"] != "4" else "")
                    _cmp(res, fp, case, val, exp, (case["script"], carrier, case["annex"], idx, ht, route), f"{route} (input {idx}, hash type {ht:#x}) != reference digest for script code '{case['script']}' carried as {carrier}")
        return res
    kind, shape = case["kind"], case["shape"]
    hts = TAP_HTS if kind.startswith("p2tr") else LEGACY_HTS
    if dim == "spent-spk":
        # ANOTHER input spends an output with an odd scriptPubKey (BIP341 commits to every spent scriptPubKey)
        tx, spent = make_abstract(3, 3, 1, kind, shape, len(case["spk"]) % 4)
        spent[0] = (spent[0][0], ODD_SPKS[case["spk"]])
        tx["ins"][0].update(script=b"", witness=[])
        fp = f"C05/scripts/spent-spk-of-other-input/{case['spk']}"
        idx = 1
    elif dim == "output-script":
        tx, spent = make_abstract(2, 3, 1, kind, shape, 1)
        tx["outs"][0]["script"] = b"\x6a\x4d\x00\x01" + bytes(256)
        tx["outs"][1]["script"] = long_script(65536)
        tx["outs"][2]["script"] = b"\x4c\x01\x07"
        fp = "C05/scripts/output-script/long-or-noncanonical"
        idx = 1
    else:
        tx, spent = make_abstract(2, 2, 1, kind, shape, 2)
        assert tx["ins"][1]["witness"][-1] == ANNEX
        tx["ins"][1]["witness"][-1] = ANNEXES[case["annex"]]
        fp = f"C05/scripts/annex-len-{case['annex']}"
        idx = 1
    for ht in hts:
        exp = ref_digest_tx(tx, spent, idx, kind, ht)
        ltx = build_lib(tx, spent)
        for route, val in lib_digests(ltx, idx, kind, shape, ht).items():
            _cmp(res, fp + f"/{algo_of(kind)}", case, val, exp, (repr(sorted(case.items())), ht, route), f"{route} (hash type {ht:#x}) != reference digest")
    return res


def algo_of(kind):
    return "legacy" if kind in ("p2pkh", "p2sh-ms") else ("bip341" if kind.startswith("p2tr") else "bip143")


def ref_digest_tx(tx, spent, idx, kind, ht):
    """like ref_digest, but the taproot witness (annex, script, control block) is read from the abstract tx"""
    if not kind.startswith("p2tr"):
        return ref_digest(tx, spent, idx, kind, None, ht)
    w = list(tx["ins"][idx]["witness"])
    annex = None
    if len(w) >= 2 and w[-1] and w[-1][0] == 0x50:
        annex = w.pop()
    if kind == "p2tr-key":
        return txref.sighash_bip341(tx, idx, spent, ht, annex=annex)
    return txref.sighash_bip341(tx, idx, spent, ht, annex=annex, leaf_hash=txref.tapleaf_hash(w[-2], w[-1][0] & 0xFE))


# ------------------------------------------------------------------ E1 fields: scalar extremes x object builders
FIELD_VALUES = {
    "version": [0, 0x7FFFFFFF, 0x80000000, 0xFFFFFFFF],
    "locktime": [499999999, 500000000, 0x80000000, 0xFFFFFFFF],
    "sequence": [0x80000000, 0x00400001, 0xFFFFFFFD, 0x7FFFFFFF],
    "prev_index": [256, 0x7FFFFFFF, 0x80000000, 0xFFFFFFFF],
    "spent_amount": [2**63 - 1, 2**62, 2**32 - 1, 21 * 10**14],
    "out_amount": [2**63 - 1, 2**32, 21 * 10**14, 0],
}
BUILDERS = ["ctor/mainnet", "ctor-segwit-false/testnet", "parse-segwit/mainnet", "parse-segwit/testnet", "parse-segwit/signet", "parse-legacy/mainnet"]


def field_settings():
    out = [{"name": f"{f}={v:#x}", "field": f, "set": {f: v}} for f, vs in FIELD_VALUES.items() for v in vs]
    for k in range(4):
        out.append({"name": f"all-extreme-{k}", "field": "all", "set": {f: vs[k] for f, vs in FIELD_VALUES.items()}})
    out.append({"name": "plain", "field": "none", "set": {}})
    return out


def gen_fields(tier, seed):
    return [{"kind": k, "shape": s, "setting": i} for (k, s) in ALL_KIND_SHAPES for i in range(len(field_settings()))]


def build_lib_via(builder, tx, spent):
    from io import BytesIO
    from buidl.script import ScriptPubKey
    from buidl.tx import Tx
    from buidl.witness import Witness

    how, net = builder.split("/")
    if how == "ctor":
        ltx = build_lib(tx, spent)
        ltx.network = net
        return ltx
    if how == "ctor-segwit-false":
        ltx = build_lib(tx, spent)
        ltx.network, ltx.segwit = net, False
        return ltx
    raw = txref.ser_tx(dict(tx, segwit=(how == "parse-segwit")))
    ltx = Tx.parse(BytesIO(raw), network=net)
    for ti, inp, (amt, spk) in zip(ltx.tx_ins, tx["ins"], spent):
        ti._value = amt
        ti._script_pubkey = ScriptPubKey.parse(BytesIO(txref.varbytes(spk)))
        if how == "parse-legacy":
            ti.witness = Witness(list(inp["witness"]))  # the legacy wire form has no witness: attached afterwards
    return ltx


def run_fields(case):
    res = Res()
    case = dict(case, _engine="fields")
    kind, shape = case["kind"], case["shape"]
    st = field_settings()[case["setting"]]
    nin, nout, idx = [(2, 2, 0), (2, 2, 1), (3, 1, 2)][case["setting"] % 3]
    tx, spent = make_abstract(nin, nout, idx, kind, shape, case["setting"] % 4)
    s = st["set"]
    tx["version"] = s.get("version", tx["version"])
    tx["locktime"] = s.get("locktime", tx["locktime"])
    for i in tx["ins"]:
        i["seq"] = s.get("sequence", i["seq"])
        i["index"] = s.get("prev_index", i["index"])
    if "spent_amount" in s:
        spent = [(s["spent_amount"], spk) for _, spk in spent]
    for o in tx["outs"]:
        o["amount"] = s.get("out_amount", o["amount"])
    hts = TAP_HTS if kind.startswith("p2tr") else LEGACY_HTS
    for ht in hts:
        exp = ref_digest(tx, spent, idx, kind, shape, ht)
        base_bad = False
        for builder in BUILDERS:
            ltx = attempt(build_lib_via, builder, tx, spent)
            got = lib_digests(ltx, idx, kind, shape, ht) if not isinstance(ltx, Rejected) else {"build": None}
            for route, val in got.items():
                if builder == BUILDERS[0]:
                    fp = f"C05/fields/{st['field']}/{algo_of(kind)}"
                    base_bad = base_bad or val != exp
                elif base_bad:
                    continue  # already reported for the plain constructor
                else:
                    fp = f"C05/fields/builder/{builder.split('/')[0]}/{algo_of(kind)}"
                _cmp(res, fp, case, val, exp, (kind, shape, st["name"], ht, builder, route), f"{route} on an object built by {builder} with {st['name']} (hash type {ht:#x}) != reference digest")
    return res


# ------------------------------------------------------------------ E1 routes: what is signed / checked is the reference digest
def route_keys(seed):
    """three secrets (seed-dependent filler), their compressed SECs and x-only keys, all from the reference curve code"""
    from mc.core import filler_int

    C = ec.SECP
    ds = [filler_int(seed, "c05-route-key", i, 1, C.n - 1) for i in range(3)]
    pts = [C.mulg(d) for d in ds]
    return ds, [C.sec(P) for P in pts], [ec.b32(P[0]) for P in pts]


def tap_internal(seed, parity):
    """an internal secret whose output key for the two-leaf tree of route_tree has the requested parity"""
    from mc.core import filler_int

    C = ec.SECP
    i = 0
    while True:
        d = filler_int(seed, "c05-route-internal", i, 1, C.n - 1)
        x = C.mulg(d)[0]
        t = C.taproot_tweak(x, route_tree(seed)["root"])
        if t is not None and t[1] == parity:
            return d, x, t
        i += 1


def route_tree(seed):
    _, _, xs = route_keys(seed)
    leaf_a = txref.push(xs[0]) + b"\xac"  # <k0> CHECKSIG
    leaf_b = txref.push(xs[0]) + b"\xac" + txref.push(xs[1]) + b"\xba" + b"\x52\x87"  # <k0> CHECKSIG <k1> CHECKSIGADD 2 EQUAL
    ha, hb = txref.tapleaf_hash(leaf_a), txref.tapleaf_hash(leaf_b)
    root = txref.tagged("TapBranch", min(ha, hb) + max(ha, hb))
    return {"a": leaf_a, "b": leaf_b, "ha": ha, "hb": hb, "root": root}


ROUTE_SINGLE_KINDS = ["p2pkh", "p2sh-ms", "p2wpkh", "p2sh-p2wpkh", "p2wsh-ms", "p2sh-p2wsh-ms"]
MS_CARRIERS = ["p2sh", "p2wsh", "p2sh-p2wsh"]


def route_shapes(tier):
    # (nin, nout, idx, variant); the last two have no output with the index of the input (SINGLE rules)
    q = [(2, 2, 1, 1), (2, 1, 1, 2)]
    return q if tier == "quick" else q + [(1, 1, 0, 0), (3, 3, 1, 3), (2, 0, 0, 3), (4, 4, 3, 0)]


def gen_routes(tier, seed):
    cases = []
    for sh in route_shapes(tier):
        for kind in ROUTE_SINGLE_KINDS:
            for ht in LEGACY_HTS:
                cases.append({"r": "single", "kind": kind, "shape": list(sh), "ht": ht, "seed": seed})
            cases.append({"r": "get_sig", "kind": kind, "shape": list(sh), "seed": seed})
        for ht in TAP_HTS:
            cases.append({"r": "tap-key", "shape": list(sh), "ht": ht, "seed": seed})
            for leaf in ("a", "b"):
                for parity in (0, 1):
                    for annex in (False, True):
                        if tier == "quick" and sh != route_shapes(tier)[0] and (parity, annex) != (1, True):
                            continue
                        cases.append({"r": "tap-script", "leaf": leaf, "parity": parity, "annex": annex, "shape": list(sh), "ht": ht, "seed": seed})
    ms_shapes = route_shapes(tier)[:1] if tier == "quick" else [route_shapes(tier)[i] for i in (0, 1, 4)]
    for sh in ms_shapes:
        for carrier in MS_CARRIERS:
            for mn in ([(2, 2)] if tier == "quick" else [(2, 2), (2, 3), (3, 3)]):
                for ha in LEGACY_HTS:
                    for hb in LEGACY_HTS:
                        cases.append({"r": "multisig-mixed", "carrier": carrier, "m": mn[0], "n": mn[1], "hts": [ha, hb], "shape": list(sh), "seed": seed})
    for c in cases:
        c["tier"] = tier
    return cases


def _ecdsa(d, digest, ht):
    r, s = ec.SECP.ecdsa_sign(d, int.from_bytes(digest, "big"))
    return ec.der_sig(r, s) + bytes([ht])


def _schnorr(d, digest, ht):
    return ec.SECP.schnorr_sign(d, digest, b"\x00" * 32) + (bytes([ht]) if ht else b"")


def _truth(v):
    """verify_input / check_sig verdict: anything but True (False, None, exception) is a refusal"""
    return v is True


def route_single_setup(kind, shape, seed):
    """-> tx, spent, idx, script_code, ref(ht), place(ltx, [sigs]) for the kinds signed by ONE key (multisig: 1-of-2)"""
    nin, nout, idx, variant = shape
    ds, secs, _ = route_keys(seed)
    h20 = txref.h160(secs[0])
    p2pkh = b"\x76\xa9\x14" + h20 + b"\x88\xac"
    ms = b"\x51" + txref.push(secs[0]) + txref.push(secs[1]) + b"\x52\xae"
    tx, spent = make_abstract(nin, nout, idx, "p2pkh", None, variant)
    amt = spent[idx][0]
    if kind == "p2pkh":
        spk, sc = p2pkh, p2pkh
    elif kind == "p2sh-ms":
        spk, sc = b"\xa9\x14" + txref.h160(ms) + b"\x87", ms
    elif kind == "p2wpkh":
        spk, sc = b"\x00\x14" + h20, p2pkh
    elif kind == "p2sh-p2wpkh":
        spk, sc = b"\xa9\x14" + txref.h160(b"\x00\x14" + h20) + b"\x87", p2pkh
    elif kind == "p2wsh-ms":
        spk, sc = b"\x00\x20" + txref.sha256(ms), ms
    else:
        spk, sc = b"\xa9\x14" + txref.h160(b"\x00\x20" + txref.sha256(ms)) + b"\x87", ms
    tx["ins"][idx].update(script=b"", witness=[])
    spent[idx] = (amt, spk)
    legacy = kind in ("p2pkh", "p2sh-ms")
    ref = (lambda ht: txref.sighash_legacy(tx, idx, sc, ht)) if legacy else (lambda ht: txref.sighash_bip143(tx, idx, sc, amt, ht))
    return tx, spent, idx, ms, h20, ref


def route_place(ltx, idx, kind, sigs, secs, ms, h20):
    """finalize input idx with the library's own finalisers"""
    from buidl.script import RedeemScript, WitnessScript

    ti = ltx.tx_ins[idx]
    if kind == "p2pkh":
        ti.finalize_p2pkh(sigs[0], secs[0])
    elif kind == "p2wpkh":
        ti.finalize_p2wpkh(sigs[0], secs[0])
    elif kind == "p2sh-p2wpkh":
        ti.finalize_p2wpkh(sigs[0], secs[0], RedeemScript.convert(b"\x00\x14" + h20))
    elif kind in ("p2sh-ms", "p2sh"):
        ti.finalize_p2sh_multisig(sigs, RedeemScript.convert(ms))
    elif kind in ("p2wsh-ms", "p2wsh"):
        ti.finalize_p2wsh_multisig(sigs, WitnessScript.convert(ms))
    else:
        ti.finalize_p2sh_p2wsh_multisig(sigs, WitnessScript.convert(ms))


def run_routes(case):
    from buidl.ecc import PrivateKey, S256Point, Signature
    from buidl.script import RedeemScript, WitnessScript
    from buidl.witness import Witness

    res = Res()
    C = ec.SECP
    seed = case["seed"]
    ds, secs, xs = route_keys(seed)
    vc = {"engine": "routes", "case": case}
    r = case["r"]

    def expect(fp, got, want, key, what):
        if got != want:
            res.violation(fp, vc, got, want, what)
        else:
            res.ok(f"{r}:{'accepted' if want else 'refused'}" if isinstance(want, bool) else f"{r}:ok", nontrivial=key)

    if r in ("single", "get_sig"):
        kind = case["kind"]
        tx, spent, idx, ms, h20, ref = route_single_setup(kind, case["shape"], seed)
        legacy = kind in ("p2pkh", "p2sh-ms")
        rs = {"p2sh-ms": ms, "p2sh-p2wpkh": b"\x00\x14" + h20, "p2sh-p2wsh-ms": b"\x00\x20" + txref.sha256(ms)}.get(kind)
        ws = ms if "wsh" in kind else None
        conv = lambda cls, b: cls.convert(b) if b is not None else None
        if r == "get_sig":
            ltx = build_lib(tx, spent)
            if legacy:
                sig = attempt(lambda: ltx.get_sig_legacy(idx, PrivateKey(ds[0]), redeem_script=conv(RedeemScript, rs)))
            else:
                sig = attempt(lambda: ltx.get_sig_segwit(idx, PrivateKey(ds[0]), redeem_script=conv(RedeemScript, rs), witness_script=conv(WitnessScript, ws)))
            good = False
            if isinstance(sig, bytes) and len(sig) > 8 and sig[-1] == 1:
                rsv = ec.der_parse_strict(sig[:-1])
                good = bool(rsv) and C.ecdsa_verify(C.mulg(ds[0]), int.from_bytes(ref(1), "big"), rsv[0], rsv[1])
            expect(f"C05/routes/get_sig/{kind}", good, True, (kind, tuple(case["shape"])), "the signature returned by get_sig_legacy/get_sig_segwit is not a SIGHASH_ALL signature over the reference digest")
            return res
        ht = case["ht"]
        d_ref = ref(ht)
        other = LEGACY_HTS[(LEGACY_HTS.index(ht) + 1) % 6]
        d_other = ref(other)
        for label, digest, want in (("reference-digest", d_ref, True), ("digest-of-another-hash-type", d_other, False)):
            if not want and d_other == d_ref:
                res.skip("neighbouring hash type has the same digest (SINGLE without output)")
                continue
            sig = _ecdsa(ds[0], digest, ht)
            ltx = build_lib(tx, spent)
            sobj = Signature.parse(sig[:-1])
            pt = S256Point.parse(secs[0])
            if legacy:
                got = attempt(lambda: ltx.check_sig_legacy(idx, pt, sobj, conv(RedeemScript, rs), ht))
            else:
                got = attempt(lambda: ltx.check_sig_segwit(idx, pt, sobj, conv(RedeemScript, rs), conv(WitnessScript, ws), ht))
            verdict = "rejects-reference-digest" if want else "accepts-other-digest"
            expect(f"C05/routes/check_sig/{algo_of(kind)}/{verdict}", _truth(got), want, ("cs", kind, tuple(case["shape"]), ht, label), f"check_sig_* with a signature over the {label} (hash type {ht:#x})")
            ltx = build_lib(tx, spent)
            attempt(route_place, ltx, idx, kind, [sig], secs, ms, h20)
            got = attempt(ltx.verify_input, idx)
            expect(f"C05/routes/verify_input/{kind}/{verdict}", _truth(got), want, ("vi", kind, tuple(case["shape"]), ht, label), f"verify_input with a signature over the {label}, sighash byte {ht:#x}")
        return res

    if r == "multisig-mixed":
        nin, nout, idx, variant = case["shape"]
        m, n = case["m"], case["n"]
        carrier = case["carrier"]
        ms = bytes([0x50 + m]) + b"".join(txref.push(s) for s in secs[:n]) + bytes([0x50 + n]) + b"\xae"
        tx, spent = make_abstract(nin, nout, idx, "p2pkh", None, variant)
        amt = spent[idx][0]
        tx["ins"][idx].update(script=b"", witness=[])
        if carrier == "p2sh":
            spent[idx] = (amt, b"\xa9\x14" + txref.h160(ms) + b"\x87")
            ref = lambda ht: txref.sighash_legacy(tx, idx, ms, ht)
        elif carrier == "p2wsh":
            spent[idx] = (amt, b"\x00\x20" + txref.sha256(ms))
            ref = lambda ht: txref.sighash_bip143(tx, idx, ms, amt, ht)
        else:
            spent[idx] = (amt, b"\xa9\x14" + txref.h160(b"\x00\x20" + txref.sha256(ms)) + b"\x87")
            ref = lambda ht: txref.sighash_bip143(tx, idx, ms, amt, ht)
        ha, hb = case["hts"]
        signers = [0, n - 1] if m == 2 else [0, 1, 2]  # in key order, as CHECKMULTISIG demands
        hts = [ha, hb] if m == 2 else [ha, hb, ha]
        own = [_ecdsa(ds[k], ref(h), h) for k, h in zip(signers, hts)]
        ltx = build_lib(tx, spent)
        attempt(route_place, ltx, idx, carrier, own, secs, ms, None)
        got = attempt(ltx.verify_input, idx)
        expect("C05/routes/multisig-mixed-hashtypes/rejects-reference-digests", _truth(got), True, ("mm", carrier, m, n, ha, hb, tuple(case["shape"])), f"{m}-of-{n} CHECKMULTISIG whose signatures carry the sighash bytes {[hex(h) for h in hts]}, each made over the reference digest of its own byte")
        if ref(ha) != ref(hb):
            # the first signature is made over the digest of the OTHER signature's hash type, the second likewise
            # (quick: the first signature only; the ordered pair (hb, ha) crosses the other one)
            for pos in ((0,) if case["tier"] == "quick" else (0, 1)):
                crossed = list(own)
                crossed[pos] = _ecdsa(ds[signers[pos]], ref(hts[1 - pos]), hts[pos])
                ltx = build_lib(tx, spent)
                attempt(route_place, ltx, idx, carrier, crossed, secs, ms, None)
                got = attempt(ltx.verify_input, idx)
                expect("C05/routes/multisig-mixed-hashtypes/accepts-digest-of-other-signatures-hashtype", _truth(got), False, ("mx", carrier, m, n, ha, hb, pos, tuple(case["shape"])), f"signature {pos} (sighash byte {hts[pos]:#x}) was made over the digest for {hts[1 - pos]:#x}")
        elif ha != hb:
            res.skip("both hash types have the same digest (SINGLE without output)")
        return res

    # ---- taproot
    nin, nout, idx, variant = case["shape"]
    ht = case["ht"]
    tx, spent = make_abstract(nin, nout, idx, "p2pkh", None, variant)
    amt = spent[idx][0]
    if r == "tap-key":
        x = xs[2]
        Q, parity, t = C.taproot_tweak(int.from_bytes(x, "big"))
        P = C.mulg(ds[2])
        dd = ds[2] if C.has_even_y(P) else C.n - ds[2]
        dq = (dd + t) % C.n  # secret of the output key
        spk = b"\x51\x20" + ec.b32(Q[0])
        spent[idx] = (amt, spk)
        tx["ins"][idx].update(script=b"", witness=[])
        d0 = txref.sighash_bip341(tx, idx, spent, ht)
        key = ("tk", tuple(case["shape"]), ht)
        # signing routes
        ltx = build_lib(tx, spent)
        sig = attempt(lambda: ltx.get_sig_taproot(idx, PrivateKey(dq), hash_type=ht))
        if d0 is None:
            ok = not (isinstance(sig, bytes) and len(sig) in (64, 65))
            expect("C05/routes/get_sig_taproot/undefined-digest-signed", ok, True, key + ("gs",), "get_sig_taproot returned a signature although the digest is undefined (SINGLE without output)")
            ltx = build_lib(tx, spent)
            got = attempt(lambda: ltx.sign_p2tr_keypath(idx, PrivateKey(dq), hash_type=ht))
            expect("C05/routes/sign_p2tr_keypath/undefined-digest-signed", _truth(got), False, key + ("sp",), "sign_p2tr_keypath reports a valid spend although the digest is undefined")
            return res
        good = isinstance(sig, bytes) and len(sig) == (65 if ht else 64) and (not ht or sig[-1] == ht) and C.schnorr_verify(ec.b32(Q[0]), d0, sig[:64])
        expect("C05/routes/get_sig_taproot/not-over-reference-digest", good, True, key + ("gs",), f"get_sig_taproot(hash_type={ht:#x}) is not a BIP340 signature over the reference BIP341 digest")
        ltx = build_lib(tx, spent)
        got = attempt(lambda: ltx.sign_p2tr_keypath(idx, PrivateKey(dq), hash_type=ht))
        expect("C05/routes/sign_p2tr_keypath/own-signature-not-valid", _truth(got), True, key + ("sp",), "sign_p2tr_keypath does not report a valid spend")
        other = TAP_HTS[(TAP_HTS.index(ht) + 1) % 7]
        d_other = txref.sighash_bip341(tx, idx, spent, other)
        txa = dict(tx, ins=[dict(i) for i in tx["ins"]])
        txa["ins"][idx]["witness"] = [SIG64, ANNEX]
        d_annex = txref.sighash_bip341(txa, idx, spent, ht, annex=ANNEX)
        for label, digest, wit_tail, want in (
            ("reference-digest", d0, [], True),
            ("digest-of-another-hash-type", d_other, [], False),
            ("digest-without-annex", d0, [ANNEX], False),
            ("reference-digest-with-annex", d_annex, [ANNEX], True),
        ):
            if digest is None or (not want and digest == (d_annex if wit_tail else d0)):
                res.skip("comparison digest undefined")
                continue
            ltx = build_lib(tx, spent)
            ltx.tx_ins[idx].witness = Witness([_schnorr(dq, digest, ht)] + wit_tail)
            got = attempt(ltx.verify_input, idx)
            verdict = "rejects-reference-digest" if want else "accepts-other-digest"
            expect(f"C05/routes/verify_input/p2tr-key/{verdict}", _truth(got), want, key + (label,), f"key path spend signed over the {label}, sighash byte {ht:#x}")
        return res

    # tap-script
    tree = route_tree(seed)
    di, ix, (Q, parity, t) = tap_internal(seed, case["parity"])
    leaf = tree[case["leaf"]]
    sibling = tree["hb"] if case["leaf"] == "a" else tree["ha"]
    cb = bytes([0xC0 | parity]) + ec.b32(ix) + sibling
    annex = ANNEX if case["annex"] else None
    signers = [0] if case["leaf"] == "a" else [1, 0]  # witness order: the signature consumed last comes first
    tail = [leaf, cb] + ([annex] if annex else [])
    spent[idx] = (amt, b"\x51\x20" + ec.b32(Q[0]))
    tx["ins"][idx].update(script=b"", witness=[SIG64] * len(signers) + tail)
    d_leaf = txref.sighash_bip341(tx, idx, spent, ht, annex=annex, leaf_hash=txref.tapleaf_hash(leaf))
    d_key = txref.sighash_bip341(tx, idx, spent, ht, annex=annex)
    d_sib = txref.sighash_bip341(tx, idx, spent, ht, annex=annex, leaf_hash=sibling)
    d_flip = txref.sighash_bip341(tx, idx, spent, ht, annex=None if annex else ANNEX, leaf_hash=txref.tapleaf_hash(leaf))
    key = ("ts", case["leaf"], case["parity"], case["annex"], tuple(case["shape"]), ht)
    if d_leaf is None:
        ltx = build_lib(tx, spent)
        ltx.tx_ins[idx].witness = Witness([_schnorr(ds[k], b"\x00" * 32, ht) for k in signers] + tail)
        got = attempt(ltx.verify_input, idx)
        expect("C05/routes/verify_input/p2tr-script/accepts-undefined-digest", _truth(got), False, key, "script path spend accepted although the digest is undefined (SINGLE without output)")
        return res
    for label, digest, want in (("reference-digest", d_leaf, True), ("key-path-digest", d_key, False), ("digest-of-the-sibling-leaf", d_sib, False), ("digest-with-annex-presence-flipped", d_flip, False)):
        if case["tier"] == "quick" and case["leaf"] == "b" and label in ("digest-of-the-sibling-leaf", "digest-with-annex-presence-flipped"):
            continue
        ltx = build_lib(tx, spent)
        ltx.tx_ins[idx].witness = Witness([_schnorr(ds[k], digest, ht) for k in signers] + tail)
        got = attempt(ltx.verify_input, idx)
        verdict = "rejects-reference-digest" if want else "accepts-other-digest"
        expect(f"C05/routes/verify_input/p2tr-script/{verdict}", _truth(got), want, key + (label,), f"script path spend (leaf {case['leaf']}, control-block parity {parity}, annex {bool(annex)}) signed over the {label}, sighash byte {ht:#x}")
    return res


# ------------------------------------------------------------------ E2 fetch-history: spent outputs looked up by outpoint
MS2 = bytes([0x52]) + txref.push(PK1) + txref.push(PK2) + bytes([0x52, 0xAE])  # 2-of-2, the alternative script code
TAPSCRIPT2 = txref.push(bytes(range(10, 42))) + b"\xad\x51"
OUT0_RAW = b"\x76\xa9\x4c\x14" + H20 + b"\x88\xac"  # P2PKH-shaped, the hash pushed with OP_PUSHDATA1: kept as raw bytes by Script.parse
OUT0_EDITS = [bytes(range(201, 221)), bytes(range(221, 241))]


def _p2sh(script):
    return b"\xa9\x14" + txref.h160(script) + b"\x87"


def fh_funding():
    """name -> abstract funding tx (legacy wire form) with two outputs: [variant A, variant B] of the same kind"""

    def fund(tag, outs):
        return {"version": 1, "locktime": 0, "segwit": False, "ins": [{"prev": bytes([tag]) * 32, "index": 0, "script": b"\x51", "seq": 0xFFFFFFFF, "witness": []}], "outs": [{"amount": a, "script": s} for a, s in outs]}

    return {
        "F0": fund(1, [(1000, _p2sh(MS)), (2000, _p2sh(MS2))]),
        "F1": fund(2, [(2**40, _p2sh(b"\x00\x20" + txref.sha256(MS))), (2**41 + 5, _p2sh(b"\x00\x20" + txref.sha256(MS2)))]),
        "F2": fund(3, [(7, b"\x51\x20" + XONLY), (9, b"\x51\x20" + XONLY2)]),
        "F2b": fund(4, [(11, b"\x51\x20" + XONLY2), (13, b"\x51\x20" + XONLY)]),
        "F3": fund(5, [(55, b"\x76\xa9\x14" + H20 + b"\x88\xac"), (66, b"\x76\xa9\x14" + H20B + b"\x88\xac")]),
        "F4": fund(6, [(77777, b"\x00\x14" + H20), (88888, b"\x00\x14" + H20B)]),
    }


_FH_IDS = {}


def fh_ids():
    if not _FH_IDS:
        _FH_IDS.update({name: bytes.fromhex(txref.txid(f)) for name, f in fh_funding().items()})
    return _FH_IDS


def fh_base():
    ids = fh_ids()
    ins = [
        {"prev": ids["F0"], "index": 0, "script": b"\x00" + txref.push(MS), "seq": 0xFFFFFFFE, "witness": []},  # P2SH multisig
        {"prev": ids["F1"], "index": 0, "script": txref.push(b"\x00\x20" + txref.sha256(MS)), "seq": 5, "witness": [b"", b"\x30\x02", MS]},  # P2SH-P2WSH
        {"prev": ids["F2"], "index": 0, "script": b"", "seq": 0, "witness": [SIG64, TAPSCRIPT, CB]},  # P2TR script path
        {"prev": ids["F3"], "index": 0, "script": b"", "seq": 0xFFFFFFFF, "witness": []},  # P2PKH (script code = spent scriptPubKey)
    ]
    outs = [{"amount": 5000, "script": OUT0_RAW}, {"amount": 1, "script": b"\x00\x14" + H20}, {"amount": 0, "script": b"\x6a\x02hi"}]
    return {"version": 2, "locktime": 0, "segwit": True, "ins": ins, "outs": outs, "_out0_edit": None}


FH_QUERIES = [(0, 1), (0, 0x83), (1, 1), (1, 0x82), (2, 0), (2, 0x83), (3, 1), (3, 0x83), (4, 1), (4, 0x83)]
FH_EDITS = ["in0.prev_index", "in1.prev_index", "in3.prev_index", "in2.prev_tx", "in4.add-remove", "in0.redeem-inplace", "in1.wscript-inplace", "in2.tapscript-inplace", "in2.controlblock-inplace", "in2.annex-new-witness", "out0.commands-inplace", "out1.script-replace", "in1.replace-txin"]
FH_KIND = ["legacy", "bip143", "bip341", "legacy", "bip143"]
FH_EDIT_CLASS = {"in0.prev_index": "outpoint-edit", "in1.prev_index": "outpoint-edit", "in3.prev_index": "outpoint-edit", "in2.prev_tx": "outpoint-edit", "out0.commands-inplace": "inplace-commands-edit-of-raw-script"}


def fh_spent(tx):
    look = {i: f for i, f in zip(fh_ids().values(), fh_funding().values())}
    return [(look[i["prev"]]["outs"][i["index"]]["amount"], look[i["prev"]]["outs"][i["index"]]["script"]) for i in tx["ins"]]


def fh_ref(tx, q):
    i, ht = q
    if i >= len(tx["ins"]):
        return None
    spent = fh_spent(tx)
    inp = tx["ins"][i]
    if i == 0:
        items = interp_pushes(inp["script"])
        return txref.sighash_legacy(tx, 0, items[-1], ht)
    if i == 1:
        return txref.sighash_bip143(tx, 1, inp["witness"][-1], spent[1][0], ht)
    if i == 2:
        w = list(inp["witness"])
        annex = w.pop() if len(w) >= 2 and w[-1] and w[-1][0] == 0x50 else None
        return txref.sighash_bip341(tx, 2, spent, ht, annex=annex, leaf_hash=txref.tapleaf_hash(w[-2], w[-1][0] & 0xFE))
    if i == 3:
        return txref.sighash_legacy(tx, 3, spent[3][1], ht)
    return txref.sighash_bip143(tx, 4, b"\x76\xa9\x14" + spent[4][1][2:] + b"\x88\xac", spent[4][0], ht)


def interp_pushes(script):
    """data items of a push-only script made of OP_0 and direct / PUSHDATA1 / PUSHDATA2 pushes (what this engine builds)"""
    out, p = [], 0
    while p < len(script):
        op = script[p]
        p += 1
        if op == 0:
            out.append(b"")
            continue
        if op == 0x4C:
            n, p = script[p], p + 1
        elif op == 0x4D:
            n, p = int.from_bytes(script[p : p + 2], "little"), p + 2
        else:
            assert 1 <= op <= 75
            n = op
        out.append(script[p : p + n])
        p += n
    return out


def fh_edit(tx, ltx, e):
    """apply edit e to the abstract tx and to the library object"""
    from io import BytesIO
    from buidl.script import Script
    from buidl.tx import TxIn
    from buidl.witness import Witness

    ids = fh_ids()
    if e.endswith(".prev_index"):
        k = int(e[2])
        if k < len(tx["ins"]):
            tx["ins"][k]["index"] ^= 1
            ltx.tx_ins[k].prev_index ^= 1
    elif e == "in2.prev_tx":
        new = ids["F2b"] if tx["ins"][2]["prev"] == ids["F2"] else ids["F2"]
        tx["ins"][2]["prev"] = new
        ltx.tx_ins[2].prev_tx = new
    elif e == "in4.add-remove":
        if len(tx["ins"]) == 4:
            tx["ins"].append({"prev": ids["F4"], "index": 1, "script": b"", "seq": 0xFFFFFFFD, "witness": [b"\x30\x01", PK1]})
            ti = TxIn(ids["F4"], 1, Script(), 0xFFFFFFFD)
            ti.witness = Witness([b"\x30\x01", PK1])
            ltx.tx_ins.append(ti)
        else:
            tx["ins"].pop()
            ltx.tx_ins.pop()
    elif e == "in0.redeem-inplace":
        cur = interp_pushes(tx["ins"][0]["script"])[-1]
        new = MS2 if cur == MS else MS
        tx["ins"][0]["script"] = b"\x00" + txref.push(new)
        ltx.tx_ins[0].script_sig.commands[-1] = new
    elif e == "in1.wscript-inplace":
        w = tx["ins"][1]["witness"]
        w[-1] = MS2 if w[-1] == MS else MS
        ltx.tx_ins[1].witness.items[-1] = w[-1]
    elif e == "in2.tapscript-inplace":
        w = tx["ins"][2]["witness"]
        w[1] = TAPSCRIPT2 if w[1] == TAPSCRIPT else TAPSCRIPT
        ltx.tx_ins[2].witness.items[1] = w[1]
    elif e == "in2.controlblock-inplace":
        w = tx["ins"][2]["witness"]
        w[2] = CB1 if w[2] == CB else CB
        ltx.tx_ins[2].witness.items[2] = w[2]
    elif e == "in2.annex-new-witness":
        w = tx["ins"][2]["witness"]
        if len(w) == 4:
            w.pop()
        else:
            w.append(ANNEX)
        ltx.tx_ins[2].witness = Witness(list(w))
    elif e == "out0.commands-inplace":
        # never back to the parsed value: whether the original bytes come back with it is not part of the statement
        k = 0 if tx["_out0_edit"] != 0 else 1
        tx["_out0_edit"] = k
        tx["outs"][0]["script"] = txref.script_from_items([0x76, 0xA9, OUT0_EDITS[k], 0x88, 0xAC])
        ltx.tx_outs[0].script_pubkey.commands[2] = OUT0_EDITS[k]
    elif e == "out1.script-replace":
        s = tx["outs"][1]["script"]
        new = b"\x51" if s != b"\x51" else b"\x00\x14" + H20
        tx["outs"][1]["script"] = new
        ltx.tx_outs[1].script_pubkey = Script.parse(BytesIO(txref.varbytes(new)))
    elif e == "in1.replace-txin":
        a = tx["ins"][1]
        ti = TxIn(a["prev"], a["index"], Script.parse(BytesIO(txref.varbytes(a["script"]))), a["seq"])
        ti.witness = Witness(list(a["witness"]))
        ltx.tx_ins[1] = ti
    else:
        raise ValueError(e)


def fh_replay(hist):
    """fresh cache, fresh object (Tx.parse of the segwit wire form, testnet), events replayed.
    -> (ltx, abstract tx, observations: None for edits, (library digest, reference digest) for queries)"""
    import copy
    from io import BytesIO
    import buidl.tx as btx

    def no_network(*a, **k):
        raise RuntimeError("network access attempted: outpoint not in TxFetcher.cache")

    old_cache, old_urlopen = btx.TxFetcher.cache, btx.urlopen
    btx.urlopen = no_network
    try:
        # the way TxFetcher.load_cache fills the cache: id (hex) -> library Tx parsed from the raw transaction
        btx.TxFetcher.cache = {txref.txid(f): btx.Tx.parse(BytesIO(txref.ser_tx(f))) for f in fh_funding().values()}
        tx = copy.deepcopy(fh_base())
        ltx = btx.Tx.parse(BytesIO(txref.ser_tx(tx)), network="testnet")
        obs = []
        for ev in hist:
            if ev[0] == "q":
                q = tuple(ev[1])
                obs.append((norm(attempt(ltx.sig_hash, q[0], q[1])), fh_ref(tx, q)))
            else:
                fh_edit(tx, ltx, ev[1])
                obs.append(None)
        return ltx, tx, obs, fh_canon(ltx, tx)
    finally:
        btx.TxFetcher.cache, btx.urlopen = old_cache, old_urlopen


def fh_canon(ltx, tx):
    """everything a later query can read: content, what each TxIn remembers about its spent output, memo fields of the
    Tx, and whether scripts still carry parsed bytes"""

    def memo(ti, name):
        v = ti.__dict__.get(name)
        if isinstance(v, tuple):  # (outpoint, value)
            tag, v = repr(v[0]), v[1]
        else:
            tag = ""
        if hasattr(v, "raw_serialize"):
            v = attempt(v.raw_serialize)
        return (tag, repr(v))

    per_in = tuple((memo(ti, "_value"), memo(ti, "_script_pubkey"), bool(getattr(ti.script_sig, "raw", None))) for ti in ltx.tx_ins)
    outs = tuple(bool(getattr(o.script_pubkey, "raw", None)) for o in ltx.tx_outs)
    return (txref.ser_tx({k: v for k, v in tx.items() if not k.startswith("_")}), tx["_out0_edit"], per_in, outs, tuple(repr(getattr(ltx, n, None)) for n in MEMO))


def fh_events():
    return [["q", list(q)] for q in FH_QUERIES] + [["e", e] for e in FH_EDITS]


def gen_fetch_history(tier, seed):
    depth = 3 if tier == "quick" else 4
    return [{"first": ev, "depth": depth} for ev in fh_events()]


def fh_classify(hist):
    """name the edit without which the last query agrees with the reference (first such edit), and whether an earlier
    query is needed (stale state) or not (wrong on a fresh object with the same edits)"""
    last = hist[-1]
    edits = [h for h in hist if h[0] == "e"]
    fresh = fh_replay(edits + [last])[2][-1]
    mode = "stale-after" if fresh[0] == fresh[1] else "wrong-after"
    blamed, weak = None, None
    for name in dict.fromkeys(h[1] for h in edits):
        reduced = [h for h in hist if not (h[0] == "e" and h[1] == name)]
        o = fh_replay(reduced)[2][-1]
        if o[0] == o[1] and o[1] is not None:
            blamed = name
            break
        if o[0] == o[1] and weak is None:
            weak = name  # agrees only because the queried input no longer exists
    blamed = blamed or weak
    if blamed is None:
        cls = "no-edit" if not edits else "unattributed"
    else:
        cls = FH_EDIT_CLASS.get(blamed, blamed.split(".", 1)[1])
    return f"{mode}/{cls}"


def run_fetch_history(case):
    import collections

    res = Res()
    events = fh_events()
    depth = case["depth"]
    seen = set()
    frontier = collections.deque([[case["first"]]])
    if case.get("replay"):
        frontier = collections.deque([case["replay"]])
        depth = 0
    while frontier:
        hist = frontier.popleft()
        ltx, tx, obs, key = fh_replay(hist)
        res.transitions += 1
        last = obs[-1]
        if last is not None and last[0] != last[1]:
            q = hist[-1][1]
            cls = fh_classify(hist)
            res.violation(
                f"C05/fetch-history/{cls}/{FH_KIND[q[0]]}",
                {"engine": "fetch-history", "case": dict({k: v for k, v in case.items() if k != "replay"}, replay=hist)},
                last[0],
                last[1],
                f"Tx.sig_hash{tuple(q)} after history {hist[:-1]} differs from the reference on the current transaction and the outputs its current outpoints spend (TxFetcher.cache)",
            )
            continue
        if key in seen:
            continue
        seen.add(key)
        res.states += 1
        if last is not None:
            res.ok("query==ref" + ("(undefined->refused)" if last[1] is None else ""), nontrivial=repr(hist) if any(h[0] == "e" for h in hist[:-1]) else None, sample={"history": hist} if len(hist) == 3 and hist[0][0] == "q" and hist[1][0] == "e" else None)
        if len(hist) < depth:
            for ev in events:
                frontier.append(hist + [ev])
    return res


def engines(tier, seed):
    return [
        Engine("digest", gen_digest, run_digest, kind="E1", rule="transactions with 1..4 inputs x 0..4 outputs (thorough 6x6) x every input index x 8 spent-output kinds x hash types {1,2,3,81,82,83} (+0 for taproot; +0 and 0x80 for the original algorithm and BIP143, which define them unambiguously) x taproot witness shapes (key path: [sig], [sig starting 0x50], [sig, annex], []; script path: with/without args and annex): Tx.sig_hash (dispatch) and the direct sig_hash_legacy/bip143/bip341 == reference digest (undefined digests must be refused)"),
        Engine("history", gen_history, run_history, kind="E2", rule="explicit-state BFS over histories of <= 4 (thorough 6) events on ONE Tx object: 18 digest queries (legacy/BIP143/BIP341 x 2 inputs x 3 hash types) and 8 edits (output amount, add/remove output, sequence, locktime, outpoint, spent value, annex, version); canonical state = (wire bytes, spent data, memo fields); invariant: every query equals the reference on the current content"),
        Engine("scripts", gen_scripts, run_scripts, kind="E1", rule="(a) 21 script codes (direct push / PUSHDATA1 / PUSHDATA2 / PUSHDATA4 of the same key, mixed, empty PUSHDATA1, 1-byte push of 01, three truncated pushes, 521-byte push, OP_0, empty script, 15-of-15 multisig (513 bytes), lengths 252 / 253 (OP_NOPs) and 65535 / 65536 (520-byte pushes padded with OP_NOPs), OP_SUCCESS80, 0xff, P2PKH) x 5 carriers (P2SH redeem script, P2WSH and P2SH-P2WSH witness script, bare scriptPubKey, tapscript leaf; tapscript also x annex length {none, 1, 253} (thorough: + 4, 252, 65536)) x both inputs of a 2-in 2-out tx x every standard hash type, through Tx.sig_hash and through the direct method; (b) 10 odd scriptPubKeys (empty, OP_RETURN, PUSHDATA1 look-alikes of P2WPKH / P2TR / P2SH, lengths 252 / 253 / 65536, truncated push) spent by ANOTHER input x 14 kind/witness shapes; (c) output scripts of 260 and 65536 bytes and a PUSHDATA1 one x 14 shapes; (d) annex lengths {1, 252, 253, 65536} x the annex-carrying taproot shapes. Oracle: reference digest over the raw bytes"),
        Engine("fields", gen_fields, run_fields, kind="E1", rule="14 kind/witness shapes x 29 settings (each of version, locktime, sequence, prev_index, spent amount, output amount set alone to 4 extreme values: 0 / 2^31-1 / 2^31 / 2^32-1, locktime threshold 499999999 / 500000000, sequence flag bits, amounts 2^63-1 / 2^62 / 2^32-1 / 21e14; 4 tuples with all fields extreme; 1 plain) x every standard hash type x 6 ways of building the object (constructor; constructor with segwit=False on testnet; Tx.parse of the segwit wire form on mainnet / testnet / signet; Tx.parse of the legacy wire form with the witness attached afterwards): Tx.sig_hash and the direct method == reference digest; a mismatch already present for the plain constructor is reported under the field, otherwise under the builder"),
        Engine("routes", gen_routes, run_routes, kind="E1", rule="keys: three seed-derived secrets; every signature is made by the REFERENCE curve code over the REFERENCE digest. Per tx shape (quick 2, thorough 6; half of them without an output at the input's index): (single) 6 ECDSA kinds x 6 hash types: check_sig_legacy / check_sig_segwit and verify_input (after the library finaliser) accept the signature over the reference digest and refuse one over the digest of the next hash type carrying the same sighash byte; (get_sig) get_sig_legacy / get_sig_segwit return a SIGHASH_ALL signature that the reference verifier accepts for the reference digest; (tap-key) 7 hash types: get_sig_taproot verifies under the reference BIP340 verifier for the reference BIP341 digest, sign_p2tr_keypath is True, verify_input accepts reference-digest signatures without and with annex and refuses other-hash-type and annex-less digests, undefined digests are never signed; (tap-script) real two-leaf tree (P2PK leaf, 2-of-2 CHECKSIGADD leaf) x control-block parity {0,1} x annex {no,yes} x 7 hash types: verify_input accepts signatures over the BIP342 digest of the executed leaf and refuses the key-path digest (and, for the P2PK leaf in quick / both in thorough, the sibling leaf's digest and the digest with annex presence flipped); (multisig-mixed) P2SH / P2WSH / P2SH-P2WSH m-of-n CHECKMULTISIG (quick 2-of-2; thorough + 2-of-3, 3-of-3) x all 36 ordered pairs of hash-type bytes: every signature over the digest of its own byte => True; one signature made over the digest of the other signature's hash type => False"),
        Engine("fetch-history", gen_fetch_history, run_fetch_history, kind="E2", rule="explicit-state BFS over histories of <= 3 (thorough 4) events on ONE Tx object built by Tx.parse (testnet) whose spent outputs are served by TxFetcher.cache (six funding transactions with two outputs each; urlopen replaced by a function that raises): 10 queries Tx.sig_hash(input, hash type) on a P2SH-multisig, a P2SH-P2WSH, a P2TR script-path, a P2PKH and an appended P2WPKH input, and 13 edits (prev_index of inputs 0 / 1 / 3, prev_tx of input 2, append / remove input 4, in-place replacement of the redeem script in scriptSig.commands, of the witness script, tapscript and control block in witness.items, a new Witness object with / without annex, in-place commands edit of an output script that Script.parse kept as raw bytes, replacement of an output script object, replacement of a TxIn object); canonical state = (wire bytes, per-input remembered spent output with the outpoint it belongs to, raw-bytes flags, memo fields); invariant: every query equals the reference digest on the current transaction and the outputs its CURRENT outpoints spend; a violation is attributed to the edit whose removal from the history makes the query agree"),
    ]
