"""C05 — signature hashes equal the Satoshi / BIP143 / BIP341 digests for every hash type, and depend only on
the current transaction content (no stale state on the object).

E1 digest:  product of tx shapes x input index x hash type x spent-output kind x taproot witness shape; every
            digest obtained through Tx.sig_hash (dispatch) and through the direct methods == reference.
E2 history: explicit-state search over interleavings of digest queries and edits on ONE Tx object; in every
            state every query must equal the reference evaluated on the current content.
"""
import itertools

from mc.core import Engine, Res, attempt, Rejected
from mc.ref import txref, ec

PROP = "C05"

H20 = bytes(range(1, 21))
PK1 = b"\x02" + bytes(range(40, 72))
PK2 = b"\x03" + bytes(range(80, 112))
MS = bytes([0x51]) + txref.push(PK1) + txref.push(PK2) + bytes([0x52, 0xAE])  # 1-of-2
TAPSCRIPT = txref.push(bytes(range(100, 132))) + b"\xac"
XONLY = bytes(range(150, 182))
LEGACY_HTS = [1, 2, 3, 0x81, 0x82, 0x83]
TAP_HTS = [0, 1, 2, 3, 0x81, 0x82, 0x83]
AMOUNTS = [0, 1, 2**32, 2**63 - 1, 5000000000]
KINDS = ["p2pkh", "p2sh-ms", "p2wpkh", "p2sh-p2wpkh", "p2wsh-ms", "p2sh-p2wsh-ms", "p2tr-key", "p2tr-script"]
TAP_KEY_SHAPES = ["sig", "sig50", "sig+annex", "empty"]
TAP_SCRIPT_SHAPES = ["script", "script+annex", "script-1arg", "script-1arg+annex"]
ANNEX = b"\x50\x01\x02\x03"
SIG64 = bytes(range(64))
SIG50 = b"\x50" + bytes(range(63))
CB = b"\xc0" + XONLY  # depth-0 control block
CB1 = b"\xc1" + XONLY + bytes(range(200, 232))


def kind_setup(kind, shape=None):
    """-> (spk bytes, scriptSig bytes, witness items, ref script_code)"""
    if kind == "p2pkh":
        spk = b"\x76\xa9\x14" + H20 + b"\x88\xac"
        return spk, b"", [], spk
    if kind == "p2sh-ms":
        return b"\xa9\x14" + txref.h160(MS) + b"\x87", b"\x00" + txref.push(MS), [], MS
    if kind == "p2wpkh":
        return b"\x00\x14" + H20, b"", [b"\x30\x01", PK1], b"\x76\xa9\x14" + H20 + b"\x88\xac"
    if kind == "p2sh-p2wpkh":
        redeem = b"\x00\x14" + H20
        return b"\xa9\x14" + txref.h160(redeem) + b"\x87", txref.push(redeem), [b"\x30\x01", PK1], b"\x76\xa9\x14" + H20 + b"\x88\xac"
    if kind == "p2wsh-ms":
        return b"\x00\x20" + txref.sha256(MS), b"", [b"", b"\x30\x02", MS], MS
    if kind == "p2sh-p2wsh-ms":
        redeem = b"\x00\x20" + txref.sha256(MS)
        return b"\xa9\x14" + txref.h160(redeem) + b"\x87", txref.push(redeem), [b"", b"\x30\x02", MS], MS
    spk = b"\x51\x20" + XONLY
    if kind == "p2tr-key":
        w = {"sig": [SIG64], "sig50": [SIG50], "sig+annex": [SIG64, ANNEX], "empty": []}[shape]
        return spk, b"", w, None
    w = {
        "script": [SIG64, TAPSCRIPT, CB],
        "script+annex": [SIG64, TAPSCRIPT, CB, ANNEX],
        "script-1arg": [TAPSCRIPT, CB1],
        "script-1arg+annex": [TAPSCRIPT, CB1, ANNEX],
    }[shape]
    return spk, b"", w, None


def make_abstract(nin, nout, idx, kind, shape, variant=0):
    """The input under test has `kind`; the others rotate through other kinds."""
    ins, spent = [], []
    others = ["p2pkh", "p2wpkh", "p2tr-key", "p2wsh-ms"]
    for i in range(nin):
        if i == idx:
            spk, ss, wit, _ = kind_setup(kind, shape)
        else:
            k = others[(i + variant) % 4]
            spk, ss, wit, _ = kind_setup(k, "sig")
        ins.append({"prev": bytes([17 * (i + 1) % 256]) * 31 + bytes([i]), "index": (i * 3 + variant) % 5, "script": ss, "seq": [0xFFFFFFFF, 0xFFFFFFFE, 0, 5][(i + variant) % 4], "witness": wit})
        spent.append((AMOUNTS[(i + variant) % len(AMOUNTS)], spk))
    outs = [{"amount": AMOUNTS[(o + 1 + variant) % len(AMOUNTS)], "script": [b"\x76\xa9\x14" + H20 + b"\x88\xac", b"\x00\x14" + H20, b"\x51\x20" + XONLY, b"\x6a\x02hi", b""][o % 5]} for o in range(nout)]
    tx = {"version": [1, 2][variant % 2], "locktime": [0, 500000001][variant % 2], "segwit": True, "ins": ins, "outs": outs}
    return tx, spent


def build_lib(tx, spent):
    from io import BytesIO
    from buidl.script import Script, ScriptPubKey
    from buidl.tx import Tx, TxIn, TxOut
    from buidl.witness import Witness

    tins = []
    for i, (inp, (amt, spk)) in enumerate(zip(tx["ins"], spent)):
        ti = TxIn(inp["prev"], inp["index"], Script.parse(BytesIO(txref.varbytes(inp["script"]))), inp["seq"])
        ti._value = amt
        ti._script_pubkey = ScriptPubKey.parse(BytesIO(txref.varbytes(spk)))
        ti.witness = Witness(list(inp["witness"]))
        tins.append(ti)
    touts = [TxOut(o["amount"], ScriptPubKey.parse(BytesIO(txref.varbytes(o["script"])))) for o in tx["outs"]]
    return Tx(tx["version"], tins, touts, tx["locktime"], network="mainnet", segwit=True)


def ref_digest(tx, spent, idx, kind, shape, ht):
    """Reference digest as bytes, or None when undefined."""
    _, _, wit, sc = kind_setup(kind, shape)
    if kind in ("p2pkh", "p2sh-ms"):
        return txref.sighash_legacy(tx, idx, sc, ht)
    if kind in ("p2wpkh", "p2sh-p2wpkh", "p2wsh-ms", "p2sh-p2wsh-ms"):
        return txref.sighash_bip143(tx, idx, sc, spent[idx][0], ht)
    w = list(wit)
    annex = None
    if len(w) >= 2 and w[-1] and w[-1][0] == 0x50:
        annex = w.pop()
    if kind == "p2tr-key":
        return txref.sighash_bip341(tx, idx, spent, ht, annex=annex)
    script, cb = w[-2], w[-1]
    leaf = txref.tapleaf_hash(script, cb[0] & 0xFE)
    return txref.sighash_bip341(tx, idx, spent, ht, annex=annex, leaf_hash=leaf)


def norm(v):
    """library digests are ints (legacy, BIP143) or bytes (BIP341)"""
    if isinstance(v, Rejected) or v is None:
        return None
    if isinstance(v, int):
        return v.to_bytes(32, "big")
    return bytes(v)


def lib_digests(ltx, idx, kind, shape, ht):
    """name -> digest bytes/None for every API route that should give this digest."""
    from io import BytesIO
    from buidl.script import RedeemScript, WitnessScript

    out = {"sig_hash": norm(attempt(ltx.sig_hash, idx, ht))}
    if kind == "p2pkh":
        out["sig_hash_legacy"] = norm(attempt(ltx.sig_hash_legacy, idx, None, ht))
    elif kind == "p2sh-ms":
        out["sig_hash_legacy"] = norm(attempt(lambda: ltx.sig_hash_legacy(idx, RedeemScript.convert(MS), ht)))
    elif kind == "p2wpkh":
        out["sig_hash_bip143"] = norm(attempt(lambda: ltx.sig_hash_bip143(idx, hash_type=ht)))
    elif kind == "p2sh-p2wpkh":
        out["sig_hash_bip143"] = norm(attempt(lambda: ltx.sig_hash_bip143(idx, redeem_script=RedeemScript.convert(b"\x00\x14" + H20), hash_type=ht)))
    elif kind == "p2wsh-ms":
        out["sig_hash_bip143"] = norm(attempt(lambda: ltx.sig_hash_bip143(idx, witness_script=WitnessScript.convert(MS), hash_type=ht)))
    elif kind == "p2sh-p2wsh-ms":
        out["sig_hash_bip143"] = norm(attempt(lambda: ltx.sig_hash_bip143(idx, redeem_script=RedeemScript.convert(b"\x00\x20" + txref.sha256(MS)), witness_script=WitnessScript.convert(MS), hash_type=ht)))
    elif kind == "p2tr-key":
        out["sig_hash_bip341"] = norm(attempt(lambda: ltx.sig_hash_bip341(idx, ext_flag=0, hash_type=ht)))
    else:
        out["sig_hash_bip341"] = norm(attempt(lambda: ltx.sig_hash_bip341(idx, ext_flag=1, hash_type=ht)))
    return out


def gen_digest(tier, seed):
    nmax = 4 if tier == "quick" else 6
    cases = []
    for nin in range(1, nmax + 1):
        for nout in range(0, nmax + 1):
            for idx in range(nin):
                for kind in KINDS:
                    cases.append({"nin": nin, "nout": nout, "idx": idx, "kind": kind, "variant": (nin + nout + idx) % 4})
    return cases


def run_digest(case):
    res = Res()
    kind = case["kind"]
    shapes = [None]
    hts = LEGACY_HTS
    if kind == "p2tr-key":
        shapes, hts = TAP_KEY_SHAPES, TAP_HTS
    elif kind == "p2tr-script":
        shapes, hts = TAP_SCRIPT_SHAPES, TAP_HTS
    only = case.get("only")
    for shape in shapes:
        tx, spent = make_abstract(case["nin"], case["nout"], case["idx"], kind, shape, case["variant"])
        for ht in hts:
            if only and only != [shape, ht]:
                continue
            if shape == "empty":
                # no witness at all: only the direct key-path method is meaningful (this is what signing uses)
                pass
            ltx = build_lib(tx, spent)
            exp = ref_digest(tx, spent, case["idx"], kind, shape, ht)
            got = lib_digests(ltx, case["idx"], kind, shape, ht)
            base = ht & 3
            single_missing = base == 3 and case["idx"] >= case["nout"]
            for route, val in got.items():
                vc = {"engine": "digest", "case": dict(case, only=[shape, ht])}
                if val != exp:
                    cls = f"{route}/{kind}"
                    if shape:
                        cls += f"/{shape}"
                    cls += f"/ht{ht:02x}" + ("/single-without-output" if single_missing else "")
                    res.violation(f"C05/digest/{cls}", vc, val, exp, f"{route} != reference digest")
                else:
                    res.ok("digest==ref" + ("(undefined->refused)" if exp is None else ""), nontrivial=(case["nin"], case["nout"], case["idx"], kind, shape, ht, route), sample=dict(case, shape=shape, ht=ht) if ht == 0x83 and case["nin"] == 2 else None)
    return res


# ------------------------------------------------------------------ E2 history search
QUERIES = [(m, i, ht) for m in ("legacy", "bip143", "bip341") for i in (0, 1) for ht in ((1, 3, 0x82) if m != "bip341" else (0, 3, 0x81))]
EDITS = ["out0.amount", "nout", "in0.seq", "locktime", "in1.index", "in0.value", "in0.annex", "version"]
MEMO = ["_hash_prevouts", "_hash_sequence", "_hash_outputs", "_sha_prevouts", "_sha_amounts", "_sha_script_pubkeys", "_sha_sequence", "_sha_sequences", "_sha_outputs"]


def hist_base():
    """2 inputs (0: p2wpkh, 1: p2tr key path), 2 outputs."""
    tx, spent = make_abstract(2, 2, 0, "p2wpkh", None, 0)
    spk, ss, wit, _ = kind_setup("p2tr-key", "sig")
    tx["ins"][1].update(script=ss, witness=wit)
    spent[1] = (spent[1][0], spk)
    # queries of every algorithm are asked on both inputs, so give input 0 a P2TR-compatible view as well
    return tx, spent


def apply_edit_abstract(tx, spent, e):
    if e == "out0.amount":
        tx["outs"][0]["amount"] ^= 0x100
    elif e == "nout":
        if len(tx["outs"]) == 2:
            tx["outs"].append({"amount": 777, "script": b"\x51"})
        else:
            tx["outs"].pop()
    elif e == "in0.seq":
        tx["ins"][0]["seq"] ^= 0x10
    elif e == "locktime":
        tx["locktime"] ^= 0x40
    elif e == "in1.index":
        tx["ins"][1]["index"] ^= 1
    elif e == "in0.value":
        spent[0] = (spent[0][0] ^ 0x1000, spent[0][1])
    elif e == "in0.annex":
        w = tx["ins"][1]["witness"]
        if len(w) == 1:
            w.append(ANNEX)
        else:
            w.pop()
    elif e == "version":
        tx["version"] ^= 3


def apply_edit_lib(ltx, e):
    from buidl.script import Script
    from buidl.timelock import Locktime, Sequence
    from buidl.tx import TxOut

    if e == "out0.amount":
        ltx.tx_outs[0].amount ^= 0x100
    elif e == "nout":
        if len(ltx.tx_outs) == 2:
            ltx.tx_outs.append(TxOut(777, Script([0x51])))
        else:
            ltx.tx_outs.pop()
    elif e == "in0.seq":
        ltx.tx_ins[0].sequence = Sequence(int(ltx.tx_ins[0].sequence) ^ 0x10)
    elif e == "locktime":
        ltx.locktime = Locktime(int(ltx.locktime) ^ 0x40)
    elif e == "in1.index":
        ltx.tx_ins[1].prev_index ^= 1
    elif e == "in0.value":
        ltx.tx_ins[0]._value ^= 0x1000
    elif e == "in0.annex":
        w = ltx.tx_ins[1].witness.items
        if len(w) == 1:
            w.append(ANNEX)
        else:
            w.pop()
    elif e == "version":
        ltx.version ^= 3


def ref_query(tx, spent, q):
    m, i, ht = q
    if m == "legacy":
        return txref.sighash_legacy(tx, i, b"\x76\xa9\x14" + H20 + b"\x88\xac", ht)
    if m == "bip143":
        return txref.sighash_bip143(tx, i, b"\x76\xa9\x14" + H20 + b"\x88\xac", spent[i][0], ht)
    w = tx["ins"][i]["witness"]
    annex = w[-1] if len(w) >= 2 and w[-1] and w[-1][0] == 0x50 else None
    return txref.sighash_bip341(tx, i, spent, ht, annex=annex)


def lib_query(ltx, q):
    from io import BytesIO
    from buidl.script import RedeemScript, Script

    m, i, ht = q
    p2pkh = Script.parse(BytesIO(txref.varbytes(b"\x76\xa9\x14" + H20 + b"\x88\xac")))
    if m == "legacy":
        return norm(attempt(lambda: ltx.sig_hash_legacy(i, p2pkh, ht)))
    if m == "bip143":
        return norm(attempt(lambda: ltx.sig_hash_bip143(i, redeem_script=RedeemScript.convert(b"\x00\x14" + H20), hash_type=ht)))
    return norm(attempt(lambda: ltx.sig_hash_bip341(i, ext_flag=0, hash_type=ht)))


def replay_history(hist):
    """fresh objects, events replayed; returns (ltx, tx, spent, per-query observations)"""
    import copy

    tx, spent = hist_base()
    tx = copy.deepcopy(tx)
    ltx = build_lib(tx, spent)
    obs = []
    for ev in hist:
        if ev[0] == "q":
            q = tuple(ev[1])
            obs.append((lib_query(ltx, q), ref_query(tx, spent, q)))
        else:
            apply_edit_abstract(tx, spent, ev[1])
            apply_edit_lib(ltx, ev[1])
            obs.append(None)
    return ltx, tx, spent, obs


def canon(ltx, tx, spent):
    memo = tuple(getattr(ltx, n, None) for n in MEMO)
    return (txref.ser_tx(tx), tuple(spent), memo)


def gen_history(tier, seed):
    # one case per first event: the search below each first event is independent, which shards the BFS
    events = [["q", list(q)] for q in QUERIES] + [["e", e] for e in EDITS]
    depth = 4 if tier == "quick" else 6
    return [{"first": ev, "depth": depth} for ev in events]


def run_history(case):
    import collections

    res = Res()
    events = [["q", list(q)] for q in QUERIES] + [["e", e] for e in EDITS]
    # thorough depth 6 keeps the query alphabet of steps 3.. to one hash type per algorithm to stay finite in time
    depth = case["depth"]
    seen = set()
    frontier = collections.deque([[case["first"]]])
    if case.get("replay"):
        frontier = collections.deque([case["replay"]])
        depth = 0
    while frontier:
        hist = frontier.popleft()
        ltx, tx, spent, obs = replay_history(hist)
        res.transitions += 1
        last = obs[-1]
        if last is not None and last[0] != last[1]:
            # minimal description of the violating history
            q = hist[-1][1]
            edits = [e[1] for e in hist if e[0] == "e"]
            stale = any(h[0] == "e" for h in hist[:-1]) and any(h[0] == "q" for h in hist[:-1])
            fresh = replay_history([hist[-1]] if not edits else [h for h in hist if h[0] == "e"] + [hist[-1]])[3][-1]
            if fresh[0] == fresh[1]:
                cls = f"stale-after-edit/{q[0]}"
            else:
                cls = f"wrong-digest/{q[0]}/ht{q[2]:02x}"
            res.violation(f"C05/history/{cls}", {"engine": "history", "case": dict({k: v for k, v in case.items() if k != "replay"}, replay=hist)}, last[0], last[1], f"query {q} after history {hist[:-1]} differs from the reference on the current content")
            continue
        k = canon(ltx, tx, spent)
        if k in seen:
            continue
        seen.add(k)
        res.states += 1
        if last is not None:
            res.ok("query==ref", nontrivial=repr(hist) if any(h[0] == "e" for h in hist[:-1]) else None, sample={"history": hist} if len(hist) == 3 and hist[0][0] == "q" and hist[1][0] == "e" else None)
        if len(hist) < depth:
            for ev in events:
                if len(hist) >= 4 and ev[0] == "q" and ev[1][2] not in (3, 0x81):
                    continue
                frontier.append(hist + [ev])
    if case.get("replay"):
        pass
    return res


def run_history_replay(case):
    """Replay one recorded history (used by --replay)."""
    res = Res()
    hist = case["replay"]
    ltx, tx, spent, obs = replay_history(hist)
    last = obs[-1]
    if last is not None and last[0] != last[1]:
        res.violation("C05/history/replayed", {"engine": "history", "case": case}, last[0], last[1], "replayed history still violates")
    return res


def engines(tier, seed):
    return [
        Engine("digest", gen_digest, run_digest, kind="E1", rule="transactions with 1..4 inputs x 0..4 outputs (thorough 6x6) x every input index x 8 spent-output kinds x hash types {1,2,3,81,82,83} (+0 for taproot) x taproot witness shapes (key path: [sig], [sig starting 0x50], [sig, annex], []; script path: with/without args and annex): Tx.sig_hash (dispatch) and the direct sig_hash_legacy/bip143/bip341 == reference digest (undefined digests must be refused)"),
        Engine("history", gen_history, run_history, kind="E2", rule="explicit-state BFS over histories of <= 4 (thorough 6) events on ONE Tx object: 18 digest queries (legacy/BIP143/BIP341 x 2 inputs x 3 hash types) and 8 edits (output amount, add/remove output, sequence, locktime, outpoint, spent value, annex, version); canonical state = (wire bytes, spent data, memo fields); invariant: every query equals the reference on the current content"),
    ]
