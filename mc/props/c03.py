"""C03 — group law and public-key encodings.

E1 field:   FieldElement over every prime p <= 31, complete operation tables (and == / !=) vs integers mod p; the same
            operations on boundary elements of the secp256k1 field (S256Field and FieldElement) and two other big primes.
E1 curve:   generic Point over y^2 = x^3 + 7 for every prime 11 <= p <= 61 (101 thorough): complete
            addition table (infinity, opposite, doubling incl. y = 0), == / !=, scalar multiples incl. negative and
            > 2^256 scalars vs a brute-force group law.
E1 curve-ab: generic Point over EVERY non-singular y^2 = x^3 + ax + b over F_p, 5 <= p <= 23 (31 thorough).
E3 toy-*:   the toy instantiation of S256Point: all pairs, all scalars, all encodings, all candidate byte strings,
            the direct entry points parse_xonly / parse_sec over other lengths, S256Field.sqrt on the whole field.
E1 real-*:  secp256k1 boundary scalars / point pairs / encodings against the Jacobian reference.

Every scalar multiplication is evaluated under a per-evaluation SIGALRM guard: an evaluation that has not returned
after LIMIT_* seconds (thousands of times its normal cost) is reported as "does-not-terminate".
"""
import functools
import itertools
import signal
import threading

from mc.core import Engine, Res, attempt, Rejected, filler_int, current_toy
from mc.ref import ec

PROP = "C03"

LIMIT_SMALL = 5.0  # toy / small-curve evaluation: normal cost well under 1 ms
LIMIT_REAL = 120.0  # secp256k1 scalar multiplication: normal cost about 0.1 s
HANG = "does-not-terminate"


class _NoTermination(BaseException):
    """BaseException: a library `except Exception` cannot swallow it."""


def _on_alarm(signum, frame):
    raise _NoTermination()


def guarded(limit, fn, *a):
    """attempt(fn, *a) that gives up after `limit` seconds of wall clock: returns HANG instead of blocking the
    explorer for ever.  Only the verdict "did not return" depends on the clock, never a compared value."""
    if threading.current_thread() is not threading.main_thread():
        return attempt(fn, *a)
    old = signal.signal(signal.SIGALRM, _on_alarm)
    signal.setitimer(signal.ITIMER_REAL, limit)
    try:
        r = attempt(fn, *a)
    except _NoTermination:
        r = Rejected("_NoTermination")
    finally:
        signal.setitimer(signal.ITIMER_REAL, 0)
        signal.signal(signal.SIGALRM, old)
    if isinstance(r, Rejected) and r.how == "_NoTermination":
        return HANG
    return r


def xy(Q):
    """(x, y) / None for infinity; Rejected and HANG pass through; an object without field-element coordinates is
    reported as Rejected("malformed")."""
    if Q is HANG or isinstance(Q, Rejected):
        return Q
    try:
        return None if Q.x is None and Q.y is None else (Q.x.num, Q.y.num)
    except AttributeError:
        return Rejected("malformed")


def add_class(P, Q):
    if P is not None and P == Q and P[1] == 0:
        return "double-y0"
    if P is not None and P == Q:
        return "double"
    if P is None or Q is None:
        return "identity"
    if P[0] == Q[0]:
        return "opposite"
    return "chord"


def primes(lo, hi):
    return [p for p in range(lo, hi + 1) if p > 1 and all(p % q for q in range(2, int(p**0.5) + 1))]


# ------------------------------------------------------------------ FieldElement
BIG_PRIMES = {"secp256k1-p": ec.SECP.p, "2^127-1": 2**127 - 1, "65537": 65537}


def big_elements(q, f):
    return [0, 1, 2, q - 2, q - 1, (q - 1) // 2, (q + 1) // 2, f[0] % q, f[1] % q]


def big_exponents(q, f):
    return [0, 1, 2, 3, -1, -2, q - 2, q - 1, q, 2 * (q - 1), (q + 1) // 4, -(q - 1), 2**256 + 1, f[2]]


def big_coefficients(q, f):
    return [-1, 0, 1, 2, 3, q, q + 1, 2**256, -(2**256), f[3]]


def gen_field(tier, seed):
    cases = [{"p": p} for p in primes(2, 31)]
    f = [str(filler_int(seed, "c03bigfield", i, 3, ec.SECP.p - 3)) for i in range(4)]
    for cls, name in (("S256Field", "secp256k1-p"), ("FieldElement", "secp256k1-p"), ("FieldElement", "2^127-1"), ("FieldElement", "65537")):
        cases += [{"big": name, "cls": cls, "i": i, "f": f} for i in range(9)]
    return cases


def run_field_big(case):
    """Boundary elements of a big prime field (the real modulus through S256Field and through FieldElement)."""
    from buidl.pecc import FieldElement, S256Field

    res = Res()
    q = BIG_PRIMES[case["big"]]
    f = [int(v) for v in case["f"]]
    s256 = case["cls"] == "S256Field"
    mk = (lambda v: S256Field(v)) if s256 else (lambda v: FieldElement(v, q))
    E = big_elements(q, f)
    a = E[case["i"]]
    only = case.get("only")
    vc = lambda op, j: {"engine": "field", "case": dict(case, only=[op, j])}
    bad = lambda got, ref: isinstance(got, Rejected) or getattr(got, "num", None) != ref or getattr(got, "prime", None) != q
    for j, b in enumerate(E):
        for op, fn, ref in (
            ("add", lambda x, y: x + y, (a + b) % q),
            ("sub", lambda x, y: x - y, (a - b) % q),
            ("mul", lambda x, y: x * y, (a * b) % q),
        ):
            if only and only != [op, j]:
                continue
            got = attempt(fn, mk(a), mk(b))
            if bad(got, ref):
                res.violation(f"C03/field/{op}", vc(op, j), repr(got), ref, f"{case['cls']} {op} wrong modulo {case['big']}")
            else:
                res.ok(f"big {op}==ref", nontrivial=(case["big"], case["cls"], op, case["i"], j))
        if not only or only == ["div", j]:
            if b == 0:
                res.skip("division by zero (undefined)")
            else:
                got = attempt(lambda x, y: x / y, mk(a), mk(b))
                ref = a * pow(b, -1, q) % q
                if bad(got, ref):
                    res.violation("C03/field/div", vc("div", j), repr(got), ref, f"{case['cls']} division wrong modulo {case['big']}")
                else:
                    res.ok("big div==ref", nontrivial=(case["big"], case["cls"], "div", case["i"], j))
        if not only or only == ["eq", j]:
            e = attempt(lambda x, y: x == y, mk(a), mk(b))
            ne = attempt(lambda x, y: x != y, mk(a), mk(b))
            if e is not (a == b) or ne is not (a != b):
                res.violation("C03/field/eq", vc("eq", j), [repr(e), repr(ne)], [a == b, a != b], "== / != of field elements disagrees with equality of the residues")
            else:
                res.ok("big eq==ref")
    for j, e in enumerate(big_exponents(q, f)):
        if only and only != ["pow", j]:
            continue
        if a == 0 and e <= 0:
            res.skip("0 ** non-positive exponent (undefined / convention)")
            continue
        ref = pow(a, e, q)
        got = attempt(lambda x: x**e, mk(a))
        if bad(got, ref):
            res.violation("C03/field/pow-zero-base" if a == 0 else "C03/field/pow", vc("pow", j), repr(got), ref, f"{case['cls']}({a}) ** {e} wrong modulo {case['big']}")
        else:
            res.ok("big pow==ref", nontrivial=(case["big"], case["cls"], "pow", case["i"], j))
    for j, c in enumerate(big_coefficients(q, f)):
        if only and only != ["rmul", j]:
            continue
        got = attempt(lambda x: c * x, mk(a))
        ref = a * c % q
        if bad(got, ref):
            res.violation("C03/field/rmul", vc("rmul", j), repr(got), ref, "coefficient * field element wrong")
        else:
            res.ok("big rmul==ref", nontrivial=(case["big"], case["cls"], "rmul", case["i"], j))
    if s256:
        # S256Field.sqrt: a, a^2, -(a^2) (q % 4 == 3: exactly one of v, -v is a square for v != 0); oracle: Euler's criterion
        for j, v in enumerate([a, a * a % q, (-a * a) % q]):
            if only and only != ["sqrt", j]:
                continue
            square = pow(v, (q - 1) // 2, q) in (0, 1)
            got = attempt(lambda: mk(v).sqrt())
            if square != (not isinstance(got, Rejected)) or (square and (getattr(got, "num", None) is None or got.num * got.num % q != v)):
                res.violation("C03/field/sqrt", vc("sqrt", j), repr(got), "a square root" if square else "rejected", "S256Field.sqrt wrong on the real field")
            else:
                res.ok("big sqrt==ref", nontrivial=("sqrt", case["i"], j))
    return res


def run_field(case):
    from buidl.pecc import FieldElement

    if "big" in case:
        return run_field_big(case)
    res = Res()
    p = case["p"]
    vc = lambda op, a, b: {"engine": "field", "case": dict(case, only=[op, a, b])}
    only = case.get("only")
    els = [FieldElement(i, p) for i in range(p)]
    for a in range(p):
        for b in range(p):
            for op, fn, ref in (
                ("add", lambda x, y: x + y, (a + b) % p),
                ("sub", lambda x, y: x - y, (a - b) % p),
                ("mul", lambda x, y: x * y, (a * b) % p),
            ):
                if only and only != [op, a, b]:
                    continue
                got = attempt(fn, els[a], els[b])
                if isinstance(got, Rejected) or got.num != ref or got.prime != p:
                    res.violation(f"C03/field/{op}", vc(op, a, b), repr(got), ref, f"FieldElement {op} wrong in F_{p}")
                else:
                    res.bulk(f"{op}==ref", 1, 1)
            if not only or only == ["div", a, b]:
                if b == 0:
                    res.skip("division by zero (undefined)")
                else:
                    got = attempt(lambda x, y: x / y, els[a], els[b])
                    ref = a * pow(b, -1, p) % p
                    if isinstance(got, Rejected) or got.num != ref:
                        res.violation("C03/field/div", vc("div", a, b), repr(got), ref, f"FieldElement division wrong in F_{p}")
                    else:
                        res.bulk("div==ref", 1, 1)
        for e in range(-p, 2 * p + 1):
            if only and only != ["pow", a, e]:
                continue
            if a == 0 and e <= 0:
                res.skip("0 ** non-positive exponent (undefined / convention)")
                continue
            ref = pow(a, e, p)
            got = attempt(lambda x: x**e, els[a])
            if isinstance(got, Rejected) or got.num != ref:
                cls = "pow-zero-base" if a == 0 else "pow"
                res.violation(f"C03/field/{cls}", vc("pow", a, e), repr(got), ref, f"FieldElement({a},{p}) ** {e} wrong")
            else:
                res.bulk("pow==ref", 1, 1)
        for c in range(-p, 2 * p + 1):
            if only and only != ["rmul", a, c]:
                continue
            got = attempt(lambda x: c * x, els[a])
            ref = a * c % p
            if isinstance(got, Rejected) or got.num != ref:
                res.violation("C03/field/rmul", vc("rmul", a, c), repr(got), ref, "coefficient * FieldElement wrong")
            else:
                res.bulk("rmul==ref", 1, 1)
    # the library's own == / != : all pairs of F_p (fresh right operand), and the same residue in the next prime field
    q = primes(p + 1, 2 * p + 2)[0]
    for a in range(p):
        for b in range(p):
            if only and only != ["eq", a, b]:
                continue
            e = attempt(lambda x, y: x == y, els[a], FieldElement(b, p))
            ne = attempt(lambda x, y: x != y, els[a], FieldElement(b, p))
            if e is not (a == b) or ne is not (a != b):
                res.violation("C03/field/eq", vc("eq", a, b), [repr(e), repr(ne)], [a == b, a != b], f"== / != of FieldElements wrong in F_{p}")
            else:
                res.bulk("eq==ref", 1, 1)
        if not only or only == ["eqx", a, 0]:
            e = attempt(lambda x, y: x == y, els[a], FieldElement(a, q))
            ne = attempt(lambda x, y: x != y, els[a], FieldElement(a, q))
            if e is not False or ne is not True:
                res.violation("C03/field/eq", vc("eqx", a, 0), [repr(e), repr(ne)], [False, True], f"elements of F_{p} and F_{q} with the same residue compare equal")
            else:
                res.bulk("eq across fields==ref", 1, 1)
    return res


# ------------------------------------------------------------------ generic Point on small curves
def small_curve_points(p):
    return [None] + [(x, y) for x in range(p) for y in range(p) if (y * y - x * x * x - 7) % p == 0]


def gen_curve(tier, seed):
    hi = 61 if tier == "quick" else 101
    return [{"p": p} for p in primes(11, hi)]


def run_curve(case):
    from buidl.pecc import FieldElement, Point

    res = Res()
    p = case["p"]
    c = ec.Curve(p, 0, None)
    pts = small_curve_points(p)
    a, b = FieldElement(0, p), FieldElement(7, p)
    only = case.get("only")

    def mk(P):
        if P is None:
            return Point(None, None, a, b)
        return Point(FieldElement(P[0], p), FieldElement(P[1], p), a, b)

    def un(Q):
        if isinstance(Q, Rejected) or Q is HANG:
            return Q
        return None if Q.x is None else (Q.x.num, Q.y.num)

    objs = {P: mk(P) for P in pts}
    ptset = set(pts)
    vc = lambda op, x, y: {"engine": "curve", "case": dict(case, only=[op, x, y])}
    for P in pts:
        for Q in pts:
            if only and only != ["add", P and list(P), Q and list(Q)]:
                continue
            ref = c.add(P, Q)
            got = un(attempt(lambda x, y: x + y, objs[P], objs[Q]))
            if got != ref:
                if P is not None and P == Q and P[1] == 0:
                    cls = "double-y0"
                elif P is not None and P == Q:
                    cls = "double"
                elif P is None or Q is None:
                    cls = "identity"
                elif P[0] == Q[0]:
                    cls = "opposite"
                else:
                    cls = "chord"
                res.violation(f"C03/curve/add-{cls}", vc("add", P, Q), got, ref, f"Point addition wrong on y^2=x^3+7 over F_{p}")
            else:
                assert ref in ptset
                res.bulk("add==ref", 1, 1)
    # scalar multiples
    order = len(pts)
    for P in pts:
        acc = None
        for k in range(0, 2 * order + 1):
            if only and only != ["mul", P and list(P), k]:
                acc = c.add(acc, P)
                continue
            got = un(guarded(LIMIT_SMALL, lambda x: k * x, objs[P]))
            if got != acc:
                cls = "mul-y0" if P and P[1] == 0 else "mul"
                if got is HANG:
                    cls += "-does-not-terminate"
                res.violation(f"C03/curve/{cls}", vc("mul", P, k), got, acc, f"k*P wrong over F_{p}")
            else:
                res.bulk("mul==ref", 1, 1)
            acc = c.add(acc, P)
    # scalars outside [0, 2*order]: > 2^256 and every negative k in [-2*order, -1] (and -2^256): k*P = |k| * (-P)
    hung = capped = 0
    for P in pts[1:] + [None]:
        for k in list(range(-1, -2 * order - 1, -1)) + [2**256, 2**256 + 1, -(2**256), -(2**256) - 1]:
            if only and only != ["mulz", P and list(P), str(k)]:
                continue
            if k < 0 and hung:
                capped += 1
                continue
            ref = c.mul_affine(k, P)
            got = un(guarded(LIMIT_SMALL, lambda x: k * x, objs[P]))
            if got is HANG:
                hung += 1
                cls = "negative-scalar-does-not-terminate" if k < 0 else "mul-does-not-terminate"
                res.violation(f"C03/curve/{cls}", vc("mulz", P, str(k)), HANG, ref, f"k*P did not return within {LIMIT_SMALL} s for k = {k} over F_{p}")
            elif got != ref:
                res.violation("C03/curve/mul-negative-scalar" if k < 0 else "C03/curve/mul-huge-scalar", vc("mulz", P, str(k)), got, ref, f"k*P wrong for k = {k} over F_{p}")
            else:
                res.bulk("mul(negative/huge k)==ref", 1, 1)
    if capped:
        res.caps.append(f"curve p={p}: {capped} negative-scalar evaluations not executed after one that did not terminate")
    # the library's own == / != on every pair (fresh right operand)
    for P in pts:
        for Q in pts:
            if only and only != ["eq", P and list(P), Q and list(Q)]:
                continue
            e = attempt(lambda x, y: x == y, objs[P], mk(Q))
            ne = attempt(lambda x, y: x != y, objs[P], mk(Q))
            if e is not (P == Q) or ne is not (P != Q):
                res.violation("C03/curve/eq", vc("eq", P, Q), [repr(e), repr(ne)], [P == Q, P != Q], f"Point == / != disagrees with equality of coordinates over F_{p}")
            else:
                res.bulk("eq==ref", 1, 1)
    # off-curve points must be refused by the constructor
    for x in range(p):
        for y in range(p):
            if (x, y) in ptset:
                continue
            if only and only != ["offcurve", x, y]:
                continue
            got = attempt(lambda: Point(FieldElement(x, p), FieldElement(y, p), a, b))
            if not isinstance(got, Rejected):
                res.violation("C03/curve/offcurve-accepted", vc("offcurve", x, y), repr(got), "rejected", "off-curve point constructed")
            else:
                res.bulk("offcurve rejected", 1, 1)
    # associativity directly on all triples for small p
    if p <= 23 and not only:
        for P, Q, R in itertools.product(pts, repeat=3):
            l = un(attempt(lambda: (objs[P] + objs[Q]) + objs[R]))
            r = un(attempt(lambda: objs[P] + (objs[Q] + objs[R])))
            if isinstance(l, Rejected) or isinstance(r, Rejected):
                if P and P[1] == 0 or Q and Q[1] == 0 or R and R[1] == 0 or any(X and X[1] == 0 for X in (c.add(P, Q), c.add(Q, R))):
                    res.violation("C03/curve/add-double-y0", vc("assoc", [P, Q], R), repr((l, r)), "defined", "associativity triple hits doubling of a y=0 point")
                else:
                    res.violation("C03/curve/assoc-raises", vc("assoc", [P, Q], R), repr((l, r)), "defined", "addition raises")
            elif l != r:
                res.violation("C03/curve/assoc", vc("assoc", [P, Q], R), l, r, "associativity fails")
            else:
                res.bulk("assoc", 1, 1)
    return res


# ------------------------------------------------------------------ generic Point on every small curve y^2 = x^3 + ax + b
def gen_curve_ab(tier, seed):
    hi = 23 if tier == "quick" else 31
    return [{"p": p, "a": a, "t": tier} for p in primes(5, hi) for a in range(p)]


def ab_scalars(order, tier):
    """thorough: every k with |k| <= order+1; quick: every k with |k| <= min(order+1, 12) and +-(order-1), +-order, +-(order+1)."""
    m = order + 1 if tier == "thorough" else min(order + 1, 12)
    pos = sorted(set(range(0, m + 1)) | {order - 1, order, order + 1})
    return pos + [-k for k in pos if k]


def run_curve_ab(case):
    from buidl.pecc import FieldElement, Point

    res = Res()
    p, a = case["p"], case["a"]
    only = case.get("only")
    vc = lambda op, b, x, y: {"engine": "curve-ab", "case": dict(case, only=[op, b, x, y])}
    fa = FieldElement(a, p)
    hung = capped = 0
    for b in range(p):
        if only and only[1] != b:
            continue
        if (4 * a**3 + 27 * b * b) % p == 0:
            res.skip("singular curve (4a^3 + 27b^2 = 0 mod p): the points do not form a group")
            continue
        w = ec.Curve(p, 0, None, a=a, b=b)
        pts = [None] + [(x, y) for x in range(p) for y in range(p) if (y * y - x * x * x - a * x - b) % p == 0]
        ptset = set(pts)
        order = len(pts)
        fb = FieldElement(b, p)

        def mk(P):
            if P is None:
                return Point(None, None, fa, fb)
            return Point(FieldElement(P[0], p), FieldElement(P[1], p), fa, fb)

        objs = {P: mk(P) for P in pts}
        for P in pts:
            for Q in pts:
                if not only or only == ["add", b, P and list(P), Q and list(Q)]:
                    ref = w.add(P, Q)
                    assert ref in ptset
                    got = xy(attempt(lambda x, y: x + y, objs[P], objs[Q]))
                    if got != ref:
                        res.violation(f"C03/curve-ab/add-{add_class(P, Q)}", vc("add", b, P, Q), got, ref, f"Point addition wrong on y^2=x^3+{a}x+{b} over F_{p}")
                    else:
                        res.bulk("add==ref", 1, 1)
                if not only or only == ["eq", b, P and list(P), Q and list(Q)]:
                    e = attempt(lambda x, y: x == y, objs[P], mk(Q))
                    ne = attempt(lambda x, y: x != y, objs[P], mk(Q))
                    if e is not (P == Q) or ne is not (P != Q):
                        res.violation("C03/curve-ab/eq", vc("eq", b, P, Q), [repr(e), repr(ne)], [P == Q, P != Q], "Point == / != disagrees with equality of coordinates")
                    else:
                        res.bulk("eq==ref", 1, 1)
            for k in ab_scalars(order, case.get("t", "thorough")):
                if only and only != ["mul", b, P and list(P), k]:
                    continue
                if k < 0 and hung:
                    capped += 1
                    continue
                ref = w.mul_affine(k, P)
                got = xy(guarded(LIMIT_SMALL, lambda x: k * x, objs[P]))
                if got is HANG:
                    hung += 1
                    cls = "negative-scalar-does-not-terminate" if k < 0 else "mul-does-not-terminate"
                    res.violation(f"C03/curve-ab/{cls}", vc("mul", b, P, k), HANG, ref, f"k*P did not return within {LIMIT_SMALL} s for k = {k}")
                elif got != ref:
                    res.violation("C03/curve-ab/mul-negative-scalar" if k < 0 else "C03/curve-ab/mul", vc("mul", b, P, k), got, ref, f"k*P wrong on y^2=x^3+{a}x+{b} over F_{p}")
                else:
                    res.bulk("mul==ref", 1, 1)
        for x in range(p):
            for y in range(p):
                if (x, y) in ptset or (only and only != ["offcurve", b, x, y]):
                    continue
                got = attempt(lambda: Point(FieldElement(x, p), FieldElement(y, p), fa, fb))
                if not isinstance(got, Rejected):
                    res.violation("C03/curve-ab/offcurve-accepted", vc("offcurve", b, x, y), repr(got), "rejected", "off-curve point constructed")
                else:
                    res.bulk("offcurve rejected", 1, 1)
    if capped:
        res.caps.append(f"curve-ab p={p} a={a}: {capped} negative-scalar evaluations not executed after one that did not terminate")
    return res


# ------------------------------------------------------------------ toy S256Point
def gen_toy_points(toy):
    def g(tier, seed):
        c = ec.toy_curve(*toy)
        return [{"toy": list(toy), "k": k} for k in range(c.n)]

    return g


def run_toy_points(case):
    from buidl import pecc

    res = Res()
    toy = tuple(case["toy"])
    assert current_toy() == toy and pecc.N == toy[1] and pecc.P == toy[0]
    c = ec.toy_curve(*toy)
    n, p = c.n, c.p
    only = case.get("only")

    def mk(P):
        return pecc.S256Point(None, None) if P is None else pecc.S256Point(P[0], P[1])

    def un(Q):
        if isinstance(Q, Rejected) or Q is HANG:
            return Q
        return None if Q.x is None else (Q.x.num, Q.y.num)

    vc = lambda op, x: {"engine": f"toy-points-{p}", "toy": list(toy), "case": dict(case, only=[op, x])}
    k = case["k"]
    P = c.mul_affine(k, c.g)
    oP = mk(P)
    for j in range(n):
        if only and only != ["add", j]:
            continue
        Q = c.mul_affine(j, c.g)
        got = un(attempt(lambda: oP + mk(Q)))
        ref = c.add(P, Q)
        if got != ref:
            res.violation("C03/toy-points/add", vc("add", j), got, ref, "S256Point + S256Point wrong")
        else:
            res.bulk("add==ref", 1, 1)
    for j in range(-n, 2 * n + 1):
        if only and only != ["addint", j]:
            continue
        got = un(attempt(lambda: oP + j))
        ref = c.add(P, c.mul_affine(j % n, c.g))
        if got != ref:
            res.violation("C03/toy-points/add-int", vc("addint", j), got, ref, "S256Point + int wrong")
        else:
            res.bulk("addint==ref", 1, 1)
    for s in range(-2 * n, 3 * n + 1):
        if only and only != ["rmul", s]:
            continue
        got = un(guarded(LIMIT_SMALL, lambda: s * oP))
        ref = c.mul_affine(s % n, P) if P else None
        if got is HANG:
            res.violation("C03/toy-points/rmul-does-not-terminate", vc("rmul", s), HANG, ref, f"scalar * S256Point did not return within {LIMIT_SMALL} s")
            res.caps.append(f"toy-points k={k}: scalars after {s} not executed after an evaluation that did not terminate")
            break
        if got != ref:
            res.violation("C03/toy-points/rmul", vc("rmul", s), got, ref, "scalar * S256Point wrong")
        else:
            res.bulk("rmul==ref", 1, 1)
    if P is not None and not only:
        # k*P was just computed for every k; now k*(-P) and (-P) + P in the same process (state shared between a
        # point and its negation would show here)
        nP = c.neg(P)
        onP = mk(nP)
        for s in list(range(-3, 4)) + [n - 1, n + 1]:
            got = un(attempt(lambda: s * onP))
            ref = c.mul_affine(s % n, nP)
            if got != ref:
                res.violation("C03/toy-points/rmul-of-negated-point-after-point", vc("rmul-neg", s), got, ref, "s * (-P) wrong after s * P was computed in the same process")
            else:
                res.bulk("rmul(-P)==ref", 1, 1)
        if un(attempt(lambda: oP + onP)) is not None:
            res.violation("C03/toy-points/P+(-P)", vc("add-neg", 0), "not infinity", None, "P + (-P) is not infinity")
        else:
            res.bulk("P+(-P)==inf", 1, 1)
    if P is not None and (not only or only[0] == "enc"):
        for comp in (True, False):
            sec = attempt(oP.sec, comp)
            if sec != c.sec(P, comp):
                res.violation("C03/toy-points/sec", vc("enc", comp), sec, c.sec(P, comp), "sec() wrong")
                continue
            back = un(attempt(pecc.S256Point.parse, sec))
            if back != P:
                res.violation("C03/toy-points/sec-roundtrip", vc("enc", comp), back, P, "parse(sec()) != point")
            else:
                res.bulk("sec roundtrip", 1, 1)
        xo = attempt(oP.xonly)
        if xo != ec.b32(P[0]):
            res.violation("C03/toy-points/xonly", vc("enc", "x"), xo, ec.b32(P[0]), "xonly() wrong")
        else:
            back = un(attempt(pecc.S256Point.parse, xo))
            ref = c.lift_x(P[0])
            if back != ref:
                res.violation("C03/toy-points/xonly-roundtrip", vc("enc", "x"), back, ref, "parse(xonly()) is not the even-Y lift")
            else:
                res.bulk("xonly roundtrip", 1, 1)
    # ---- the library's own == / != on every pair, and the statement's identities expressed with them
    thirds = (None, c.g, c.mul_affine(n - 1, c.g))
    for j in range(n):
        Q = c.mul_affine(j, c.g)
        if not only or only == ["eq", j]:
            e = attempt(lambda: oP == mk(Q))
            ne = attempt(lambda: oP != mk(Q))
            if e is not (P == Q) or ne is not (P != Q):
                res.violation("C03/toy-points/eq", vc("eq", j), [repr(e), repr(ne)], [P == Q, P != Q], "S256Point == / != disagrees with equality of coordinates")
            else:
                res.bulk("eq==ref", 1, 1)
        if not only or only == ["sum-eq", j]:
            # (P + Q) compared with the reference sum and with a different point through the library's ==
            ref = c.add(P, Q)
            other = c.add(ref, c.g)
            e = attempt(lambda: (oP + mk(Q)) == mk(ref))
            ne = attempt(lambda: (oP + mk(Q)) == mk(other))
            if e is not True or ne is not False:
                res.violation("C03/toy-points/identity-via-eq", vc("sum-eq", j), [repr(e), repr(ne)], [True, False], "P + Q == (reference sum) is not True, or P + Q == (another point) is not False")
            else:
                res.bulk("P+Q == ref via ==", 1, 1)
        # ---- combine() and += : folds of the group law
        if not only or only == ["combine", j]:
            oQ = mk(Q)
            outs = [(un(attempt(pecc.S256Point.combine, [oP, oQ])), c.add(P, Q))]
            for R in thirds:
                outs.append((un(attempt(pecc.S256Point.combine, [oP, oQ, mk(R)])), c.add(c.add(P, Q), R)))
                outs.append((un(attempt(pecc.S256Point.combine, [mk(R), oP, oQ])), c.add(c.add(R, P), Q)))
            if any(g != r for g, r in outs):
                res.violation("C03/toy-points/combine", vc("combine", j), [g for g, r in outs], [r for g, r in outs], "S256Point.combine(points) is not the sum of the points")
            else:
                res.bulk("combine==ref", len(outs), len(outs))
        if not only or only == ["iadd", j]:

            def iadd():
                x = mk(P)
                keep = x
                x += mk(Q)
                return x, keep

            got = attempt(iadd)
            if isinstance(got, Rejected) or un(got[0]) != c.add(P, Q) or un(got[1]) != P:
                res.violation("C03/toy-points/iadd", vc("iadd", j), repr(got), [c.add(P, Q), P], "x += Q: wrong sum, or the original operand object was modified")
            else:
                res.bulk("iadd==ref", 1, 1)
    if not only or only == ["combine", -1]:
        got = un(attempt(pecc.S256Point.combine, [oP]))
        if got != P:
            res.violation("C03/toy-points/combine", vc("combine", -1), got, P, "combine([P]) != P")
        else:
            res.bulk("combine==ref", 1, 1)
    if P is not None and (not only or only[0] == "identities"):
        nP = c.neg(P)
        chk = {
            "P+(-P)==inf": attempt(lambda: (oP + mk(nP)) == mk(None)),
            "P+P==2P": attempt(lambda: (oP + oP) == 2 * oP),
            "not P+P!=2P": attempt(lambda: not ((oP + oP) != 2 * oP)),
            "nP==inf": attempt(lambda: (n * oP) == mk(None)),
            "-1*P==-P": attempt(lambda: (-1 * oP) == mk(nP)),
            "even_point": un(attempt(oP.even_point)) == (P if P[1] % 2 == 0 else nP),
        }
        badk = sorted(k2 for k2, v in chk.items() if v is not True)
        if badk:
            res.violation("C03/toy-points/even_point" if badk == ["even_point"] else "C03/toy-points/identity-via-eq", vc("identities", 0), badk, "all True", "identities of the statement evaluated with the library's own == fail")
        else:
            res.bulk("identities via ==", len(chk), len(chk))
    # ---- the second constructor path: coordinates given as S256Field objects (the library's own results use it)
    if P is not None and (not only or only[0] == "ctor"):
        F = pecc.S256Field
        tw = attempt(lambda: pecc.S256Point(F(P[0]), F(P[1])))
        ok = (
            not isinstance(tw, Rejected)
            and un(tw) == P
            and getattr(tw, "parity", None) == P[1] % 2
            and attempt(tw.sec, True) == c.sec(P, True)
            and attempt(tw.sec, False) == c.sec(P, False)
            and un(attempt(lambda: tw + pecc.G)) == c.add(P, c.g)
            and un(attempt(lambda: 2 * tw)) == c.add(P, P)
            and attempt(lambda: tw == oP) is True
        )
        if not ok:
            res.violation("C03/toy-points/ctor-field-elements", vc("ctor", 0), repr(tw), P, "S256Point(S256Field(x), S256Field(y)) differs from S256Point(x, y) (coordinates, parity, sec, +, *)")
        else:
            res.bulk("ctor(S256Field)==ctor(int)", 1, 1)
        # mixed int / S256Field arguments: either refused or the same point, never another one
        for nm, mixed in (("int,field", lambda: pecc.S256Point(P[0], F(P[1]))), ("field,int", lambda: pecc.S256Point(F(P[0]), P[1]))):
            m = attempt(mixed)
            if not isinstance(m, Rejected) and (xy(m) != P or attempt(m.sec, False) != c.sec(P, False)):
                res.violation("C03/toy-points/ctor-mixed-wrong-point", vc("ctor", 0), repr(m), "rejected or the same point", f"S256Point({nm}) constructs a different / malformed point")
            else:
                res.bulk("ctor mixed: rejected or same point", 1, 1)
    return res


def gen_toy_decode(toy):
    def g(tier, seed):
        p = toy[0]
        cases = [{"toy": list(toy), "kind": "sec33", "prefix": pf} for pf in range(256)]
        cases += [{"toy": list(toy), "kind": "sec65", "prefix": pf} for pf in (0, 1, 2, 3, 4, 5, 6, 7, 0x84, 0xFF)]
        cases += [{"toy": list(toy), "kind": "xonly"}]
        # direct entry points (not routed by length through S256Point.parse) and S256Field.sqrt on the whole field
        cases += [{"toy": list(toy), "kind": "xonly-direct"}]
        cases += [{"toy": list(toy), "kind": "sec-direct", "prefix": pf} for pf in (0, 1, 2, 3, 4, 5, 6, 7, 0xFF)]
        cases += [{"toy": list(toy), "kind": "sqrt"}]
        return cases

    return g


def run_toy_decode(case):
    from buidl import pecc

    res = Res()
    toy = tuple(case["toy"])
    assert current_toy() == toy
    c = ec.toy_curve(*toy)
    p = c.p
    only = case.get("only")
    vc = lambda x: {"engine": f"toy-decode-{p}", "toy": list(toy), "case": dict(case, only=x)}

    def un(Q):
        if isinstance(Q, Rejected):
            return None
        return "inf" if Q.x is None else (Q.x.num, Q.y.num)

    xs = list(range(0, p + 3)) + [2**255, 2**256 - 1]
    if case["kind"] == "sec33":
        pf = case["prefix"]
        for x in xs:
            if only is not None and only != x:
                continue
            b = bytes([pf]) + ec.b32(x)
            ref = c.parse_sec(b)
            got = un(attempt(pecc.S256Point.parse, b))
            if got != ref:
                cls = f"prefix-{pf:02x}" if pf not in (2, 3) else "compressed"
                if pf not in (2, 3, 4):
                    cls = "bad-prefix-accepted"
                res.violation(f"C03/toy-decode/sec33-{cls}", vc(x), got, ref, "33-byte string: decode differs from SEC1")
            else:
                res.ok("sec33==ref", nontrivial=(pf, x))
    elif case["kind"] == "sec65":
        pf = case["prefix"]
        # prefix 04: coordinates up to 2p+2, so that every point (x0, y0) also appears as (x0 + p, y0), (x0, y0 + p),
        # (x0 + p, y0 + p): strings whose coordinates are >= p but congruent to a curve point must be refused
        hi = 2 * p + 3 if pf == 4 else p + 1
        for x in range(0, hi):
            for y in range(0, hi):
                if only is not None and only != [x, y]:
                    continue
                b = bytes([pf]) + ec.b32(x) + ec.b32(y)
                ref = c.parse_sec(b)
                got = un(attempt(pecc.S256Point.parse, b))
                if got != ref:
                    cls = "bad-prefix-accepted" if pf != 4 else "uncompressed"
                    if pf == 4 and (x >= p or y >= p):
                        cls = "coordinate-ge-p-accepted"
                    res.violation(f"C03/toy-decode/sec65-{cls}", vc([x, y]), got, ref, "65-byte string: decode differs from SEC1")
                else:
                    res.bulk("sec65==ref", 1, 1)
    elif case["kind"] == "xonly-direct":
        # S256Point.parse_xonly called directly: only 32-byte strings are x-only encodings
        def variants(x):
            out = [x.to_bytes(L, "big") for L in (1, 2, 16, 31, 33, 34, 64, 65) if x < 256**L]
            out += [ec.b32(x) + b"\x00", b"\x02" + ec.b32(x), b"\x03" + ec.b32(x), ec.b32(x) + ec.b32(x), b"\x04" + ec.b32(x) + ec.b32(x)]
            return out

        for i, b in enumerate([b""] + [v for x in xs for v in variants(x)]):
            if only is not None and only != ["len", i]:
                continue
            got = un(attempt(pecc.S256Point.parse_xonly, b))
            if got is not None:
                res.violation("C03/toy-decode/parse_xonly-wrong-length-accepted", vc(["len", i]), got, None, f"parse_xonly accepts a {len(b)}-byte string ({b.hex()})")
            else:
                res.ok("parse_xonly(len != 32) rejected", nontrivial=("xlen", i))
        for x in xs:
            if only is not None and only != ["x", x]:
                continue
            if x == 0:
                res.skip("x-only 00..00: the library's own encoding of infinity (round-trips with xonly()); not asserted")
                continue
            ref = c.lift_x(x)
            got = un(attempt(pecc.S256Point.parse_xonly, ec.b32(x)))
            if got != ref:
                res.violation("C03/toy-decode/xonly", vc(["x", x]), got, ref, "parse_xonly(32 bytes): decode differs from lift_x")
            else:
                res.ok("parse_xonly==ref", nontrivial=("xd", x))
    elif case["kind"] == "sec-direct":
        # S256Point.parse_sec called directly: 33 bytes with 02/03 or 65 bytes with 04, nothing else
        pf = case["prefix"]
        P1 = bytes([pf])

        def variants(x):
            ys = [Q[1] for Q in (c.lift_x(x), c.lift_x(x, odd=True)) if Q] or [0, 1]
            out = [P1 + ec.b32(x), P1 + ec.b32(x)[1:], P1 + ec.b32(x) + b"\x00"]
            if x < 256:
                out.append(P1 + bytes([x]))
            for y in ys:
                full = P1 + ec.b32(x) + ec.b32(y)
                out += [full, full[:-1], full + b"\x00"]
            return out

        for i, b in enumerate([b"", P1] + [v for x in xs for v in variants(x)]):
            if only is not None and only != i:
                continue
            ref = c.parse_sec(b)
            got = un(attempt(pecc.S256Point.parse_sec, b))
            if got != ref:
                cls = "parse_sec-direct-wrong-length-accepted" if len(b) not in (33, 65) else "parse_sec-direct"
                res.violation(f"C03/toy-decode/{cls}", vc(i), got, ref, f"parse_sec on a {len(b)}-byte string ({b.hex()}): decode differs from SEC1")
            else:
                res.ok("parse_sec(direct)==ref", nontrivial=("sd", pf, i))
    elif case["kind"] == "sqrt":
        # S256Field.sqrt on every element of the toy field; oracle: brute-force table of squares
        squares = {y * y % p for y in range(p)}
        for v in range(p):
            if only is not None and only != v:
                continue
            got = attempt(lambda: pecc.S256Field(v).sqrt())
            if (v in squares) != (not isinstance(got, Rejected)) or (v in squares and (getattr(got, "num", None) is None or got.num * got.num % p != v)):
                res.violation("C03/toy-decode/sqrt", vc(v), repr(got), "a square root" if v in squares else "rejected", "S256Field.sqrt: root returned for a non-square, or no / wrong root for a square")
            else:
                res.ok("sqrt==ref", nontrivial=("sqrt", v))
    else:
        for x in xs:
            if only is not None and only != x:
                continue
            if x == 0:
                res.skip("x-only 00..00: the library's own encoding of infinity (round-trips with xonly()); not asserted")
                continue
            b = ec.b32(x)
            ref = c.lift_x(x)
            got = un(attempt(pecc.S256Point.parse, b))
            if got != ref:
                res.violation("C03/toy-decode/xonly", vc(x), got, ref, "32-byte string: decode differs from lift_x")
            else:
                res.ok("xonly==ref", nontrivial=("x", x))
    return res


# ------------------------------------------------------------------ secp256k1
N = ec.SECP.n
PP = ec.SECP.p


def real_scalars(seed, tier):
    s = [0, 1, 2, 3, N - 1, N, N + 1, -1, -2, -N, 2 * N + 3, 2**256 + 5, 2**128, (N - 1) // 2]
    s += [filler_int(seed, "c03scalar", i, 1, N - 1) for i in range(2 if tier == "quick" else 10)]
    return s


def real_points(tier):
    """Points that are not boundary multiples of G: for the first small x with a point A = (x, even y): A, -A and
    the points with the SAME y and another x, (beta*x, y), (beta^2*x, y) with beta^3 = 1 (chord of slope 0), and
    their negations.  x is tiny, so its 32-byte encoding is almost all zero padding."""
    c = ec.SECP
    beta = next(b for b in (pow(g, (PP - 1) // 3, PP) for g in range(2, 20)) if b != 1)
    assert pow(beta, 3, PP) == 1
    out = []
    for x in [x for x in range(1, 60) if c.lift_x(x)][: 2 if tier == "quick" else 4]:
        A = c.lift_x(x)
        for Q in (A, (A[0] * beta % PP, A[1]), (A[0] * beta * beta % PP, A[1])):
            assert c.on_curve(Q)
            out += [Q, c.neg(Q)]
    return out


@functools.lru_cache(maxsize=1)
def leadbyte_points():
    """one multiple of G for every value 0x01..0xff of the FIRST byte of x (found by walking G, 2G, 3G, ...): the first
    byte of an x-only key can collide with a SEC prefix (02, 03, 04) or any other marker a decoder might look at"""
    c = ec.SECP
    found, Q, k = {}, c.g, 1
    while len(found) < 255 and k < 20000:
        b = Q[0] >> 248
        if b and b not in found:
            found[b] = Q
        Q = c.add(Q, c.g)
        k += 1
    return [found[b] for b in sorted(found)]


PT_SCALARS = [2, -1, 2**255, 2**256 - 1, N // 2, N // 2 + 1, -(2**300) - 7]


def gen_real_mul(tier, seed):
    ss = real_scalars(seed, tier)
    cases = [{"op": "mulG", "a": str(a)} for a in ss]
    pairs = list(itertools.product(ss[:8] + ss[-2:], repeat=2)) if tier == "quick" else list(itertools.product(ss, repeat=2))
    cases += [{"op": "lin", "a": str(a), "b": str(b)} for a, b in pairs]
    npts = len(real_points(tier))
    cases += [{"op": "ptadd", "t": tier, "i": i, "j": j} for i in range(npts) for j in range(npts)]
    # scalar multiples of A and (beta*x, y) for every base x
    cases += [{"op": "ptmul", "t": tier, "i": i, "k": str(k)} for base in range(0, npts, 6) for i in (base, base + 2) for k in PT_SCALARS]
    return cases


def run_real_mul(case):
    from buidl import pecc

    res = Res()
    c = ec.SECP
    G = pecc.G

    def un(Q):
        if isinstance(Q, Rejected) or Q is HANG:
            return Q
        return None if Q.x is None else (Q.x.num, Q.y.num)

    hfp = lambda fp, got: fp + "-does-not-terminate" if got is HANG else fp
    vc = {"engine": "real-mul", "case": case}
    mk = lambda P: pecc.S256Point(None, None) if P is None else pecc.S256Point(P[0], P[1])
    if case["op"] == "ptadd":
        pts = real_points(case["t"])
        X, Y = pts[case["i"]], pts[case["j"]]
        ref = c.add(X, Y)
        got = un(attempt(lambda: mk(X) + mk(Y)))
        if got != ref:
            res.violation(f"C03/real-mul/ptadd-{add_class(X, Y) if X[1] != Y[1] or X == Y else 'same-y'}", vc, got, ref, "X + Y wrong on secp256k1 (points of unknown discrete logarithm / equal y)")
        else:
            res.ok("X+Y==ref", nontrivial=("ptadd", case["i"], case["j"]), sample=case)
        e = [attempt(lambda: mk(X) == mk(Y)), attempt(lambda: mk(X) != mk(Y)), attempt(lambda: (mk(X) + mk(Y)) == mk(ref)), attempt(lambda: (mk(X) + mk(Y)) != mk(ref))]
        if e != [X == Y, X != Y, True, False] or any(not isinstance(v, bool) for v in e):
            res.violation("C03/real-mul/eq", vc, [repr(v) for v in e], [X == Y, X != Y, True, False], "S256Point == / != disagrees with equality of coordinates")
        else:
            res.ok("== / != agree with coordinates")
        return res
    if case["op"] == "ptmul":
        X = real_points(case["t"])[case["i"]]
        k = int(case["k"])
        ref = c.mul(k % N, X)
        assert ref == c.mul_affine(k % N, X)
        got = un(guarded(LIMIT_REAL, lambda: k * mk(X)))
        if got != ref:
            res.violation(hfp("C03/real-mul/ptmul", got), vc, got, ref, "k*X wrong on secp256k1 for a point of unknown discrete logarithm")
        else:
            res.ok("kX==ref", nontrivial=("ptmul", case["i"], case["k"]))
        return res
    a = int(case["a"])
    if case["op"] == "mulG":
        got = un(guarded(LIMIT_REAL, lambda: a * G))
        ref = c.mulg(a % N)
        if got != ref:
            res.violation(hfp("C03/real-mul/mulG", got), vc, got, ref, "a*G wrong on secp256k1")
        else:
            res.ok("aG==ref", nontrivial=("mulG", case["a"]), sample=case)
        if 1 <= a <= N - 1:
            priv = attempt(pecc.PrivateKey, a)
            if isinstance(priv, Rejected) or un(priv.point) != ref:
                res.violation("C03/real-mul/privkey-point", vc, repr(priv), ref, "PrivateKey(a).point != a*G")
            else:
                res.ok("PrivateKey.point==ref")
        # n*P = infinity
        if ref is not None:
            got = un(guarded(LIMIT_REAL, lambda: N * pecc.S256Point(ref[0], ref[1])))
            if got is not None:
                res.violation(hfp("C03/real-mul/nP", got), vc, got, None, "n*P != infinity")
            else:
                res.ok("nP==inf")
        return res
    b = int(case["b"])
    A = c.mulg(a % N)
    B = c.mulg(b % N)
    # aG + bG == (a+b)G  == reference
    got = un(attempt(lambda: mk(A) + mk(B)))
    ref = c.add(A, B)
    assert ref == c.mulg((a + b) % N)
    if got != ref:
        cls = "equal" if A == B else ("opposite" if A and B and A[0] == B[0] else ("infinity" if A is None or B is None else "generic"))
        res.violation(f"C03/real-mul/add-{cls}", vc, got, ref, "aG + bG != (a+b)G")
    else:
        res.ok("aG+bG==(a+b)G", nontrivial=("add", case["a"], case["b"]))
    # the same identity and operand equality through the library's own == / !=
    e = [attempt(lambda: (mk(A) + mk(B)) == mk(ref)), attempt(lambda: (mk(A) + mk(B)) != mk(ref)), attempt(lambda: mk(A) == mk(B)), attempt(lambda: mk(A) != mk(B))]
    if e != [True, False, A == B, A != B] or any(not isinstance(v, bool) for v in e):
        res.violation("C03/real-mul/eq", vc, [repr(v) for v in e], [True, False, A == B, A != B], "S256Point == / != disagrees with equality of coordinates")
    else:
        res.ok("== / != agree with coordinates")
    # a(bG) == (ab)G
    if B is not None:
        got = un(guarded(LIMIT_REAL, lambda: a * mk(B)))
        ref = c.mulg(a * b % N)
        if got != ref:
            res.violation(hfp("C03/real-mul/a(bG)", got), vc, got, ref, "a(bG) != (ab)G")
        else:
            res.ok("a(bG)==(ab)G", nontrivial=("mulmul", case["a"], case["b"]))
        # a(-B) right after a(B) in the same process, -(-B) and B + (-B)
        nB = c.neg(B)
        got = un(guarded(LIMIT_REAL, lambda: a * mk(nB)))
        ref = c.mulg((-a * b) % N)
        if got != ref:
            res.violation(hfp("C03/real-mul/a(-B)-after-a(B)", got), vc, got, ref, "a * (-B) wrong after a * B was computed in the same process")
        else:
            res.ok("a(-B)==ref", nontrivial=("mulneg", case["a"], case["b"]))
        got = un(attempt(lambda: -1 * (-1 * mk(B))))
        if got != B:
            res.violation("C03/real-mul/double-negation", vc, got, B, "-1 * (-1 * B) != B")
        elif un(attempt(lambda: mk(B) + (-1 * mk(B)))) is not None:
            res.violation("C03/real-mul/B+(-B)", vc, "not infinity", None, "B + (-1 * B) is not infinity")
        else:
            res.ok("negation identities")
        # P + int
        got = un(attempt(lambda: mk(B) + a))
        ref = c.add(B, c.mulg(a % N))
        if got != ref:
            res.violation("C03/real-mul/point+int", vc, got, ref, "P + a != P + aG")
        else:
            res.ok("P+int")
    return res


def gen_real_enc(tier, seed):
    ss = [s for s in real_scalars(seed, tier) if s % N]
    cases = [{"kind": "roundtrip", "a": str(a % N)} for a in ss]
    # points that are not multiples of G by a boundary scalar (tiny x: 31 bytes of zero padding; equal-y triples)
    cases += [{"kind": "roundtrip", "a": "point", "pt": [str(Q[0]), str(Q[1])]} for Q in real_points(tier)]
    # every value of the leading byte of x (x-only strings that start like a SEC prefix, ...), both y parities
    for Q in leadbyte_points():
        cases.append({"kind": "roundtrip", "a": "leadbyte", "pt": [str(Q[0]), str(Q[1])]})
        cases.append({"kind": "roundtrip", "a": "leadbyte-neg", "pt": [str(Q[0]), str(PP - Q[1])]})
    c = ec.SECP
    Gx = c.g[0]
    # x without a square root
    x_bad = next(x for x in range(1, 100) if c.lift_x(x) is None)
    x_ok = next(x for x in range(1, 100) if c.lift_x(x) is not None)
    rej = []
    for pf in (0, 1, 5, 6, 7, 0x82, 0xFF):
        rej.append(("prefix33", bytes([pf]) + ec.b32(Gx)))
    for pf in (0, 1, 2, 3, 5, 6, 7):
        rej.append(("prefix65", bytes([pf]) + ec.b32(c.g[0]) + ec.b32(c.g[1])))
    rej += [
        ("x=0-02", b"\x02" + ec.b32(0)),
        ("x=0-03", b"\x03" + ec.b32(0)),
        ("x=0-04-y=0", b"\x04" + ec.b32(0) + ec.b32(0)),
        ("x-nosqrt-02", b"\x02" + ec.b32(x_bad)),
        ("x-nosqrt-03", b"\x03" + ec.b32(x_bad)),
        ("x>=p-02", b"\x02" + ec.b32(PP)),
        ("x>=p+xok", b"\x02" + ec.b32(PP + x_ok)),
        ("x=2^256-1", b"\x03" + b"\xff" * 32),
        ("65-offcurve", b"\x04" + ec.b32(c.g[0]) + ec.b32(c.g[1] + 1)),
        ("65-y>=p", b"\x04" + ec.b32(x_ok) + ec.b32(c.lift_x(x_ok)[1] + PP) if c.lift_x(x_ok)[1] + PP < 2**256 else b"\x04" + ec.b32(x_ok) + b"\xff" * 32),
        ("04-33bytes", b"\x04" + ec.b32(Gx)),
        ("02-65bytes-zero-padded-x", b"\x02" + b"\x00" * 32 + ec.b32(Gx)),
        ("03-65bytes", b"\x03" + ec.b32(c.g[0]) + ec.b32(c.g[1])),
        ("len31", ec.b32(Gx)[1:]),
        ("len34", b"\x02" + ec.b32(Gx) + b"\x00"),
        ("len64", ec.b32(c.g[0]) + ec.b32(c.g[1])),
        ("len66", b"\x04" + ec.b32(c.g[0]) + ec.b32(c.g[1]) + b"\x00"),
        ("len0", b""),
        ("xonly-nosqrt", ec.b32(x_bad)),
        ("xonly>=p", ec.b32(PP + x_ok)),
        ("xonly-2^256-1", b"\xff" * 32),
    ]
    # uncompressed strings whose x is >= p but congruent to the x of a curve point (x_ok + p < 2^256 because x_ok is tiny;
    # no such alias exists for y: it would need a point with y < 2^32 + 977)
    for nm, Q in (("65-x>=p-alias-even", c.lift_x(x_ok)), ("65-x>=p-alias-odd", c.lift_x(x_ok, odd=True))):
        rej.append((nm, b"\x04" + ec.b32(Q[0] + PP) + ec.b32(Q[1])))
    cases += [{"kind": "reject", "name": nm, "bytes": b.hex()} for nm, b in rej]
    # the direct entry points parse_xonly / parse_sec (S256Point.parse routes by length; these do not)
    gx, gy = ec.b32(c.g[0]), ec.b32(c.g[1])
    direct = [
        ("parse_xonly", "honest-32", gx),
        ("parse_xonly", "len0", b""),
        ("parse_xonly", "len1", b"\x01"),
        ("parse_xonly", "len31", gx[1:]),
        ("parse_xonly", "len31-of-short-x", ec.b32(x_ok)[1:]),
        ("parse_xonly", "len33-zero-padded", b"\x00" + gx),
        ("parse_xonly", "len33-02", b"\x02" + gx),
        ("parse_xonly", "len33-trailing", gx + b"\x00"),
        ("parse_xonly", "len33-zeros", b"\x00" * 33),
        ("parse_xonly", "len64", gx + gy),
        ("parse_xonly", "len64-zero-padded", b"\x00" * 32 + gx),
        ("parse_xonly", "len65-zero-padded", b"\x00" * 33 + gx),
        ("parse_xonly", "len65-04", b"\x04" + gx + gy),
        ("parse_sec", "honest-33", b"\x02" + gx),
        ("parse_sec", "honest-65", b"\x04" + gx + gy),
        ("parse_sec", "len0", b""),
        ("parse_sec", "len1-02", b"\x02"),
        ("parse_sec", "len1-04", b"\x04"),
        ("parse_sec", "len32-02", b"\x02" + gx[1:]),
        ("parse_sec", "len32-x", gx),
        ("parse_sec", "len34-02", b"\x02" + gx + b"\x00"),
        ("parse_sec", "len64-04", b"\x04" + gx + gy[:-1]),
        ("parse_sec", "len66-04", b"\x04" + gx + gy + b"\x00"),
        ("parse_sec", "len65-02", b"\x02" + gx + gy),
        ("parse_sec", "len33-04", b"\x04" + gx),
    ]
    cases += [{"kind": "direct", "fn": fn, "name": nm, "bytes": b.hex()} for fn, nm, b in direct]
    return cases


def run_real_enc(case):
    from buidl import pecc

    res = Res()
    c = ec.SECP
    vc = {"engine": "real-enc", "case": case}

    def un(Q):
        if isinstance(Q, Rejected):
            return None
        return "inf" if Q.x is None else (Q.x.num, Q.y.num)

    if case["kind"] == "direct":
        b = bytes.fromhex(case["bytes"])
        if case["fn"] == "parse_xonly":
            ref = c.lift_x(int.from_bytes(b, "big")) if len(b) == 32 else None
            got = un(attempt(pecc.S256Point.parse_xonly, b))
        else:
            ref = c.parse_sec(b)
            got = un(attempt(pecc.S256Point.parse_sec, b))
        if got != ref:
            cls = "wrong-length-accepted" if len(b) not in ((32,) if case["fn"] == "parse_xonly" else (33, 65)) else "mismatch"
            res.violation(f"C03/real-enc/direct/{case['fn']}-{cls}", vc, got, ref, f"{case['fn']} called directly on a {len(b)}-byte string: decode differs from the reference")
        else:
            res.ok("direct==ref", nontrivial=("direct", case["fn"], case["name"]), sample=case)
        return res
    if case["kind"] == "roundtrip":
        P = (int(case["pt"][0]), int(case["pt"][1])) if "pt" in case else c.mulg(int(case["a"]))
        o = pecc.S256Point(P[0], P[1])
        for comp in (True, False):
            sec = attempt(o.sec, comp)
            if sec != c.sec(P, comp):
                res.violation(f"C03/real-enc/sec-{'c' if comp else 'u'}", vc, sec, c.sec(P, comp), "sec() wrong")
            elif un(attempt(pecc.S256Point.parse, sec)) != P:
                res.violation(f"C03/real-enc/sec-roundtrip-{'c' if comp else 'u'}", vc, None, P, "parse(sec) != P")
            else:
                res.ok("sec roundtrip", nontrivial=("sec", case["a"], case.get("pt"), comp))
        xo = attempt(o.xonly)
        if xo != ec.b32(P[0]) or un(attempt(pecc.S256Point.parse, xo)) != c.lift_x(P[0]):
            res.violation("C03/real-enc/xonly-roundtrip" + ("/by-leading-byte-of-x" if str(case["a"]).startswith("leadbyte") else ""), vc, xo, ec.b32(P[0]), "xonly round trip wrong")
        else:
            res.ok("xonly roundtrip", nontrivial=("xonly", case["a"], case.get("pt")))
        return res
    b = bytes.fromhex(case["bytes"])
    ref = c.parse_sec(b) if len(b) != 32 else c.lift_x(int.from_bytes(b, "big"))
    got = un(attempt(pecc.S256Point.parse, b))
    if got != ref:
        res.violation(f"C03/real-enc/reject/{case['name']}", vc, got, ref, "byte string that does not encode a curve point is accepted (or a valid one mis-decoded)")
    else:
        res.ok("reject==ref", nontrivial=("rej", case["name"]), sample=case)
    return res


def engines(tier, seed):
    toys = [(43, 31), (79, 67)] if tier == "quick" else [(43, 31), (79, 67), (67, 79), (163, 139), (211, 199)]
    es = [
        Engine("field", gen_field, run_field, kind="E1", rule="FieldElement over every prime p <= 31: all pairs for + - * / == !=, == against the same residue of the next prime field, all exponents and coefficients in [-p, 2p] vs integer arithmetic mod p (0 ** non-positive and x / 0 skipped); big fields (S256Field and FieldElement modulo the secp256k1 p, FieldElement modulo 2^127-1 and 65537): all pairs of the 9 elements {0,1,2,q-2,q-1,(q-1)/2,(q+1)/2, 2 fillers} for + - * / == !=, 14 exponents {0,1,2,3,-1,-2,q-2,q-1,q,2(q-1),(q+1)/4,-(q-1),2^256+1,filler}, 10 coefficients {-1,0,1,2,3,q,q+1,2^256,-2^256,filler} vs Python integer arithmetic; S256Field.sqrt on a, a^2, -a^2 (oracle: Euler's criterion and r*r == v)"),
        Engine("curve", gen_curve, run_curve, kind="E1", rule="generic Point on y^2=x^3+7 over every prime 11..61 (thorough ..101): complete addition table incl. infinity/opposite/doubling/y=0, == and != on every pair, all k*P for k in [0, 2*order], for k in [-2*order, -1] and for k in {2^256, 2^256+1, -2^256, -2^256-1} (each scalar multiplication under a 5 s guard: no return = does-not-terminate; after one non-terminating negative scalar the remaining negative scalars of that curve are not executed and the run is reported capped), every off-curve (x,y) refused, associativity on all triples for p <= 23; oracle: brute-force chord-tangent reference, k*P = |k|*(-P) for k < 0"),
        Engine("curve-ab", gen_curve_ab, run_curve_ab, kind="E1", rule="generic Point on EVERY non-singular y^2=x^3+ax+b over F_p, all (a,b) in F_p^2, every prime 5..23 (thorough ..31): complete addition table incl. infinity/opposite/doubling/y=0, == and != on every pair, k*P for every k with |k| <= order+1 (quick tier: |k| <= min(order+1, 12) and k in {+-(order-1), +-order, +-(order+1)}; 5 s guard as in `curve`), every off-curve (x,y) refused; singular (a,b) skipped and counted; oracle: chord-tangent reference with the general doubling slope (3x^2+a)/(2y)"),
    ]
    for toy in toys:
        es.append(Engine(f"toy-points-{toy[0]}", gen_toy_points(toy), run_toy_points, toy=toy, kind="E3", rule=f"toy S256Point (p={toy[0]}, n={toy[1]}): all point pairs, P + int for int in [-n, 2n], s*P for s in [-2n, 3n] (5 s guard), sec/xonly/parse round trips on every point; on every pair also the library's == and !=, (P+Q) == reference through ==, S256Point.combine of [P,Q], [P,Q,R], [R,P,Q] for R in {{inf, G, -G}}, x += Q (sum and operand unchanged); on every point P+(-P)==inf, P+P==2P, nP==inf, -1*P==-P through ==, even_point(), construction from S256Field coordinates (same coordinates, parity, sec, +, *) and from mixed int/S256Field arguments (refused or the same point)"))
        es.append(Engine(f"toy-decode-{toy[0]}", gen_toy_decode(toy), run_toy_decode, toy=toy, kind="E3", rule=f"toy S256Point.parse on every 33-byte string (256 prefixes x x in [0,p+2] and two huge x), 65-byte strings (10 prefixes x all (x,y) in [0,p]^2; prefix 04: all (x,y) in [0,2p+2]^2 so that every point also occurs with x+p and/or y+p) and x-only strings: accepted iff the SEC1/BIP340 reference decoder accepts, same point; parse_xonly called directly on the same x values encoded in 0,1,2,16,31,33,34,64,65 bytes (zero padded, trailing zero, 02/03/04 prefixed, doubled): must be refused, and on 32 bytes: lift_x; parse_sec called directly with 9 prefixes on lengths 0,1,2,32,33,34,64,65,66 built from the same x (and both roots y): SEC1 reference; S256Field.sqrt on every element of the toy field vs the table of squares (32 zero bytes as x-only: counted skip)"))
    es += [
        Engine("real-mul", gen_real_mul, run_real_mul, kind="E1", rule="secp256k1: boundary scalars (0,1,n-1,n,n+1,negative,>2^256,+fillers): a*G, PrivateKey(a).point, n*P, aG+bG=(a+b)G (also through the library's == / !=), a(bG)=(ab)G, P+int against the Jacobian reference (itself cross-checked with an affine implementation); points not generated from boundary scalars: for the first 2 (thorough 4) small x on the curve the 6 points (x,±y), (beta x,±y), (beta^2 x,±y) (equal y, different x): all pairs X+Y (incl. == / !=) vs the affine reference, k*X for k in {2,-1,2^255,2^256-1,n/2,n/2+1,-(2^300)-7} on (x,y) and (beta x,y); scalar multiplications under a 120 s guard"),
        Engine("real-enc", gen_real_enc, run_real_enc, kind="E1", rule="secp256k1: sec/xonly round trips on boundary points, on the small-x / equal-y points of real-mul and on one multiple of G (and its negation) for EVERY value 01..ff of the leading byte of x; rejection catalogue (bad prefixes, x without square root, x >= p, off-curve y, wrong lengths incl. 65-byte strings with prefix 02/03, 04 || x+p || y for a curve point (x,y)); parse_xonly and parse_sec called directly on 25 strings of lengths 0,1,31,32,33,34,64,65,66 (zero padded, prefixed, truncated, extended): SEC1 / BIP340 reference, only 32 resp. 33/65 bytes can be accepted"),
    ]
    return es
