"""C03 — group law and public-key encodings.

E1 field:   FieldElement over every prime p <= 31, complete operation tables vs integers mod p.
E1 curve:   generic Point over y^2 = x^3 + 7 for every prime 11 <= p <= 61 (101 thorough): complete
            addition table (infinity, opposite, doubling incl. y = 0) and scalar multiples vs a brute-force group law.
E3 toy-*:   the toy instantiation of S256Point: all pairs, all scalars, all encodings, all candidate byte strings.
E1 real-*:  secp256k1 boundary scalars / point pairs / encodings against the Jacobian reference.
"""
import itertools

from mc.core import Engine, Res, attempt, Rejected, filler_int, current_toy
from mc.ref import ec

PROP = "C03"


def primes(lo, hi):
    return [p for p in range(lo, hi + 1) if p > 1 and all(p % q for q in range(2, int(p**0.5) + 1))]


# ------------------------------------------------------------------ FieldElement
def gen_field(tier, seed):
    return [{"p": p} for p in primes(2, 31)]


def run_field(case):
    from buidl.pecc import FieldElement

    res = Res()
    p = case["p"]
    vc = lambda op, a, b: {"engine": "field", "case": dict(case, only=[op, a, b])}
    only = case.get("only")
    els = [FieldElement(i, p) for i in range(p)]
    for a in range(p):
        for b in range(p):
            for op, fn, ref in (
                ("add", lambda x, y: x + y, (a + b) % p),
                ("sub", lambda x, y: x - y, (a - b) % p),
                ("mul", lambda x, y: x * y, (a * b) % p),
            ):
                if only and only != [op, a, b]:
                    continue
                got = attempt(fn, els[a], els[b])
                if isinstance(got, Rejected) or got.num != ref or got.prime != p:
                    res.violation(f"C03/field/{op}", vc(op, a, b), repr(got), ref, f"FieldElement {op} wrong in F_{p}")
                else:
                    res.bulk(f"{op}==ref", 1, 1)
            if not only or only == ["div", a, b]:
                if b == 0:
                    res.skip("division by zero (undefined)")
                else:
                    got = attempt(lambda x, y: x / y, els[a], els[b])
                    ref = a * pow(b, -1, p) % p
                    if isinstance(got, Rejected) or got.num != ref:
                        res.violation("C03/field/div", vc("div", a, b), repr(got), ref, f"FieldElement division wrong in F_{p}")
                    else:
                        res.bulk("div==ref", 1, 1)
        for e in range(-p, 2 * p + 1):
            if only and only != ["pow", a, e]:
                continue
            if a == 0 and e <= 0:
                res.skip("0 ** non-positive exponent (undefined / convention)")
                continue
            ref = pow(a, e, p)
            got = attempt(lambda x: x**e, els[a])
            if isinstance(got, Rejected) or got.num != ref:
                cls = "pow-zero-base" if a == 0 else "pow"
                res.violation(f"C03/field/{cls}", vc("pow", a, e), repr(got), ref, f"FieldElement({a},{p}) ** {e} wrong")
            else:
                res.bulk("pow==ref", 1, 1)
        for c in range(-p, 2 * p + 1):
            if only and only != ["rmul", a, c]:
                continue
            got = attempt(lambda x: c * x, els[a])
            ref = a * c % p
            if isinstance(got, Rejected) or got.num != ref:
                res.violation("C03/field/rmul", vc("rmul", a, c), repr(got), ref, "coefficient * FieldElement wrong")
            else:
                res.bulk("rmul==ref", 1, 1)
    return res


# ------------------------------------------------------------------ generic Point on small curves
def small_curve_points(p):
    return [None] + [(x, y) for x in range(p) for y in range(p) if (y * y - x * x * x - 7) % p == 0]


def gen_curve(tier, seed):
    hi = 61 if tier == "quick" else 101
    return [{"p": p} for p in primes(11, hi)]


def run_curve(case):
    from buidl.pecc import FieldElement, Point

    res = Res()
    p = case["p"]
    c = ec.Curve(p, 0, None)
    pts = small_curve_points(p)
    a, b = FieldElement(0, p), FieldElement(7, p)
    only = case.get("only")

    def mk(P):
        if P is None:
            return Point(None, None, a, b)
        return Point(FieldElement(P[0], p), FieldElement(P[1], p), a, b)

    def un(Q):
        if isinstance(Q, Rejected):
            return Q
        return None if Q.x is None else (Q.x.num, Q.y.num)

    objs = {P: mk(P) for P in pts}
    ptset = set(pts)
    vc = lambda op, x, y: {"engine": "curve", "case": dict(case, only=[op, x, y])}
    for P in pts:
        for Q in pts:
            if only and only != ["add", P and list(P), Q and list(Q)]:
                continue
            ref = c.add(P, Q)
            got = un(attempt(lambda x, y: x + y, objs[P], objs[Q]))
            if got != ref:
                if P is not None and P == Q and P[1] == 0:
                    cls = "double-y0"
                elif P is not None and P == Q:
                    cls = "double"
                elif P is None or Q is None:
                    cls = "identity"
                elif P[0] == Q[0]:
                    cls = "opposite"
                else:
                    cls = "chord"
                res.violation(f"C03/curve/add-{cls}", vc("add", P, Q), got, ref, f"Point addition wrong on y^2=x^3+7 over F_{p}")
            else:
                assert ref in ptset
                res.bulk("add==ref", 1, 1)
    # scalar multiples
    order = len(pts)
    for P in pts:
        acc = None
        for k in range(0, 2 * order + 1):
            if only and only != ["mul", P and list(P), k]:
                acc = c.add(acc, P)
                continue
            got = un(attempt(lambda x: k * x, objs[P]))
            if got != acc:
                cls = "mul-y0" if P and P[1] == 0 else "mul"
                res.violation(f"C03/curve/{cls}", vc("mul", P, k), got, acc, f"k*P wrong over F_{p}")
            else:
                res.bulk("mul==ref", 1, 1)
            acc = c.add(acc, P)
    # off-curve points must be refused by the constructor
    for x in range(p):
        for y in range(p):
            if (x, y) in ptset:
                continue
            if only and only != ["offcurve", x, y]:
                continue
            got = attempt(lambda: Point(FieldElement(x, p), FieldElement(y, p), a, b))
            if not isinstance(got, Rejected):
                res.violation("C03/curve/offcurve-accepted", vc("offcurve", x, y), repr(got), "rejected", "off-curve point constructed")
            else:
                res.bulk("offcurve rejected", 1, 1)
    # associativity directly on all triples for small p
    if p <= 23 and not only:
        for P, Q, R in itertools.product(pts, repeat=3):
            l = un(attempt(lambda: (objs[P] + objs[Q]) + objs[R]))
            r = un(attempt(lambda: objs[P] + (objs[Q] + objs[R])))
            if isinstance(l, Rejected) or isinstance(r, Rejected):
                if P and P[1] == 0 or Q and Q[1] == 0 or R and R[1] == 0 or any(X and X[1] == 0 for X in (c.add(P, Q), c.add(Q, R))):
                    res.violation("C03/curve/add-double-y0", vc("assoc", [P, Q], R), repr((l, r)), "defined", "associativity triple hits doubling of a y=0 point")
                else:
                    res.violation("C03/curve/assoc-raises", vc("assoc", [P, Q], R), repr((l, r)), "defined", "addition raises")
            elif l != r:
                res.violation("C03/curve/assoc", vc("assoc", [P, Q], R), l, r, "associativity fails")
            else:
                res.bulk("assoc", 1, 1)
    return res


# ------------------------------------------------------------------ toy S256Point
def gen_toy_points(toy):
    def g(tier, seed):
        c = ec.toy_curve(*toy)
        return [{"toy": list(toy), "k": k} for k in range(c.n)]

    return g


def run_toy_points(case):
    from buidl import pecc

    res = Res()
    toy = tuple(case["toy"])
    assert current_toy() == toy and pecc.N == toy[1] and pecc.P == toy[0]
    c = ec.toy_curve(*toy)
    n, p = c.n, c.p
    only = case.get("only")

    def mk(P):
        return pecc.S256Point(None, None) if P is None else pecc.S256Point(P[0], P[1])

    def un(Q):
        if isinstance(Q, Rejected):
            return Q
        return None if Q.x is None else (Q.x.num, Q.y.num)

    vc = lambda op, x: {"engine": f"toy-points-{p}", "toy": list(toy), "case": dict(case, only=[op, x])}
    k = case["k"]
    P = c.mul_affine(k, c.g)
    oP = mk(P)
    for j in range(n):
        if only and only != ["add", j]:
            continue
        Q = c.mul_affine(j, c.g)
        got = un(attempt(lambda: oP + mk(Q)))
        ref = c.add(P, Q)
        if got != ref:
            res.violation("C03/toy-points/add", vc("add", j), got, ref, "S256Point + S256Point wrong")
        else:
            res.bulk("add==ref", 1, 1)
    for j in range(-n, 2 * n + 1):
        if only and only != ["addint", j]:
            continue
        got = un(attempt(lambda: oP + j))
        ref = c.add(P, c.mul_affine(j % n, c.g))
        if got != ref:
            res.violation("C03/toy-points/add-int", vc("addint", j), got, ref, "S256Point + int wrong")
        else:
            res.bulk("addint==ref", 1, 1)
    for s in range(-2 * n, 3 * n + 1):
        if only and only != ["rmul", s]:
            continue
        got = un(attempt(lambda: s * oP))
        ref = c.mul_affine(s % n, P) if P else None
        if got != ref:
            res.violation("C03/toy-points/rmul", vc("rmul", s), got, ref, "scalar * S256Point wrong")
        else:
            res.bulk("rmul==ref", 1, 1)
    if P is not None and not only:
        # k*P was just computed for every k; now k*(-P) and (-P) + P in the same process (state shared between a
        # point and its negation would show here)
        nP = c.neg(P)
        onP = mk(nP)
        for s in list(range(-3, 4)) + [n - 1, n + 1]:
            got = un(attempt(lambda: s * onP))
            ref = c.mul_affine(s % n, nP)
            if got != ref:
                res.violation("C03/toy-points/rmul-of-negated-point-after-point", vc("rmul-neg", s), got, ref, "s * (-P) wrong after s * P was computed in the same process")
            else:
                res.bulk("rmul(-P)==ref", 1, 1)
        if un(attempt(lambda: oP + onP)) is not None:
            res.violation("C03/toy-points/P+(-P)", vc("add-neg", 0), "not infinity", None, "P + (-P) is not infinity")
        else:
            res.bulk("P+(-P)==inf", 1, 1)
    if P is not None and (not only or only[0] == "enc"):
        for comp in (True, False):
            sec = attempt(oP.sec, comp)
            if sec != c.sec(P, comp):
                res.violation("C03/toy-points/sec", vc("enc", comp), sec, c.sec(P, comp), "sec() wrong")
                continue
            back = un(attempt(pecc.S256Point.parse, sec))
            if back != P:
                res.violation("C03/toy-points/sec-roundtrip", vc("enc", comp), back, P, "parse(sec()) != point")
            else:
                res.bulk("sec roundtrip", 1, 1)
        xo = attempt(oP.xonly)
        if xo != ec.b32(P[0]):
            res.violation("C03/toy-points/xonly", vc("enc", "x"), xo, ec.b32(P[0]), "xonly() wrong")
        else:
            back = un(attempt(pecc.S256Point.parse, xo))
            ref = c.lift_x(P[0])
            if back != ref:
                res.violation("C03/toy-points/xonly-roundtrip", vc("enc", "x"), back, ref, "parse(xonly()) is not the even-Y lift")
            else:
                res.bulk("xonly roundtrip", 1, 1)
    return res


def gen_toy_decode(toy):
    def g(tier, seed):
        p = toy[0]
        cases = [{"toy": list(toy), "kind": "sec33", "prefix": pf} for pf in range(256)]
        cases += [{"toy": list(toy), "kind": "sec65", "prefix": pf} for pf in (0, 1, 2, 3, 4, 5, 6, 7, 0x84, 0xFF)]
        cases += [{"toy": list(toy), "kind": "xonly"}]
        return cases

    return g


def run_toy_decode(case):
    from buidl import pecc

    res = Res()
    toy = tuple(case["toy"])
    assert current_toy() == toy
    c = ec.toy_curve(*toy)
    p = c.p
    only = case.get("only")
    vc = lambda x: {"engine": f"toy-decode-{p}", "toy": list(toy), "case": dict(case, only=x)}

    def un(Q):
        if isinstance(Q, Rejected):
            return None
        return "inf" if Q.x is None else (Q.x.num, Q.y.num)

    xs = list(range(0, p + 3)) + [2**255, 2**256 - 1]
    if case["kind"] == "sec33":
        pf = case["prefix"]
        for x in xs:
            if only is not None and only != x:
                continue
            b = bytes([pf]) + ec.b32(x)
            ref = c.parse_sec(b)
            got = un(attempt(pecc.S256Point.parse, b))
            if got != ref:
                cls = f"prefix-{pf:02x}" if pf not in (2, 3) else "compressed"
                if pf not in (2, 3, 4):
                    cls = "bad-prefix-accepted"
                res.violation(f"C03/toy-decode/sec33-{cls}", vc(x), got, ref, "33-byte string: decode differs from SEC1")
            else:
                res.ok("sec33==ref", nontrivial=(pf, x))
    elif case["kind"] == "sec65":
        pf = case["prefix"]
        for x in xs[: p + 1]:
            for y in range(0, p + 1):
                if only is not None and only != [x, y]:
                    continue
                b = bytes([pf]) + ec.b32(x) + ec.b32(y)
                ref = c.parse_sec(b)
                got = un(attempt(pecc.S256Point.parse, b))
                if got != ref:
                    cls = "bad-prefix-accepted" if pf != 4 else "uncompressed"
                    res.violation(f"C03/toy-decode/sec65-{cls}", vc([x, y]), got, ref, "65-byte string: decode differs from SEC1")
                else:
                    res.bulk("sec65==ref", 1, 1)
    else:
        for x in xs:
            if only is not None and only != x:
                continue
            if x == 0:
                res.skip("x-only 00..00: the library's own encoding of infinity (round-trips with xonly()); not asserted")
                continue
            b = ec.b32(x)
            ref = c.lift_x(x)
            got = un(attempt(pecc.S256Point.parse, b))
            if got != ref:
                res.violation("C03/toy-decode/xonly", vc(x), got, ref, "32-byte string: decode differs from lift_x")
            else:
                res.ok("xonly==ref", nontrivial=("x", x))
    return res


# ------------------------------------------------------------------ secp256k1
N = ec.SECP.n
PP = ec.SECP.p


def real_scalars(seed, tier):
    s = [0, 1, 2, 3, N - 1, N, N + 1, -1, -2, -N, 2 * N + 3, 2**256 + 5, 2**128, (N - 1) // 2]
    s += [filler_int(seed, "c03scalar", i, 1, N - 1) for i in range(2 if tier == "quick" else 10)]
    return s


def gen_real_mul(tier, seed):
    ss = real_scalars(seed, tier)
    cases = [{"op": "mulG", "a": str(a)} for a in ss]
    pairs = list(itertools.product(ss[:8] + ss[-2:], repeat=2)) if tier == "quick" else list(itertools.product(ss, repeat=2))
    cases += [{"op": "lin", "a": str(a), "b": str(b)} for a, b in pairs]
    return cases


def run_real_mul(case):
    from buidl import pecc

    res = Res()
    c = ec.SECP
    G = pecc.G

    def un(Q):
        if isinstance(Q, Rejected):
            return Q
        return None if Q.x is None else (Q.x.num, Q.y.num)

    a = int(case["a"])
    vc = {"engine": "real-mul", "case": case}
    if case["op"] == "mulG":
        got = un(attempt(lambda: a * G))
        ref = c.mulg(a % N)
        if got != ref:
            res.violation("C03/real-mul/mulG", vc, got, ref, "a*G wrong on secp256k1")
        else:
            res.ok("aG==ref", nontrivial=("mulG", case["a"]), sample=case)
        if 1 <= a <= N - 1:
            priv = attempt(pecc.PrivateKey, a)
            if isinstance(priv, Rejected) or un(priv.point) != ref:
                res.violation("C03/real-mul/privkey-point", vc, repr(priv), ref, "PrivateKey(a).point != a*G")
            else:
                res.ok("PrivateKey.point==ref")
        # n*P = infinity
        if ref is not None:
            got = un(attempt(lambda: N * pecc.S256Point(ref[0], ref[1])))
            if got is not None:
                res.violation("C03/real-mul/nP", vc, got, None, "n*P != infinity")
            else:
                res.ok("nP==inf")
        return res
    b = int(case["b"])
    A = c.mulg(a % N)
    B = c.mulg(b % N)
    mk = lambda P: pecc.S256Point(None, None) if P is None else pecc.S256Point(P[0], P[1])
    # aG + bG == (a+b)G  == reference
    got = un(attempt(lambda: mk(A) + mk(B)))
    ref = c.add(A, B)
    assert ref == c.mulg((a + b) % N)
    if got != ref:
        cls = "equal" if A == B else ("opposite" if A and B and A[0] == B[0] else ("infinity" if A is None or B is None else "generic"))
        res.violation(f"C03/real-mul/add-{cls}", vc, got, ref, "aG + bG != (a+b)G")
    else:
        res.ok("aG+bG==(a+b)G", nontrivial=("add", case["a"], case["b"]))
    # a(bG) == (ab)G
    if B is not None:
        got = un(attempt(lambda: a * mk(B)))
        ref = c.mulg(a * b % N)
        if got != ref:
            res.violation("C03/real-mul/a(bG)", vc, got, ref, "a(bG) != (ab)G")
        else:
            res.ok("a(bG)==(ab)G", nontrivial=("mulmul", case["a"], case["b"]))
        # a(-B) right after a(B) in the same process, -(-B) and B + (-B)
        nB = c.neg(B)
        got = un(attempt(lambda: a * mk(nB)))
        ref = c.mulg((-a * b) % N)
        if got != ref:
            res.violation("C03/real-mul/a(-B)-after-a(B)", vc, got, ref, "a * (-B) wrong after a * B was computed in the same process")
        else:
            res.ok("a(-B)==ref", nontrivial=("mulneg", case["a"], case["b"]))
        got = un(attempt(lambda: -1 * (-1 * mk(B))))
        if got != B:
            res.violation("C03/real-mul/double-negation", vc, got, B, "-1 * (-1 * B) != B")
        elif un(attempt(lambda: mk(B) + (-1 * mk(B)))) is not None:
            res.violation("C03/real-mul/B+(-B)", vc, "not infinity", None, "B + (-1 * B) is not infinity")
        else:
            res.ok("negation identities")
        # P + int
        got = un(attempt(lambda: mk(B) + a))
        ref = c.add(B, c.mulg(a % N))
        if got != ref:
            res.violation("C03/real-mul/point+int", vc, got, ref, "P + a != P + aG")
        else:
            res.ok("P+int")
    return res


def gen_real_enc(tier, seed):
    ss = [s for s in real_scalars(seed, tier) if s % N]
    cases = [{"kind": "roundtrip", "a": str(a % N)} for a in ss]
    c = ec.SECP
    Gx = c.g[0]
    # x without a square root
    x_bad = next(x for x in range(1, 100) if c.lift_x(x) is None)
    x_ok = next(x for x in range(1, 100) if c.lift_x(x) is not None)
    rej = []
    for pf in (0, 1, 5, 6, 7, 0x82, 0xFF):
        rej.append(("prefix33", bytes([pf]) + ec.b32(Gx)))
    for pf in (0, 1, 2, 3, 5, 6, 7):
        rej.append(("prefix65", bytes([pf]) + ec.b32(c.g[0]) + ec.b32(c.g[1])))
    rej += [
        ("x=0-02", b"\x02" + ec.b32(0)),
        ("x=0-03", b"\x03" + ec.b32(0)),
        ("x=0-04-y=0", b"\x04" + ec.b32(0) + ec.b32(0)),
        ("x-nosqrt-02", b"\x02" + ec.b32(x_bad)),
        ("x-nosqrt-03", b"\x03" + ec.b32(x_bad)),
        ("x>=p-02", b"\x02" + ec.b32(PP)),
        ("x>=p+xok", b"\x02" + ec.b32(PP + x_ok)),
        ("x=2^256-1", b"\x03" + b"\xff" * 32),
        ("65-offcurve", b"\x04" + ec.b32(c.g[0]) + ec.b32(c.g[1] + 1)),
        ("65-y>=p", b"\x04" + ec.b32(x_ok) + ec.b32(c.lift_x(x_ok)[1] + PP) if c.lift_x(x_ok)[1] + PP < 2**256 else b"\x04" + ec.b32(x_ok) + b"\xff" * 32),
        ("04-33bytes", b"\x04" + ec.b32(Gx)),
        ("02-65bytes-zero-padded-x", b"\x02" + b"\x00" * 32 + ec.b32(Gx)),
        ("03-65bytes", b"\x03" + ec.b32(c.g[0]) + ec.b32(c.g[1])),
        ("len31", ec.b32(Gx)[1:]),
        ("len34", b"\x02" + ec.b32(Gx) + b"\x00"),
        ("len64", ec.b32(c.g[0]) + ec.b32(c.g[1])),
        ("len66", b"\x04" + ec.b32(c.g[0]) + ec.b32(c.g[1]) + b"\x00"),
        ("len0", b""),
        ("xonly-nosqrt", ec.b32(x_bad)),
        ("xonly>=p", ec.b32(PP + x_ok)),
        ("xonly-2^256-1", b"\xff" * 32),
    ]
    cases += [{"kind": "reject", "name": nm, "bytes": b.hex()} for nm, b in rej]
    return cases


def run_real_enc(case):
    from buidl import pecc

    res = Res()
    c = ec.SECP
    vc = {"engine": "real-enc", "case": case}

    def un(Q):
        if isinstance(Q, Rejected):
            return None
        return "inf" if Q.x is None else (Q.x.num, Q.y.num)

    if case["kind"] == "roundtrip":
        P = c.mulg(int(case["a"]))
        o = pecc.S256Point(P[0], P[1])
        for comp in (True, False):
            sec = attempt(o.sec, comp)
            if sec != c.sec(P, comp):
                res.violation(f"C03/real-enc/sec-{'c' if comp else 'u'}", vc, sec, c.sec(P, comp), "sec() wrong")
            elif un(attempt(pecc.S256Point.parse, sec)) != P:
                res.violation(f"C03/real-enc/sec-roundtrip-{'c' if comp else 'u'}", vc, None, P, "parse(sec) != P")
            else:
                res.ok("sec roundtrip", nontrivial=("sec", case["a"], comp))
        xo = attempt(o.xonly)
        if xo != ec.b32(P[0]) or un(attempt(pecc.S256Point.parse, xo)) != c.lift_x(P[0]):
            res.violation("C03/real-enc/xonly-roundtrip", vc, xo, ec.b32(P[0]), "xonly round trip wrong")
        else:
            res.ok("xonly roundtrip", nontrivial=("xonly", case["a"]))
        return res
    b = bytes.fromhex(case["bytes"])
    ref = c.parse_sec(b) if len(b) != 32 else c.lift_x(int.from_bytes(b, "big"))
    got = un(attempt(pecc.S256Point.parse, b))
    if got != ref:
        res.violation(f"C03/real-enc/reject/{case['name']}", vc, got, ref, "byte string that does not encode a curve point is accepted (or a valid one mis-decoded)")
    else:
        res.ok("reject==ref", nontrivial=("rej", case["name"]), sample=case)
    return res


def engines(tier, seed):
    toys = [(43, 31), (79, 67)] if tier == "quick" else [(43, 31), (79, 67), (67, 79), (163, 139), (211, 199)]
    es = [
        Engine("field", gen_field, run_field, kind="E1", rule="FieldElement over every prime p <= 31: all pairs for + - * /, all exponents and coefficients in [-p, 2p] vs integer arithmetic mod p (0 ** non-positive and x / 0 skipped)"),
        Engine("curve", gen_curve, run_curve, kind="E1", rule="generic Point on y^2=x^3+7 over every prime 11..61 (thorough ..101): complete addition table incl. infinity/opposite/doubling/y=0, all k*P for k in [0, 2*order], every off-curve (x,y) refused, associativity on all triples for p <= 23; oracle: brute-force chord-tangent reference"),
    ]
    for toy in toys:
        es.append(Engine(f"toy-points-{toy[0]}", gen_toy_points(toy), run_toy_points, toy=toy, kind="E3", rule=f"toy S256Point (p={toy[0]}, n={toy[1]}): all point pairs, P + int for int in [-n, 2n], s*P for s in [-2n, 3n], sec/xonly/parse round trips on every point"))
        es.append(Engine(f"toy-decode-{toy[0]}", gen_toy_decode(toy), run_toy_decode, toy=toy, kind="E3", rule=f"toy S256Point.parse on every 33-byte string (256 prefixes x x in [0,p+2] and two huge x), 65-byte strings (10 prefixes x all (x,y) in [0,p]^2) and x-only strings: accepted iff the SEC1/BIP340 reference decoder accepts, same point"))
    es += [
        Engine("real-mul", gen_real_mul, run_real_mul, kind="E1", rule="secp256k1: boundary scalars (0,1,n-1,n,n+1,negative,>2^256,+fillers): a*G, PrivateKey(a).point, n*P, aG+bG=(a+b)G, a(bG)=(ab)G, P+int against the Jacobian reference (itself cross-checked with an affine implementation)"),
        Engine("real-enc", gen_real_enc, run_real_enc, kind="E1", rule="secp256k1: sec/xonly round trips on boundary points; rejection catalogue (bad prefixes, x without square root, x >= p, off-curve y, wrong lengths incl. 65-byte strings with prefix 02/03)"),
    ]
    return es
