"""C19 — P2P framing and primitive wire codecs are exact inverses and reject corruption.

Bounded-exhaustive enumerations (E1, plus one small E2 history search) of the real buidl code against
the independent byte layouts in mc.ref.p2pref.  Six worker pools ("engines"); "prims", "messages" and "frames"
bundle several sub-explorations (tagged `part` in the case descriptor) because on a busy machine the
pool start-up costs more than the whole exploration:

prims     [ints]   int_to_/…_to_int little/big endian, int_to_byte/byte_to_int: windows around every byte boundary
          [varint] encode_varint/read_varint/encode_varstr/read_varstr around every width boundary, stream position
envelope  NetworkEnvelope serialize/parse round trip: commands of every length 0..12 x payload lengths x 4 networks
corrupt   every single-byte corruption / truncation / length-field change / foreign magic of base envelopes,
          decided by the strict reference receiver (impl accepts => reference accepts, and same values)
messages  [header]   80-byte block header codec, full product of field boundary values
          [version]  VersionMessage layout: base + every 1- and 2-field deviation (3 in thorough), default timestamp/nonce
          [msgser]   getheaders / getdata / getcfilters / getcfheaders / getcfcheckpt / verack / generic: serialize vs layout
          [msgparse] headers / cfilter / cfheaders / cfcheckpt / ping / pong / verack: parse(reference bytes) = values,
                     each parse called exactly like SimpleNode.wait_for calls it (cls.parse(stream))
          [reuse]    every codec object used repeatedly (serialize x4, stream, parse twice), getdata add/serialize histories,
                     further API entry points (default network, parse_header keywords, Block.parse, all-default messages)
          [fieldrange] integer fields given values outside the field: rejected, or bytes that decode back to the value;
                     relay truthiness; byte fields of a wrong width (counted only)
          [hdrtx]    headers messages with a non-zero transaction count at every / sampled interior positions
          [trunc]    every proper prefix of the fixed-layout payloads (counted only: the statement rejects envelopes, not payloads)
          [widths]   (in prims) integer widths 0,5,6,7,16,20,33,64, strides through the value gaps, every wide CompactSize form, input types
frames    [cmdbytes] every byte value 0x01..0xff at the first/middle/last position of commands of length 1,2,11,12 (NUL: counted only)
          [cmdsum]   per real command name x payload size: one fault each in checksum, payload, length, plus every magic bit
node      E2: histories of incoming envelopes through the real SimpleNode.wait_for/send/handshake on a fake
          socket: bytes sent, returned message, unread remainder vs a protocol model; the same with logging switched on;
          damaged pings/versions, short and wrong length fields, a large unknown message, non-ASCII commands;
          mode "socket": the real SimpleNode.__init__ over a socketpair that delivers at most `step` bytes per recv

Fingerprints name the root cause, not the case: a failing case is re-tried on the simplest input of its
family (simplest envelope of the network, one-entry message, smallest sub-deviation of the version
message) and only carries its own bounds in the fingerprint when the simplest input passes.
"""
import hashlib
import io
import itertools

from mc.core import Engine, Res, attempt, Rejected, filler, H, jsonable
from mc.ref import p2pref as R

PROP = "C19"
NETS = ["mainnet", "testnet", "signet", "regtest"]


def I(x):
    """ints survive the JSON round trip of a replay file as decimal strings when large"""
    return int(x) if isinstance(x, str) else x


def B(x):
    """bytes from a descriptor (hex string, possibly with the 0x prefix jsonable() adds)"""
    if isinstance(x, (bytes, bytearray)):
        return bytes(x)
    if x.startswith("0x"):
        x = x[2:]
    return bytes.fromhex(x)


def rej(v):
    return isinstance(v, Rejected)


def show(v, n=80):
    if rej(v):
        return repr(v)
    if isinstance(v, (bytes, bytearray)):
        return v.hex() if len(v) <= n else v[:n].hex() + f"...({len(v)} bytes)"
    return repr(v)[:200]


def merge_ranges(points, w):
    """sorted disjoint [lo, hi) ranges covering p-w .. p+w for each point"""
    iv = sorted((p - w, p + w + 1) for p in points)
    out = []
    for lo, hi in iv:
        if out and lo <= out[-1][1]:
            out[-1][1] = max(out[-1][1], hi)
        else:
            out.append([lo, hi])
    return out


def split_ranges(ranges, size):
    out = []
    for lo, hi in ranges:
        while hi - lo > size:
            out.append([lo, lo + size])
            lo += size
        out.append([lo, hi])
    return out


_pat = {}


def pattern(seed, label, n):
    """n deterministic bytes, prefix-stable per (seed, label): a 32-byte core.filler value expanded with SHAKE-256
    (core.filler itself is quadratic in n); never all-equal, so reversals and shifts show"""
    key = (seed, label)
    if key not in _pat or len(_pat[key]) < n:
        _pat[key] = hashlib.shake_256(filler(seed, "c19-" + label, 0, 32)).digest(max(n, 1 << 17))
    return _pat[key][:n]


# ====================================================================== ints
INT_WIDTHS = [1, 2, 3, 4, 8, 32]


def gen_ints(tier, seed):
    w = 300 if tier == "quick" else 70000
    cases = []
    for fam in ("le", "be"):
        for width in INT_WIDTHS:
            if width <= 2:
                ranges = [[-3, (1 << (8 * width)) + 3]]
            else:
                pts = [0]
                for k in range(1, width + 1):
                    if width == 32 and k not in (1, 2, 4, 8, 16, 31, 32):
                        continue
                    pts += [1 << (8 * k), 1 << (8 * k - 1)]
                pts += [int.from_bytes(filler(seed, f"int{width}", i, width), "big") for i in range(4)]
                ranges = merge_ranges(pts, w)
            for r in split_ranges(ranges, 20000):
                cases.append({"fam": fam, "w": width, "r": [str(r[0]), str(r[1])]})
    cases.append({"fam": "byte", "w": 1, "r": ["-3", "260"]})
    return cases


def bclass(n, width):
    """name of the nearest power-of-256 (or sign) boundary within 2, else the byte length class"""
    for k in range(0, width + 1):
        for nm, b in ((f"2^{8*k}", 1 << (8 * k)), (f"2^{8*k-1}", 1 << (8 * k - 1) if k else 0)):
            if abs(n - b) <= 2:
                d = n - b
                return nm + (f"{d:+d}" if d else "")
    return "neg" if n < 0 else f"bytes{(n.bit_length() + 7) // 8}"


def run_ints(case):
    from buidl import helper

    res = Res()
    fam, width = case["fam"], case["w"]
    lo, hi = I(case["r"][0]), I(case["r"][1])
    vc = {"engine": "prims", "case": case}
    if fam == "byte":
        for n in range(lo, hi):
            got = attempt(helper.int_to_byte, n)
            if 0 <= n <= 255:
                if got != bytes([n]):
                    res.violation(f"C19/ints/int_to_byte/{n}", vc, show(got), bytes([n]).hex(), "int_to_byte wrong")
                back = attempt(helper.byte_to_int, bytes([n]))
                if back != n:
                    res.violation(f"C19/ints/byte_to_int/{n}", vc, show(back), n, "byte_to_int wrong")
            elif not rej(got) and attempt(helper.byte_to_int, got) != n:
                res.violation(f"C19/ints/int_to_byte/out-of-range-{bclass(n, 1)}", vc, show(got), "rejected", "out-of-range value encoded into one byte")
        res.bulk("byte==ref", 2 * 256, 256)
        res.bulk("byte-out-of-range-rejected", hi - lo - 256, hi - lo - 256)
        return res
    enc = helper.int_to_little_endian if fam == "le" else helper.int_to_big_endian
    dec = helper.little_endian_to_int if fam == "le" else helper.big_endian_to_int
    rref = R.le if fam == "le" else R.be
    rdec = R.from_le if fam == "le" else R.from_be
    n_ok = n_rej = 0
    nviol = 0
    for n in range(lo, hi):
        got = attempt(enc, n, width)
        if 0 <= n < (1 << (8 * width)):
            want = rref(n, width)
            bad = None
            if got != want:
                bad = (f"C19/ints/int_to_{fam}/w{width}/{bclass(n, width)}", show(got), want.hex(), "fixed-width encoding differs from the layout")
            else:
                back = attempt(dec, want)
                if back != n or rdec(want) != n:
                    bad = (f"C19/ints/{fam}_to_int/w{width}/{bclass(n, width)}", show(back), n, "decoding does not return the encoded value")
            if bad:
                nviol += 1
                if nviol <= 6:
                    res.violation(bad[0], vc, {"n": str(n), "got": bad[1]}, bad[2], bad[3])
            else:
                n_ok += 1
        else:
            # no encoding exists: accepting is only tolerable if it decoded back to n, which is impossible in `width` bytes
            if not rej(got) and not (isinstance(got, bytes) and len(got) == width and attempt(dec, got) == n):
                nviol += 1
                if nviol <= 6:
                    res.violation(f"C19/ints/int_to_{fam}/w{width}/out-of-range-{bclass(n, width)}", vc, {"n": str(n), "got": show(got)}, "rejected", "value that does not fit the width was encoded")
            else:
                n_rej += 1
    res.bulk(f"{fam}-enc==ref&dec==n", n_ok, n_ok)
    res.bulk(f"{fam}-out-of-range-rejected", n_rej, n_rej)
    return res


# ====================================================================== varint / varstr
VI_BOUNDS = [0, 0xFC, 0xFD, 0xFFFF, 0x10000, 0xFFFFFFFF, 0x100000000, 2**64 - 1]
MARK = b"\xa5\x5a\xc3"


def vclass(n):
    for b in VI_BOUNDS + [2**64]:
        if abs(n - b) <= 2:
            d = n - b
            return f"{b:#x}" + (f"{d:+d}" if d else "")
    if n < 0:
        return "neg"
    return f"width{len(R.compact(n))}" if n < 2**64 else "above-2^64"


def gen_varint(tier, seed):
    cases = []
    if tier == "quick":
        dense, w = 0x10400, 2048
    else:
        dense, w = 1 << 21, 300000
    pts = [0xFFFFFFFF, 0x100000000, 2**64 - 1, 2**16, 2**24, 2**31, 2**40, 2**48, 2**56, 2**63]
    pts += [int.from_bytes(filler(seed, "vi", i, 8), "big") >> s for i, s in enumerate((0, 8, 20, 30, 40))]
    ranges = sorted(merge_ranges(pts, w) + [[-3, dense]])
    merged = []
    for lo, hi in ranges:
        if merged and lo <= merged[-1][1]:
            merged[-1][1] = max(merged[-1][1], hi)
        else:
            merged.append([lo, hi])
    for r in split_ranges(merged, 20000):
        cases.append({"kind": "int", "r": [str(r[0]), str(r[1])]})
    cases.append({"kind": "noncanon"})
    if tier == "quick":
        lens = list(range(0, 601)) + list(range(65530, 65541)) + [99999, 100000, 100001]
        for i in range(0, len(lens), 40):
            cases.append({"kind": "str", "lens": lens[i : i + 40], "seed": seed})
    else:
        lens = list(range(0, 66001)) + [99999, 100000, 100001, 1 << 20, 5_000_000]
        for i in range(0, len(lens), 250):
            cases.append({"kind": "str", "lens": lens[i : i + 250], "seed": seed})
    return cases


def run_varint(case):
    from buidl import helper

    res = Res()
    vc = {"engine": "prims", "case": case}
    kind = case["kind"]
    if kind == "int":
        lo, hi = I(case["r"][0]), I(case["r"][1])
        n_ok = n_rej = nviol = 0
        for n in range(lo, hi):
            got = attempt(helper.encode_varint, n)
            if 0 <= n < 2**64:
                want = R.compact(n)
                bad = None
                if got != want:
                    bad = (f"C19/varint/encode/{vclass(n)}", show(got), want.hex(), "encode_varint differs from the CompactSize layout")
                else:
                    s = io.BytesIO(want + MARK)
                    back = attempt(helper.read_varint, s)
                    rest = s.read()
                    if back != n:
                        bad = (f"C19/varint/read/{vclass(n)}", show(back), n, "read_varint does not return the encoded value")
                    elif rest != MARK:
                        bad = (f"C19/varint/read-position/{vclass(n)}", rest.hex(), MARK.hex(), "read_varint consumed a wrong number of bytes")
                if bad:
                    nviol += 1
                    if nviol <= 6:
                        res.violation(bad[0], vc, {"n": str(n), "got": bad[1]}, bad[2], bad[3])
                else:
                    n_ok += 1
            else:
                if not rej(got) and attempt(helper.read_varint, io.BytesIO(bytes(got) + MARK)) != n:
                    nviol += 1
                    if nviol <= 6:
                        res.violation(f"C19/varint/encode/out-of-range-{vclass(n)}", vc, {"n": str(n), "got": show(got)}, "rejected", "value without a CompactSize encoding was encoded")
                else:
                    n_rej += 1
        res.bulk("varint enc==ref & read==n & position", n_ok, n_ok)
        res.bulk("varint out-of-range rejected", n_rej, n_rej)
        return res
    if kind == "noncanon":
        # non-minimal encodings: the layout still defines a value; the implementation may reject or must return that value
        for prefix, width, limit in ((0xFD, 2, 0xFD), (0xFE, 4, 0x10000), (0xFF, 8, 0x100000000)):
            vals = sorted({v for b in VI_BOUNDS for v in range(b - 2, b + 3) if 0 <= v < 1 << (8 * width)})
            for v in vals:
                raw = bytes([prefix]) + R.le(v, width)
                rv, rpos, canon = R.read_compact(raw + MARK)
                assert rv == v
                s = io.BytesIO(raw + MARK)
                got = attempt(helper.read_varint, s)
                if rej(got) and not canon:
                    res.ok("noncanonical rejected", nontrivial=("nc", prefix, v))
                elif got == v and s.read() == MARK:
                    res.ok("canonical==ref" if canon else "noncanonical read as layout value", nontrivial=("nc", prefix, v), sample={"raw": raw.hex(), "value": str(v)} if not canon else None)
                else:
                    res.violation(f"C19/varint/read-prefix{prefix:#x}", vc, show(got), v, "read_varint returns a wrong value for a wide encoding")
                # truncated encodings are outside the statement: counted only
                for cut in range(1, len(raw)):
                    res.skip("truncated CompactSize (statement does not cover short reads of integers)")
        return res
    if kind == "str":
        seed = case.get("seed", 0)
        for ln in case["lens"]:
            data = pattern(seed, "str", ln)
            want = R.varstr(data)
            got = attempt(helper.encode_varstr, data)
            if got != want:
                res.violation(f"C19/varstr/encode/len{vclass(ln)}", vc, show(got), show(want), "encode_varstr differs from compact-size + bytes")
                continue
            s = io.BytesIO(want + MARK)
            back = attempt(helper.read_varstr, s)
            rest = s.read()
            if back != data or rest != MARK:
                res.violation(f"C19/varstr/read/len{vclass(ln)}", vc, {"got": show(back), "rest": rest.hex()}, {"len": ln, "rest": MARK.hex()}, "read_varstr does not return the encoded bytes / leaves the stream at a wrong position")
                continue
            res.ok("varstr enc==ref & read==data & position", nontrivial=("str", ln), sample={"len": ln} if ln in (253, 65536) else None)
        return res
    raise ValueError(kind)


# ====================================================================== envelope round trip
CMD12 = b"getcfcheckpt"
REAL_CMDS = [
    b"version", b"verack", b"ping", b"pong", b"getheaders", b"headers", b"getdata", b"getcfilters", b"cfilter",
    b"getcfheaders", b"cfheaders", b"cfcheckpt", b"block", b"tx", b"merkleblock", b"inv", b"addr", b"sendheaders",
    b"feefilter", b"filterload", b"notfound",
]  # fmt: skip


def seed_cmd(seed):
    return bytes(97 + x % 26 for x in filler(seed, "cmd", 0, 12))


def gen_envelope(tier, seed):
    cmds = [CMD12[:k] for k in range(13)] + [seed_cmd(seed)[:k] for k in range(1, 13)] + REAL_CMDS
    cmds = list(dict.fromkeys(cmds))
    plens = [0, 1, 2, 252, 253, 254, 65535, 65536, 65537, 100000]
    cases = []
    for net in NETS:
        for c in cmds:
            for p in plens:
                cases.append({"net": net, "cmd": c.hex(), "plen": p, "seed": seed})
    if tier == "thorough":
        extra = [p for p in list(range(0, 2049)) + list(range(3000, 100001, 1000)) + [99999, 100001, 1 << 20] if p not in plens]
        for i, net in enumerate(NETS):
            for c in (CMD12, b"", b"tx", seed_cmd(seed)[:7]):
                for p in extra:
                    cases.append({"net": net, "cmd": c.hex(), "plen": p, "seed": seed})
    return cases


class ChunkRaw(io.RawIOBase):
    """raw stream that hands out at most `step` bytes per read, like a socket"""

    def __init__(self, data, step):
        self.data, self.pos, self.step = data, 0, step

    def readable(self):
        return True

    def readinto(self, b):
        n = min(len(b), self.step, len(self.data) - self.pos)
        b[:n] = self.data[self.pos : self.pos + n]
        self.pos += n
        return n


def region(a, b, plen_hint=None):
    """which envelope field explains the difference between two serialisations (payload before its checksum)"""
    if rej(a) or rej(b) or not isinstance(a, (bytes, bytearray)) or not isinstance(b, (bytes, bytearray)):
        return "raised"
    for name, lo, hi in (("magic", 0, 4), ("command", 4, 16), ("length", 16, 20), ("payload", 24, None), ("checksum", 20, 24)):
        if a[lo:hi] != b[lo:hi]:
            return name
    return "none"


def env_fields(e):
    return {"command": bytes(e.command), "payload": bytes(e.payload), "magic": bytes(e.magic)}


def run_envelope(case):
    from buidl.network import NetworkEnvelope

    res = Res()
    net, cmd, plen, seed = case["net"], B(case["cmd"]), case["plen"], case.get("seed", 0)
    vc = {"engine": "envelope", "case": case}
    payload = pattern(seed, "payload", plen)
    ref = R.envelope(net, cmd, payload)
    tag = f"{net}/cmdlen{len(cmd)}/plen{vclass(plen)}"
    key = (net, cmd, plen)
    env = attempt(NetworkEnvelope, cmd, payload, network=net)
    ser = attempt(env.serialize) if not rej(env) else env
    if ser != ref:
        rg = region(ser, ref)
        cls = {"magic": net, "command": f"cmdlen{len(cmd)}", "length": f"plen{vclass(plen)}", "checksum": f"plen{vclass(plen)}"}.get(rg, tag)
        res.violation(f"C19/envelope/serialize/{rg}/{cls}", vc, show(ser), show(ref), "serialize() differs from magic|command|length|checksum|payload")
    else:
        res.ok("serialize==ref", nontrivial=key, sample={"net": net, "cmd": cmd.decode(), "plen": plen} if plen == 253 and len(cmd) == 12 else None)
        st = attempt(lambda: env.stream().read())
        if st != payload:
            res.violation("C19/envelope/stream", vc, show(st), show(payload), "stream() does not yield the payload")

    def check_parsed(e, what):
        if rej(e):
            simplest = attempt(NetworkEnvelope.parse, io.BytesIO(R.envelope(net, b"verack", b"")), network=net)
            cls = net if rej(simplest) else tag
            res.violation(f"C19/envelope/{what}-rejected/{cls}", vc, repr(e), "parsed", "a well-formed envelope is rejected")
            return False
        f = attempt(env_fields, e)
        want = {"command": cmd, "payload": payload, "magic": R.MAGIC[net]}
        if f != want:
            bad = "raised" if rej(f) else [k for k in want if f[k] != want[k]][0]
            cls = f"cmdlen{len(cmd)}" if bad == "command" else net if bad == "magic" else f"plen{vclass(plen)}"
            res.violation(f"C19/envelope/{what}-{bad}/{cls}", vc, show(f if rej(f) else f[bad]), show(want.get(bad)), "parsed envelope fields differ from the encoded ones")
            return False
        back = attempt(e.serialize)
        if back != ref:
            res.violation(f"C19/envelope/{what}-reserialize/{region(back, ref)}/{tag}", vc, show(back), show(ref), "parse -> serialize is not the identity")
            return False
        return True

    s = io.BytesIO(ref + MARK)
    e = attempt(NetworkEnvelope.parse, s, network=net)
    if check_parsed(e, "parse"):
        rest = s.read()
        if rest != MARK:
            res.violation(f"C19/envelope/parse-position/plen{vclass(plen)}", vc, show(rest), MARK.hex(), "parse consumed a wrong number of bytes")
        else:
            res.ok("parse==fields & reserialize & position", nontrivial=key)
    if net == "mainnet":
        e = attempt(NetworkEnvelope.parse, io.BytesIO(ref))
        if check_parsed(e, "parse-default-network"):
            res.ok("parse(default network)")
    # socket-like stream delivering a few bytes at a time
    step = 1 + (plen + len(cmd)) % 7 if plen < 1000 else 1460
    e = attempt(NetworkEnvelope.parse, io.BufferedReader(ChunkRaw(ref, step)), network=net)
    if check_parsed(e, "parse-chunked"):
        res.ok("parse(chunked stream)")
    # two envelopes back to back, then end of stream
    second = R.envelope(net, b"pong", b"\x01\x02\x03\x04\x05\x06\x07\x08")
    s = io.BytesIO(ref + second)
    e1 = attempt(NetworkEnvelope.parse, s, network=net)
    e2 = attempt(NetworkEnvelope.parse, s, network=net)
    e3 = attempt(NetworkEnvelope.parse, s, network=net)
    if check_parsed(e1, "parse-seq"):
        if rej(e2) or attempt(env_fields, e2) != {"command": b"pong", "payload": second[24:], "magic": R.MAGIC[net]}:
            res.violation(f"C19/envelope/parse-seq-second/{tag}", vc, show(e2), "pong envelope", "second envelope of a stream is not parsed correctly")
        elif not rej(e3):
            res.violation("C19/envelope/parse-at-eof-accepted", vc, show(attempt(env_fields, e3)), "rejected", "parse at end of stream returns an envelope")
        else:
            res.ok("two envelopes then EOF")
    # the same bytes under every other network's magic
    for other in NETS:
        if other == net:
            continue
        e = attempt(NetworkEnvelope.parse, io.BytesIO(ref), network=other)
        if not rej(e):
            res.violation(f"C19/envelope/wrong-magic-accepted/{net}-as-{other}", vc, show(attempt(env_fields, e)), "rejected", "envelope with another network's magic accepted")
        else:
            res.ok("foreign magic rejected", nontrivial=(key, other))
    return res


# ====================================================================== corruption
CORRUPT_BASES = [(b"verack", 0), (b"a", 1), (b"ping", 8), (b"getcfcheckpt", 33), (b"version", 101), (b"", 2)]
BIG_BASE = (b"headers", 65536)


def big_positions():
    p = BIG_BASE[1]
    return sorted(set(range(0, 24 + 8)) | set(range(24 + 250, 24 + 258)) | set(range(24 + p - 8, 24 + p)))


def gen_corrupt(tier, seed):
    cases = []
    xors = [1, 0x80, 0xFF] if tier == "quick" else list(range(1, 256))
    for net in NETS:
        for cmd, plen in CORRUPT_BASES:
            base = {"net": net, "cmd": cmd.hex(), "plen": plen, "seed": seed}
            n = 24 + plen
            for lo in range(0, n, 16):
                cases.append(dict(base, mode="bytes", pos=list(range(lo, min(n, lo + 16))), xors=xors))
            cases.append(dict(base, mode="trunc", cuts=list(range(1, n + 1))))
            lens = sorted(set(range(0, plen + 4)) | {plen + 255, plen + 256, 0xFFFF, 0x10000, 0xFFFFFF, 2**31, 2**32 - 1})
            cases.append(dict(base, mode="len", lens=lens))
            cases.append(dict(base, mode="magic"))
            cases.append(dict(base, mode="extend"))
        cmd, plen = BIG_BASE
        base = {"net": net, "cmd": cmd.hex(), "plen": plen, "seed": seed}
        if tier == "quick":
            pos = big_positions()
            for i in range(0, len(pos), 8):
                cases.append(dict(base, mode="bytes", pos=pos[i : i + 8], xors=[1, 0x80, 0xFF]))
        else:
            for lo in range(0, 24 + plen, 256):
                cases.append(dict(base, mode="bytes", pos=list(range(lo, min(24 + plen, lo + 256))), xors=[1, 0x80, 0xFF]))
        cuts = sorted(set(range(1, 9)) | {plen - 1, plen, plen + 1, plen + 4, plen + 8, plen + 23, plen + 24} | {plen - 252, plen - 253})
        cases.append(dict(base, mode="trunc", cuts=cuts))
        cases.append(dict(base, mode="len", lens=[0, 1, plen - 2, plen - 1, plen + 1, plen + 2, plen + 256, 2**32 - 1]))
        cases.append(dict(base, mode="magic"))
        cases.append(dict(base, mode="extend"))
    return cases


def judge(res, vc, net, raw, how, where):
    """Parse `raw` with the implementation and with the strict reference receiver and compare."""
    from buidl.network import NetworkEnvelope

    try:
        field, payload, newpos = R.parse_envelope(net, raw)
        want = (field, payload, newpos)
        why = None
    except R.Reject as ex:
        want, why = None, str(ex)
    s = io.BytesIO(raw)
    e = attempt(NetworkEnvelope.parse, s, network=net)
    if want is None:
        if rej(e):
            res.ok(f"{how}: rejected ({why})")
            return
        fp = {
            "wrong magic": "C19/corrupt/wrong-magic-accepted",
            "wrong checksum": f"C19/corrupt/wrong-checksum-accepted/{where}",
            "fewer payload bytes than declared": "C19/envelope/short-payload-accepted",
            "truncated header": "C19/corrupt/truncated-header-accepted",
        }[why]
        f = attempt(env_fields, e)
        res.violation(fp, vc, {"how": how, "where": where, "accepted": {k: show(v, 24) for k, v in f.items()} if not rej(f) else repr(f), "raw": show(raw, 48)}, f"rejected: {why}", f"corrupted envelope accepted although: {why}")
        return
    field, payload, newpos = want
    cmd, canon = R.command_of_field(field)
    if rej(e):
        if not canon:
            res.skip("command field with an embedded/leading NUL (not a protocol command): rejection not asserted")
            return
        res.violation(f"C19/corrupt/valid-rejected/{where}", vc, {"how": how, "result": repr(e), "raw": show(raw, 48)}, "accepted", "mutated bytes still form a valid envelope but are rejected")
        return
    f = attempt(env_fields, e)
    rest = s.read()
    if rej(f) or f["payload"] != payload or f["magic"] != R.MAGIC[net] or rest != raw[newpos:]:
        res.violation(f"C19/corrupt/accepted-wrong-payload/{where}", vc, {"how": how, "got": show(f), "rest": show(rest)}, {"payload": show(payload), "rest": show(raw[newpos:])}, "accepted envelope carries other data than the bytes on the wire")
        return
    if canon:
        if f["command"] != cmd:
            res.violation(f"C19/corrupt/accepted-wrong-command/{where}", vc, {"how": how, "got": show(f["command"])}, show(cmd), "accepted envelope reports another command than the wire field")
            return
        res.ok(f"{how}: still valid, same values")
    else:
        res.skip("command field with an embedded/leading NUL: command value not compared")
        res.ok(f"{how}: still valid (non-canonical command), payload equal")


def where_of(pos):
    return "magic" if pos < 4 else "command" if pos < 16 else "length" if pos < 20 else "checksum" if pos < 24 else "payload"


def run_corrupt(case):
    res = Res()
    net, cmd, plen, seed = case["net"], B(case["cmd"]), case["plen"], case.get("seed", 0)
    vc = {"engine": "corrupt", "case": case}
    payload = pattern(seed, "payload", plen)
    raw0 = R.envelope(net, cmd, payload)
    mode = case["mode"]
    before = res.evaluations
    if mode == "bytes":
        for pos in case["pos"]:
            for x in case["xors"]:
                raw = bytearray(raw0)
                raw[pos] ^= x
                judge(res, vc, net, bytes(raw), f"byte {where_of(pos)} xor", where_of(pos))
    elif mode == "trunc":
        for cut in case["cuts"]:
            raw = raw0[: len(raw0) - cut]
            judge(res, vc, net, raw, "truncated, original checksum", "truncated")
            if len(raw) >= 24:
                short = raw[24:]
                raw2 = raw[:20] + R.dsha(short)[:4] + short
                judge(res, vc, net, raw2, "truncated, checksum recomputed over the short payload", "truncated")
    elif mode == "len":
        for ln in case["lens"]:
            ln = I(ln)
            raw = raw0[:16] + R.le(ln, 4) + raw0[20:]
            judge(res, vc, net, raw, "length field replaced" if ln != plen else "unchanged", "length")
            if ln < plen:
                raw2 = raw0[:16] + R.le(ln, 4) + R.dsha(payload[:ln])[:4] + payload
                judge(res, vc, net, raw2, "length lowered, checksum of the prefix (trailing bytes stay in the stream)", "length")
    elif mode == "magic":
        own = R.MAGIC[net]
        cands = [m for n2, m in R.MAGIC.items() if n2 != net] + [own[::-1], b"\x00" * 4, b"\xff" * 4, own[1:] + own[:1], own[:3] + bytes([own[3] ^ 0x20])]
        for m in cands:
            judge(res, vc, net, m + raw0[4:], "magic replaced", "magic")
        judge(res, vc, net, b"", "empty stream", "truncated")
    elif mode == "extend":
        for extra in (b"\x00", b"\xff\xff", MARK, raw0, R.envelope(net, b"verack", b"")):
            judge(res, vc, net, raw0 + extra, "followed by more bytes", "extended")
    else:
        raise ValueError(mode)
    res.nontrivial_bulk += res.evaluations - before  # every mutated byte string is distinct by construction
    return res


# ====================================================================== block header
HV = [0, 1, 2, 0x20000000, 0x7FFFFFFF, 0x80000000, 0xFFFFFFFF]
HT = [0, 1, 1231006505, 0x7FFFFFFF, 0x80000000, 0xFFFFFFFF]


def h32s(seed, label):
    return [b"\x00" * 32, b"\xff" * 32, b"\x01" + b"\x00" * 31, filler(seed, label, 0, 32)]


def b4s(seed, label):
    return [b"\x00" * 4, b"\xff" * 4, bytes.fromhex("ffff001d"), filler(seed, label, 0, 4)]


def gen_header(tier, seed):
    return [{"v": v, "t": t, "p": i, "seed": seed} for v in HV for t in HT for i in range(4)]


HFIELDS = [("version", 0, 4), ("prev", 4, 36), ("merkle", 36, 68), ("time", 68, 72), ("bits", 72, 76), ("nonce", 76, 80)]


def hregion(a, b):
    if rej(a) or not isinstance(a, (bytes, bytearray)):
        return "raised"
    if len(a) != len(b):
        return "size"
    for i in range(len(a)):
        if a[i] != b[i]:
            return [n for n, lo, hi in HFIELDS if lo <= i < hi][0]
    return "none"


def block_fields(b):
    return {"version": b.version, "prev": bytes(b.prev_block), "merkle": bytes(b.merkle_root), "time": b.timestamp, "bits": bytes(b.bits), "nonce": bytes(b.nonce)}


def run_header(case):
    from buidl.block import Block

    res = Res()
    seed = case.get("seed", 0)
    vc = {"engine": "messages", "case": case}
    prev = h32s(seed, "prev")[case["p"]]
    for merkle in h32s(seed, "merkle"):
        for bits in b4s(seed, "bits"):
            for nonce in b4s(seed, "nonce"):
                h = {"version": case["v"], "prev": prev, "merkle": merkle, "time": case["t"], "bits": bits, "nonce": nonce}
                ref = R.header(h)
                key = ref
                blk = attempt(Block, h["version"], prev, merkle, h["time"], bits, nonce)
                ser = attempt(blk.serialize) if not rej(blk) else blk
                if ser != ref:
                    res.violation(f"C19/header/serialize/{hregion(ser, ref)}", vc, show(ser), ref.hex(), "Block.serialize() differs from the 80-byte header layout")
                    continue
                hh = attempt(blk.hash)
                if hh != R.header_hash(h) or attempt(blk.id) != R.header_hash(h).hex():
                    res.violation("C19/header/hash", vc, show(hh), R.header_hash(h).hex(), "hash()/id() is not the reversed double SHA-256 of the header")
                    continue
                ok = True
                for how, mk in (("stream", lambda: Block.parse_header(io.BytesIO(ref + MARK))), ("hex", lambda: Block.parse_header(hex=ref.hex()))):
                    p = attempt(mk)
                    f = attempt(block_fields, p) if not rej(p) else p
                    if f != h:
                        bad = "raised" if rej(f) else [k for k in h if f[k] != h[k]][0]
                        res.violation(f"C19/header/parse-{how}/{bad}", vc, show(f), show(h), "parse_header fields differ from the encoded ones")
                        ok = False
                        break
                    back = attempt(p.serialize)
                    if back != ref:
                        res.violation(f"C19/header/reserialize/{hregion(back, ref)}", vc, show(back), ref.hex(), "parse_header -> serialize is not the identity")
                        ok = False
                        break
                if ok:
                    res.ok("header serialize==ref, hash, parse(stream,hex)==fields, reserialize", nontrivial=key, n=1)
    return res


# ====================================================================== version message
U64 = [0, 1, 0x409, 2**32 - 1, 2**32, 2**63, 2**64 - 1]
PORTS = [0, 1, 255, 256, 0x0101, 8333, 18333, 38333, 18444, 0x7FFF, 0x8000, 0xFFFE, 0xFFFF]
VER_FIELDS = ["version", "services", "timestamp", "recv_services", "recv_ip", "recv_port", "send_services", "send_ip", "send_port", "nonce", "user_agent", "start_height", "relay"]
KW = {
    "version": "version", "services": "services", "timestamp": "timestamp", "recv_services": "receiver_services", "recv_ip": "receiver_ip",
    "recv_port": "receiver_port", "send_services": "sender_services", "send_ip": "sender_ip", "send_port": "sender_port", "nonce": "nonce",
    "user_agent": "user_agent", "start_height": "latest_block", "relay": "relay",
}  # fmt: skip


def ver_base():
    # ports are byte-palindromes so that the (known) port byte order does not mask the other fields
    return {
        "version": 70015, "services": 0, "timestamp": 1415483324, "recv_services": 1, "recv_ip": "c61b6409", "recv_port": 0x2020,
        "send_services": 0x409, "send_ip": "cb0071c0", "send_port": 0x8D8D, "nonce": "128035cbc97953f8", "user_agent": 27,
        "start_height": 329167, "relay": True,
    }  # fmt: skip


def ver_alphabet(seed, reduced=False):
    a = {
        "version": [0, 1, 255, 256, 65535, 65536, 70001, 70016, 0x7FFFFFFF],
        "services": U64,
        "timestamp": [0, 1, 2**31 - 1, 2**31, 2**32 - 1, 2**32, 2**63 - 1],
        "recv_services": U64,
        "send_services": U64,
        "recv_ip": ["00000000", "7f000001", "ffffffff", filler(seed, "ip", 0, 4).hex()],
        "send_ip": ["00000000", "7f000001", "ffffffff", filler(seed, "ip", 1, 4).hex()],
        "recv_port": PORTS,
        "send_port": PORTS,
        "nonce": ["00" * 8, "ff" * 8, "0102030405060708", filler(seed, "nonce", 0, 8).hex()],
        "user_agent": [0, 1, 15, 252, 253, 254, 255, 256, 65535, 65536],
        "start_height": [0, 1, 65535, 65536, 0x7FFFFFFF],
        "relay": [False],
    }
    if reduced:
        a = {k: ([v[0], v[-1]] if len(v) > 1 else v) for k, v in a.items()}
        a["user_agent"] = [0, 253]
        a["recv_port"] = a["send_port"] = [0, 8333]
    return a


def gen_version(tier, seed):
    base = ver_base()
    cases = [{"devs": [], "f": base, "seed": seed}, {"default_ports": True, "devs": ["default-ports"], "f": base, "seed": seed}]
    alpha = ver_alphabet(seed)
    flat = [(k, v) for k in VER_FIELDS for v in alpha[k]]
    for k, v in flat:
        cases.append({"devs": [f"{k}={v}"], "f": dict(base, **{k: v}), "seed": seed})
    for (k1, v1), (k2, v2) in itertools.combinations(flat, 2):
        if k1 != k2:
            cases.append({"devs": [f"{k1}={v1}", f"{k2}={v2}"], "f": dict(base, **{k1: v1, k2: v2}), "seed": seed})
    if tier == "thorough":
        red = ver_alphabet(seed, True)
        flat = [(k, v) for k in VER_FIELDS for v in red[k]]
        for combo in itertools.combinations(flat, 3):
            if len({k for k, _ in combo}) == 3:
                cases.append({"devs": [f"{k}={v}" for k, v in combo], "f": dict(base, **dict(combo)), "seed": seed})
    # defaults: timestamp from the clock and nonce from the random generator, both replaced by enumerated values
    for t in (0, 1.9, 2**31 - 0.5, 2**32 + 0.25, 1415483324.75):
        for pick in ("lo", "hi", "mid"):
            cases.append({"clock": t, "pick": pick, "devs": [f"clock={t}", f"rand={pick}"], "f": base, "seed": seed})
    return cases


def ver_segments(f):
    ua = len(R.varstr(f["user_agent"]))
    lens = [("version", 4), ("services", 8), ("timestamp", 8), ("recv_services", 8), ("recv_ip", 16), ("recv_port", 2), ("send_services", 8),
            ("send_ip", 16), ("send_port", 2), ("nonce", 8), ("user_agent", ua), ("start_height", 4), ("relay", 1)]  # fmt: skip
    out, pos = [], 0
    for n, l in lens:
        out.append((n, pos, pos + l))
        pos += l
    return out


def ver_concrete(case):
    f = dict(case["f"])
    seed = case.get("seed", 0)
    for k in ("recv_ip", "send_ip", "nonce"):
        f[k] = B(f[k])
    for k in ("version", "services", "timestamp", "recv_services", "send_services", "recv_port", "send_port", "start_height"):
        f[k] = I(f[k])
    n = f["user_agent"]
    f["user_agent"] = b"/programmingblockchain:0.1/" if n == 27 else (b"/Satoshi:0.9.3/" if n == 15 else pattern(seed, "ua", n))
    return f


def swap16(p):
    return ((p & 0xFF) << 8) | (p >> 8)


def ver_status(ser, f):
    """'ok' | 'ports' (only the byte order of the two port fields differs) | 'raised' | 'size' | first differing field"""
    ref = R.version_msg(f)
    assert R.parse_version_msg(ref) == f
    if ser == ref:
        return "ok", ref
    swapped = R.version_msg(dict(f, recv_port=swap16(f["recv_port"]), send_port=swap16(f["send_port"])))
    if ser == swapped:
        return "ports", ref
    if rej(ser) or not isinstance(ser, (bytes, bytearray)):
        return "raised", ref
    where = "size"
    for cand in (ref, swapped):
        for n, lo, hi in ver_segments(f):
            if ser[lo:hi] != cand[lo:hi]:
                where = n
                break
        if where not in ("recv_port", "send_port"):
            break
    return where, ref


def ver_build(net, f):
    m = attempt(net.VersionMessage, **{KW[k]: f[k] for k in VER_FIELDS})
    return attempt(m.serialize) if not rej(m) else m


def ver_minimal_devs(net, case, status):
    """smallest sub-deviation of the case (explicit construction) that fails the same way: names the root cause, not the case"""
    base = ver_base()
    keys = [k for k in VER_FIELDS if case["f"][k] != base[k]]
    for size in range(0, len(keys) + 1):
        for sub in itertools.combinations(keys, size):
            f = ver_concrete({"f": dict(base, **{k: case["f"][k] for k in sub}), "seed": case.get("seed", 0)})
            if ver_status(ver_build(net, f), f)[0] == status:
                return [f"{k}={case['f'][k]}" for k in sub] or ["base"]
    return case["devs"] or ["base"]


def classify_version(res, vc, ser, f, devs, nontrivial, net=None, case=None):
    status, ref = ver_status(ser, f)
    if status == "ok":
        res.ok("version serialize==ref", nontrivial=nontrivial, sample={"devs": devs} if len(devs) == 1 else None)
        return
    if status == "ports":
        res.violation(
            "C19/version/port-byte-order", vc, show(ser, 120), show(ref, 120),
            "VersionMessage bytes differ from the protocol layout only by the byte order of the two port fields (little-endian written, big-endian specified)",
        )  # fmt: skip
        return
    mind = ver_minimal_devs(net, case, status) if case is not None else (devs or ["base"])
    res.violation(f"C19/version/{status}/{'+'.join(mind)}", vc, show(ser, 120), show(ref, 120), f"VersionMessage.serialize() differs from the protocol layout ({status}); smallest deviation from the base message that shows it: {mind}")


def run_version(case):
    import buidl.network as net

    res = Res()
    vc = {"engine": "messages", "case": case}
    f = ver_concrete(case)
    devs = case["devs"]
    if "clock" in case:
        calls = []

        class Clock:
            @staticmethod
            def time():
                return case["clock"]

        def fake_randint(a, b):
            calls.append((a, b))
            return {"lo": a, "hi": b, "mid": (a + b) // 2 + 12345}[case["pick"]]

        old_t, old_r = net.time, net.randint
        net.time, net.randint = Clock, fake_randint
        try:
            kw = {KW[k]: f[k] for k in VER_FIELDS if k not in ("timestamp", "nonce")}
            m = attempt(net.VersionMessage, **kw)
            ser = attempt(m.serialize) if not rej(m) else m
        finally:
            net.time, net.randint = old_t, old_r
        if len(calls) != 1:
            res.violation("C19/version/default-nonce-not-random", vc, calls, "one draw", "default nonce is not drawn from the random generator")
            return res
        a, b = calls[0]
        drawn = {"lo": a, "hi": b, "mid": (a + b) // 2 + 12345}[case["pick"]]
        if not 0 <= drawn < 2**64:
            res.skip(f"default nonce draw {drawn} is not a uint64 (library asks randint for [{a}, 2**64]; probability 2^-64): outside the statement")
            res.notes["default_nonce_range"] = f"randint({a}, {b}); upper bound {'exceeds' if b >= 2**64 else 'within'} uint64"
            return res
        f["timestamp"] = int(case["clock"])
        f["nonce"] = R.le(drawn, 8)
        classify_version(res, vc, ser, f, devs, ("default", case["clock"], case["pick"]), net, case)
        return res
    if case.get("default_ports"):
        f["recv_port"] = f["send_port"] = 8333
        kw = {KW[k]: f[k] for k in VER_FIELDS if k not in ("recv_port", "send_port")}
    else:
        kw = {KW[k]: f[k] for k in VER_FIELDS}
    m = attempt(net.VersionMessage, **kw)
    ser = attempt(m.serialize) if not rej(m) else m
    classify_version(res, vc, ser, f, devs, tuple(devs) if devs else None, net, case)
    if not devs and getattr(net.VersionMessage, "command", None) != b"version":
        res.violation("C19/version/command", vc, show(getattr(net.VersionMessage, "command", None)), "version", "wrong command name")
    return res


# ====================================================================== serialize-only messages
U32 = [0, 1, 0xFF, 0x100, 0xFFFF, 0x10000, 0xFFFFFF, 0x1000000, 0x7FFFFFFF, 0x80000000, 0xFFFFFFFF]
FTYPES = [0, 1, 0x7F, 0x80, 0xFF]
INV_TYPES = [1, 2, 3, 4, (1 << 30) + 1, (1 << 30) + 2, 0, 0xFFFFFFFF]
COUNTS = [0, 1, 2, 3, 252, 253, 254, 2000]
COMMANDS = {
    "VersionMessage": b"version", "VerAckMessage": b"verack", "PingMessage": b"ping", "PongMessage": b"pong", "GetHeadersMessage": b"getheaders",
    "HeadersMessage": b"headers", "GetDataMessage": b"getdata", "GetCFiltersMessage": b"getcfilters", "CFilterMessage": b"cfilter",
    "GetCFHeadersMessage": b"getcfheaders", "CFHeadersMessage": b"cfheaders", "GetCFCheckPointMessage": b"getcfcheckpt", "CFCheckPointMessage": b"cfcheckpt",
}  # fmt: skip


def hashes4(seed, label):
    return [b"\x00" * 32, b"\xff" * 32, b"\x00" * 31 + b"\x01", filler(seed, label, 0, 32)]


def gen_msgser(tier, seed):
    cases = []
    for v in [0, 1, 70015, 2**31 - 1, 2**31, 2**32 - 1]:
        for n in [0, 1, 2, 252, 253, 254, 65535, 65536, 2**32 - 1, 2**32, 2**64 - 1]:
            cases.append({"m": "getheaders", "v": v, "n": str(n), "seed": seed})
    counts = COUNTS + [65535, 65536] + ([50000, 200000] if tier == "thorough" else [])
    for n in counts:
        for shift in range(len(INV_TYPES) if n <= 254 else 2 if n <= 2000 or tier == "thorough" else 1):
            cases.append({"m": "getdata", "n": n, "shift": shift, "seed": seed, "heavy": n >= 50000})
    # every sequence of 1..4 (5 thorough) entries over {2 types} x {2 hashes}: repeated identifiers, the same hash under two types
    for ln in range(1, 5 if tier == "quick" else 6):
        cases.append({"m": "getdata-seq", "len": ln, "seed": seed})
    for m in ("getcfilters", "getcfheaders"):
        for ft in FTYPES:
            cases.append({"m": m, "ft": ft, "seed": seed})
        cases.append({"m": m, "ft": None, "seed": seed})
    cases.append({"m": "getcfcheckpt", "seed": seed})
    cases.append({"m": "simple", "seed": seed})
    cases.append({"m": "commands", "seed": seed})
    return cases


def cmp_ser(res, vc, fp, got, want, nt, what):
    if got != want:
        res.violation(fp, vc, show(got, 100), show(want, 100), what)
        return False
    res.ok(fp.split("/")[1] + " serialize==ref", nontrivial=nt)
    return True


def run_msgser(case):
    import buidl.network as net
    import buidl.compactfilter as cf

    res = Res()
    seed = case.get("seed", 0)
    vc = {"engine": "messages", "case": case}
    m = case["m"]
    hs = hashes4(seed, "stop")
    if m == "getheaders":
        v, n = case["v"], I(case["n"])
        for si, start in enumerate(hashes4(seed, "start")):
            for ei, end in enumerate([None] + hs):
                want = R.getheaders_msg(v, n, [start], end if end is not None else b"\x00" * 32)
                kw = {} if end is None else {"end_block": end}
                msg = attempt(net.GetHeadersMessage, version=v, num_hashes=n, start_block=start, **kw)
                got = attempt(msg.serialize) if not rej(msg) else msg
                cls = f"raised/count={vclass(n)}" if rej(got) else "version" if got[:4] != want[:4] else f"count={vclass(n)}" if got[: len(want) - 64] != want[: len(want) - 64] else "hashes"
                cmp_ser(res, vc, f"C19/getheaders/{cls}", got, want, (m, v, n, si, ei), "GetHeadersMessage.serialize() differs from version|count|locator|stop layout")
        return res
    if m == "getdata":
        n, shift = case["n"], case["shift"]
        items = [(INV_TYPES[(i + shift) % len(INV_TYPES)], H("inv", seed, i)) for i in range(n)]
        want = R.inv_msg(items)
        assert n > 5000 or R.parse_inv_msg(want) == items
        msg = net.GetDataMessage()
        r = attempt(lambda: [msg.add_data(t, h) for t, h in items])
        got = attempt(msg.serialize) if not rej(r) else r
        fp = f"C19/getdata/count={vclass(n)}"
        if got != want and n > 1:
            for t, h in items[: len(INV_TYPES)]:
                one = net.GetDataMessage()
                if attempt(lambda: (one.add_data(t, h), one.serialize())[1]) != R.inv_msg([(t, h)]):
                    fp = f"C19/getdata/item/type={t:#x}"
                    break
        cmp_ser(res, vc, fp, got, want, (m, n, shift), "GetDataMessage.serialize() differs from count|(type,hash)* layout")
        return res
    if m == "getdata-seq":
        import itertools

        entries = [(t, h) for t in (INV_TYPES[0], INV_TYPES[-1]) for h in (H("inv", seed, 0), H("inv", seed, 1))]
        for seq in itertools.product(range(len(entries)), repeat=case["len"]):
            items = [entries[j] for j in seq]
            want = R.inv_msg(items)
            msg = net.GetDataMessage()
            r = attempt(lambda: [msg.add_data(t, h) for t, h in items])
            got = attempt(msg.serialize) if not rej(r) else r
            rep = "same-entry-twice" if len(set(items)) < len(items) else "same-hash-two-types" if len({h for _, h in items}) < len(items) else "distinct"
            cmp_ser(res, vc, f"C19/getdata/sequence/{rep}", got, want, (m, seq), "GetDataMessage.serialize() differs from count|(type,hash)* layout")
        return res
    if m in ("getcfilters", "getcfheaders"):
        cls = cf.GetCFiltersMessage if m == "getcfilters" else cf.GetCFHeadersMessage
        ft = case["ft"]
        for sh in U32:
            for hi, stop in enumerate(hs):
                kw = {"start_height": sh, "stop_hash": stop}
                if ft is not None:
                    kw["filter_type"] = ft
                want = R.getcfilters_msg(0 if ft is None else ft, sh, stop)
                msg = attempt(cls, **kw)
                got = attempt(msg.serialize) if not rej(msg) else msg
                where = "raised" if rej(got) else "filter_type" if got[:1] != want[:1] else f"start_height/bytes{(sh.bit_length() + 7) // 8}" if got[1:5] != want[1:5] else "stop_hash"
                cmp_ser(res, vc, f"C19/{m}/{where}", got, want, (m, ft, sh, hi), f"{cls.__name__}.serialize() differs from type|start height|stop hash layout")
        return res
    if m == "getcfcheckpt":
        for ft in FTYPES + [None]:
            for hi, stop in enumerate(hs):
                kw = {"stop_hash": stop}
                if ft is not None:
                    kw["filter_type"] = ft
                want = R.getcfcheckpt_msg(0 if ft is None else ft, stop)
                msg = attempt(cf.GetCFCheckPointMessage, **kw)
                got = attempt(msg.serialize) if not rej(msg) else msg
                where = "raised" if rej(got) else "filter_type" if got[:1] != want[:1] else "stop_hash"
                cmp_ser(res, vc, f"C19/getcfcheckpt/{where}", got, want, (m, ft, hi), "GetCFCheckPointMessage.serialize() differs from type|stop hash layout")
        return res
    if m == "simple":
        cmp_ser(res, vc, "C19/verack/serialize", attempt(lambda: net.VerAckMessage().serialize()), b"", ("verack",), "verack has an empty payload")
        for i, nonce in enumerate(nonces(seed)):
            cmp_ser(res, vc, "C19/ping/serialize", attempt(lambda: net.PingMessage(nonce).serialize()), nonce, ("ping", i), "ping payload is the 8-byte nonce")
            cmp_ser(res, vc, "C19/pong/serialize", attempt(lambda: net.PongMessage(nonce).serialize()), nonce, ("pong", i), "pong payload is the 8-byte nonce")
        for ln in (0, 1, 253):
            p = pattern(seed, "generic", ln)
            g = attempt(net.GenericMessage, b"sendheaders", p)
            cmp_ser(res, vc, "C19/generic/serialize", attempt(g.serialize) if not rej(g) else g, p, ("generic", ln), "generic message payload passes through")
        return res
    if m == "commands":
        for name, want in COMMANDS.items():
            cls = getattr(net, name, None) or getattr(cf, name, None)
            got = getattr(cls, "command", None)
            if got != want:
                res.violation(f"C19/command-name/{want.decode()}", vc, show(got), want.decode(), "message class advertises a wrong command name")
            else:
                res.ok("command name", nontrivial=("cmd", name))
        return res
    raise ValueError(m)


def nonces(seed):
    return [b"\x00" * 8, b"\xff" * 8, bytes(range(1, 9)), b"\x00" * 7 + b"\x01", b"\x01" + b"\x00" * 7, filler(seed, "nonce", 1, 8)]


# ====================================================================== parse-side messages
def mk_header(seed, i):
    f = filler(seed, "hdr", i, 80)
    return {"version": int.from_bytes(f[0:4], "little"), "prev": f[4:36], "merkle": f[36:68], "time": int.from_bytes(f[68:72], "little"), "bits": f[72:76], "nonce": f[76:80]}


def gen_msgparse(tier, seed):
    cases = []
    for n in COUNTS:
        cases.append({"m": "headers", "n": n, "seed": seed})
    lens = list(range(1, 301)) + [1000, 4096]
    if tier == "thorough":
        lens += list(range(301, 1200)) + [16384, 65535, 65536, 65537, 65538]
    for i in range(0, 300, 20):
        cases.append({"m": "cfilter", "lens": lens[i : i + 20], "seed": seed})
    for ln in lens[300:]:
        cases.append({"m": "cfilter", "lens": [ln], "seed": seed, "heavy": ln >= 16384})
    cases.append({"m": "cfilter-real", "seed": seed})
    counts = COUNTS + ([65535, 65536] if tier == "thorough" else [])
    for n in counts:
        for ft in (0, 1, 0xFF):
            cases.append({"m": "cfheaders", "n": n, "ft": ft, "seed": seed})
            cases.append({"m": "cfcheckpt", "n": n, "ft": ft, "seed": seed})
    cases.append({"m": "pingpong", "seed": seed})
    return cases


def is_classmethod(cls, name):
    import inspect

    return isinstance(inspect.getattr_static(cls, name, None), classmethod)


def parse_like_wait_for(cls, payload):
    """exactly what SimpleNode.wait_for does with a received envelope: cls.parse(envelope.stream())"""
    s = io.BytesIO(payload)
    m = attempt(cls.parse, s)
    return m, s


def pong_fp(cls, m):
    if rej(m) and not is_classmethod(cls, "parse"):
        return "C19/pong/parse-not-classmethod"
    return None


def run_msgparse(case):
    import buidl.network as net
    import buidl.compactfilter as cf

    res = Res()
    seed = case.get("seed", 0)
    vc = {"engine": "messages", "case": case}
    m = case["m"]
    if m == "headers":
        n = case["n"]
        hdrs = [mk_header(seed, i) for i in range(n)]
        raw = R.headers_msg(hdrs)
        msg, s = parse_like_wait_for(net.HeadersMessage, raw + MARK)
        got = attempt(lambda: [block_fields(b) for b in msg.headers]) if not rej(msg) else msg
        if got != hdrs or s.read() != MARK:
            fp = f"C19/headers/parse/count={vclass(n)}"
            if n > 1:  # entry-level root cause when a one-header message is already mis-parsed
                one, _ = parse_like_wait_for(net.HeadersMessage, R.headers_msg(hdrs[:1]))
                if rej(one) or attempt(lambda: [block_fields(b) for b in one.headers]) != hdrs[:1]:
                    fp = "C19/headers/parse/entry"
            res.violation(fp, vc, show(got), f"{n} headers", "HeadersMessage.parse does not return the encoded headers / stream position wrong")
        else:
            back = attempt(lambda: [b.serialize() for b in msg.headers])
            if back != [R.header(h) for h in hdrs]:
                res.violation(f"C19/headers/reserialize/count={vclass(n)}", vc, "differs", "identical", "parsed headers do not serialise back to the wire bytes")
            else:
                res.ok("headers parse==values", nontrivial=("headers", n), sample={"count": n} if n == 253 else None)
        # a headers message whose per-header transaction count is not zero is not a headers message
        for pos in sorted({0, n - 1}) if n else []:
            for tc in (1, 253):
                tcs = [0] * n
                tcs[pos] = tc
                bad = R.headers_msg(hdrs, tcs)
                msg, _ = parse_like_wait_for(net.HeadersMessage, bad)
                if not rej(msg):
                    res.violation("C19/headers/nonzero-txcount-accepted", vc, f"accepted with tx count {tc} at header {pos}", "rejected", "headers entry with a non-zero transaction count accepted")
                else:
                    res.ok("headers nonzero txcount rejected", nontrivial=("headers-tc", n, pos, tc))
        return res
    if m in ("cfilter", "cfilter-real"):
        if m == "cfilter-real":
            filters = [bytes.fromhex("0385acb4f0fe889ef0"), bytes.fromhex("09027acea61b6cc3fb33f5d52f7d088a6b2f75d234e89ca800"), b"\x00"]
            sets = [{570774, 1341840, 1483084}, None, set()]
        else:
            filters, sets = [], []
            for ln in case["lens"]:
                g = R.gcs_of_length(ln)
                if g is None:
                    res.skip("no valid BIP158 filter has this byte length (2 or 3)")
                    continue
                fb, vals = g
                filters.append(fb)
                sets.append(set(vals))
        for fb, st in zip(filters, sets):
            fts = FTYPES if len(fb) <= 300 else [0]
            bhs = hashes4(seed, "bh")[2:] if len(fb) <= 300 else hashes4(seed, "bh")[3:]
            for ft in fts:
                for bi, bh in enumerate(bhs):
                    raw = R.cfilter_msg(ft, bh, fb)
                    msg, s = parse_like_wait_for(cf.CFilterMessage, raw + MARK)
                    cls = f"len={vclass(len(fb))}"
                    if rej(msg):
                        res.violation(f"C19/cfilter/parse-rejected/{cls}", vc, repr(msg), "parsed", "well-formed cfilter message rejected")
                        continue
                    got = attempt(lambda: (msg.filter_type, bytes(msg.block_hash), bytes(msg.filter_bytes), s.read()))
                    want = (ft, bh, fb, MARK)
                    if got != want:
                        bad = "raised" if rej(got) else ["filter_type", "block_hash", f"filter_bytes/{cls}", f"position/{cls}"][[a == b for a, b in zip(got, want)].index(False)]
                        res.violation(f"C19/cfilter/parse/{bad}", vc, show(got), show(want), "CFilterMessage.parse fields differ from type|block hash|var bytes layout")
                        continue
                    if attempt(msg.hash) != R.dsha(fb):
                        res.violation("C19/cfilter/hash", vc, show(attempt(msg.hash)), R.dsha(fb).hex(), "filter hash is not SHA256d(filter bytes)")
                        continue
                    if st is not None and attempt(lambda: set(msg.cf.hashes)) != st:
                        res.violation(f"C19/cfilter/decoded-set/{cls}", vc, "differs", f"{len(st)} values", "filter bytes decoded to a different set")
                        continue
                    res.ok("cfilter parse==values", nontrivial=("cfilter", ft, bi, len(fb)), sample={"filter_len": len(fb)} if len(fb) == 253 and ft == 0 else None)
        return res
    if m in ("cfheaders", "cfcheckpt"):
        n, ft = case["n"], case["ft"]
        for si, stop in enumerate(hashes4(seed, "stop")[1:]):
            hashes = [H("fh", seed, m, i) for i in range(n)]
            prev = filler(seed, "prevfh", si, 32)
            if m == "cfheaders":
                raw = R.cfheaders_msg(ft, stop, prev, hashes)
                msg, s = parse_like_wait_for(cf.CFHeadersMessage, raw + MARK)
                got = attempt(lambda: (msg.filter_type, bytes(msg.stop_hash), bytes(msg.previous_filter_header), [bytes(h) for h in msg.filter_hashes], s.read()))
                want = (ft, stop, prev, hashes, MARK)
                names = ["filter_type", "stop_hash", "previous_filter_header", f"filter_hashes/count={vclass(n)}", f"position/count={vclass(n)}"]
            else:
                raw = R.cfcheckpt_msg(ft, stop, hashes)
                msg, s = parse_like_wait_for(cf.CFCheckPointMessage, raw + MARK)
                got = attempt(lambda: (msg.filter_type, bytes(msg.stop_hash), [bytes(h) for h in msg.filter_headers], s.read()))
                want = (ft, stop, hashes, MARK)
                names = ["filter_type", "stop_hash", f"filter_headers/count={vclass(n)}", f"position/count={vclass(n)}"]
            if rej(msg) or got != want:
                bad = "rejected" if rej(msg) else "raised" if rej(got) else names[[a == b for a, b in zip(got, want)].index(False)]
                res.violation(f"C19/{m}/parse/{bad}", vc, show(got if not rej(msg) else msg), f"type {ft}, stop {stop.hex()[:16]}.., {n} hashes", f"{m} parse differs from the BIP157 layout")
                continue
            if m == "cfheaders" and attempt(lambda: bytes(msg.last_header)) != R.filter_header_chain(prev, hashes):
                res.violation("C19/cfheaders/last-header", vc, show(attempt(lambda: msg.last_header)), R.filter_header_chain(prev, hashes).hex(), "last filter header is not the BIP157 chain of the received hashes")
                continue
            res.ok(f"{m} parse==values", nontrivial=(m, n, ft, si))
        return res
    if m == "pingpong":
        for cname, cls in (("ping", net.PingMessage), ("pong", net.PongMessage)):
            for i, nonce in enumerate(nonces(seed)):
                msg, s = parse_like_wait_for(cls, nonce + MARK)
                if rej(msg):
                    fp = (pong_fp(cls, msg) if cname == "pong" else None) or f"C19/{cname}/parse-rejected"
                    res.violation(fp, vc, repr(msg), "parsed", f"{cls.__name__}.parse(stream), called as SimpleNode.wait_for calls it, fails on a well-formed payload")
                    continue
                got = attempt(lambda: (bytes(msg.nonce), msg.serialize(), s.read(), type(msg).__name__))
                if got != (nonce, nonce, MARK, cls.__name__):
                    res.violation(f"C19/{cname}/parse", vc, show(got), nonce.hex(), "nonce message does not round-trip")
                    continue
                res.ok(f"{cname} parse==nonce & reserialize", nontrivial=(cname, i))
        msg, _ = parse_like_wait_for(net.VerAckMessage, b"")
        if rej(msg) or attempt(msg.serialize) != b"":
            res.violation("C19/verack/parse", vc, show(msg), "verack", "verack does not round-trip")
        else:
            res.ok("verack round trip", nontrivial=("verack",))
        return res
    raise ValueError(m)


# ====================================================================== node histories (E2)
class FakeSock:
    def __init__(self):
        self.sent = b""

    def sendall(self, b):
        self.sent += bytes(b)


def node_world(seed):
    """incoming event -> (command, payload)"""
    n1, n2 = bytes(range(1, 9)), filler(seed, "nonce", 2, 8)
    stop = filler(seed, "stop", 9, 32)
    fb = bytes.fromhex("0385acb4f0fe889ef0")
    vf = ver_concrete({"f": ver_base(), "seed": seed})
    return {
        "version": (b"version", R.version_msg(vf)),
        "verack": (b"verack", b""),
        "ping1": (b"ping", n1),
        "ping2": (b"ping", n2),
        "pong1": (b"pong", n1),
        "headers": (b"headers", R.headers_msg([mk_header(seed, 0), mk_header(seed, 1)])),
        "cfilter": (b"cfilter", R.cfilter_msg(0, stop, fb)),
        "cfheaders": (b"cfheaders", R.cfheaders_msg(0, stop, filler(seed, "p", 0, 32), [H("a"), H("b")])),
        "cfcheckpt": (b"cfcheckpt", R.cfcheckpt_msg(0, stop, [H("c")])),
        "unknown": (b"sendheaders", b""),
        "bigunknown": (b"block", pattern(seed, "payload", BIG_EVENT)),
        "nonascii": (b"caf\xe9", b""),
        "badsum": None,
        "wrongnet": None,
        "short": None,
        "badlen": None,
        "badping": None,
        "badver": None,
    }


BIG_EVENT = 70000
EVENTS = ["version", "verack", "ping1", "ping2", "pong1", "headers", "cfilter", "cfheaders", "cfcheckpt", "unknown", "bigunknown", "badsum", "wrongnet",
          "short", "badlen", "badping", "badver"]  # fmt: skip
# envelopes the strict reference receiver refuses: wait_for must raise when it reaches one, and must not answer it
BAD_EVENTS = ("badsum", "wrongnet", "short", "badlen", "badping", "badver")
WANTS = ["VerAckMessage", "PingMessage", "PongMessage", "HeadersMessage", "CFilterMessage", "CFHeadersMessage", "CFCheckPointMessage"]
TARGET_OF = {"VerAckMessage": "verack", "PingMessage": "ping2", "PongMessage": "pong1", "HeadersMessage": "headers", "CFilterMessage": "cfilter",
             "CFHeadersMessage": "cfheaders", "CFCheckPointMessage": "cfcheckpt"}  # fmt: skip


def gen_node(tier, seed):
    depth = 2 if tier == "quick" else 3
    cases = []
    for net in NETS:
        cases.append({"mode": "send", "net": net, "seed": seed})
        for inc in (["verack"], ["version", "verack"], ["ping1", "verack"], ["unknown", "version", "ping2", "verack"], []):
            cases.append({"mode": "handshake", "net": net, "hist": inc, "seed": seed})
        for want in WANTS:
            pre_alphabet = [e for e in EVENTS if node_cmd(e) != COMMANDS[want]]
            for d in range(depth + 1):
                for pre in itertools.product(pre_alphabet, repeat=d):
                    if sum(1 for e in pre if e in BAD_EVENTS) > 1:
                        continue
                    cases.append({"mode": "wait", "net": net, "want": [want], "hist": list(pre) + [TARGET_OF[want], "unknown"], "seed": seed})
                    if d <= 1:  # the same histories with SimpleNode.logging switched on (send/read print the envelope)
                        cases.append({"mode": "wait", "net": net, "want": [want], "hist": list(pre) + [TARGET_OF[want], "unknown"], "seed": seed, "logging": True})
            cases.append({"mode": "wait", "net": net, "want": [want], "hist": ["unknown", "version"], "seed": seed})  # never arrives
            for lg in (False, True):  # checksum-valid envelope whose command has a byte >= 0x80: ignored or refused, never mistaken
                cases.append({"mode": "wait-nonascii", "net": net, "want": [want], "hist": ["nonascii", TARGET_OF[want]], "seed": seed, "logging": lg})
        for pair in (["HeadersMessage", "CFHeadersMessage"], ["PingMessage", "VerAckMessage"]):
            for pre in itertools.product(EVENTS, repeat=2):
                cases.append({"mode": "wait", "net": net, "want": pair, "hist": list(pre) + ["verack", "headers"], "seed": seed})
        # wait_for() without any wanted class: answers pings/versions until the stream ends, then raises
        for hist in ([], ["verack"], ["version", "ping1", "verack"], ["ping2", "badsum", "ping1"], ["bigunknown", "ping1", "short", "ping2"]):
            cases.append({"mode": "wait", "net": net, "want": [], "hist": hist, "seed": seed})
        cases.append({"mode": "send", "net": net, "seed": seed, "logging": True})
        cases.append({"mode": "handshake", "net": net, "hist": ["version", "ping1", "verack"], "seed": seed, "logging": True})
        cases += gen_socket(tier, seed, net)
    return cases


def node_cmd(e):
    return {"version": b"version", "verack": b"verack", "ping1": b"ping", "ping2": b"ping", "pong1": b"pong", "headers": b"headers", "cfilter": b"cfilter",
            "cfheaders": b"cfheaders", "cfcheckpt": b"cfcheckpt", "unknown": b"sendheaders", "bigunknown": b"block", "nonascii": b"caf\xe9"}.get(e)  # fmt: skip


def wire_event(world, net, e):
    if e == "badsum":
        raw = bytearray(R.envelope(net, b"verack", b""))
        raw[21] ^= 1
        return bytes(raw)
    if e == "wrongnet":
        return R.envelope(NETS[(NETS.index(net) + 1) % 4], b"verack", b"")
    if e == "short":  # declares 2^20 more payload bytes than the whole remaining stream can hold
        raw = R.envelope(net, b"ping", bytes(range(1, 9)))
        return raw[:16] + R.le(8 + (1 << 20), 4) + raw[20:]
    if e == "badlen":  # payload-less envelope whose length field says 1: swallows the next byte (if any), checksum of the empty payload
        raw = R.envelope(net, b"verack", b"")
        return raw[:16] + R.le(1, 4) + raw[20:]
    if e == "badping":  # a ping whose payload was damaged in transit: must not be answered
        raw = bytearray(R.envelope(net, b"ping", bytes(range(1, 9))))
        raw[-1] ^= 1
        return bytes(raw)
    if e == "badver":  # a version message with a damaged checksum: must not be acknowledged
        raw = bytearray(R.envelope(net, *world["version"]))
        raw[20] ^= 0x10
        return bytes(raw)
    cmd, payload = world[e]
    return R.envelope(net, cmd, payload)


def describe(msg):
    """class name + the wire-relevant fields of a parsed message"""
    n = type(msg).__name__
    if n in ("PingMessage", "PongMessage"):
        return (n, bytes(msg.nonce))
    if n == "HeadersMessage":
        return (n, [R.header(block_fields(b)) for b in msg.headers])
    if n == "CFilterMessage":
        return (n, msg.filter_type, bytes(msg.block_hash), bytes(msg.filter_bytes))
    if n == "CFHeadersMessage":
        return (n, msg.filter_type, bytes(msg.stop_hash), bytes(msg.previous_filter_header), [bytes(h) for h in msg.filter_hashes])
    if n == "CFCheckPointMessage":
        return (n, msg.filter_type, bytes(msg.stop_hash), [bytes(h) for h in msg.filter_headers])
    return (n,)


def model_describe(name, payload):
    if name in ("PingMessage", "PongMessage"):
        return (name, payload[:8])
    if name == "HeadersMessage":
        n, pos, _ = R.read_compact(payload, 0)
        out = []
        for _ in range(n):
            h, pos = R.parse_header(payload, pos)
            out.append(R.header(h))
            pos += 1
        return (name, out)
    if name == "CFilterMessage":
        fb, _ = R.read_varstr(payload, 33)
        return (name, payload[0], payload[1:33][::-1], fb)
    if name == "CFHeadersMessage":
        n, pos, _ = R.read_compact(payload, 65)
        return (name, payload[0], payload[1:33][::-1], payload[33:65], [payload[pos + 32 * i : pos + 32 * i + 32] for i in range(n)])
    if name == "CFCheckPointMessage":
        n, pos, _ = R.read_compact(payload, 33)
        return (name, payload[0], payload[1:33][::-1], [payload[pos + 32 * i : pos + 32 * i + 32] for i in range(n)])
    return (name,)


LOGTAG = {False: "", True: " [logging on]"}


def make_node(netmod, net, incoming, logging=False):
    node = object.__new__(netmod.SimpleNode)
    node.network = net
    node.logging = logging
    node.socket = FakeSock()
    node.stream = io.BufferedReader(ChunkRaw(incoming, 1460))
    return node


def run_node(case):
    import buidl.network as netmod
    import buidl.compactfilter as cf

    res = Res()
    seed = case.get("seed", 0)
    net = case["net"]
    vc = {"engine": "node", "case": case}
    world = node_world(seed)
    mode = case["mode"]
    logging = bool(case.get("logging"))
    classes = {n: getattr(netmod, n, None) or getattr(cf, n) for n in COMMANDS}
    if mode == "socket":
        return run_socket(case, netmod, world)
    if mode == "send":
        vf = ver_concrete({"f": ver_base(), "seed": seed})
        stop = filler(seed, "stop", 3, 32)
        gd = netmod.GetDataMessage()
        gd.add_data(3, stop)
        msgs = [
            ("version", lambda: netmod.VersionMessage(**{KW[k]: vf[k] for k in VER_FIELDS}), R.version_msg(vf)),
            ("verack", netmod.VerAckMessage, b""),
            ("ping", lambda: netmod.PingMessage(vf["nonce"]), vf["nonce"]),
            ("pong", lambda: netmod.PongMessage(vf["nonce"]), vf["nonce"]),
            ("getheaders", lambda: netmod.GetHeadersMessage(start_block=stop), R.getheaders_msg(70015, 1, [stop], b"\x00" * 32)),
            ("getdata", lambda: gd, R.inv_msg([(3, stop)])),
            ("getcfilters", lambda: cf.GetCFiltersMessage(start_height=7, stop_hash=stop), R.getcfilters_msg(0, 7, stop)),
            ("getcfheaders", lambda: cf.GetCFHeadersMessage(start_height=7, stop_hash=stop), R.getcfheaders_msg(0, 7, stop)),
            ("getcfcheckpt", lambda: cf.GetCFCheckPointMessage(stop_hash=stop), R.getcfcheckpt_msg(0, stop)),
            ("sendheaders", lambda: netmod.GenericMessage(b"sendheaders", b""), b""),
        ]
        for cmd, mk, payload in msgs:
            node = make_node(netmod, net, b"", logging)
            r = attempt(lambda: node.send(mk()))
            want = R.envelope(net, cmd.encode(), payload)
            res.states += 1
            res.transitions += 1
            if rej(r) or node.socket.sent != want:
                rg = region(node.socket.sent, want)
                res.violation(f"C19/node/send/{cmd}/{rg}" + (f"/{net}" if rg == "magic" else ""), vc, show(r) if rej(r) else show(node.socket.sent, 60), show(want, 60), "SimpleNode.send does not put the message's envelope on the wire")
            else:
                res.ok("send: wire bytes == envelope(command, payload)" + LOGTAG[logging], nontrivial=("send", net, cmd, logging))
        return res
    hist = case["hist"]
    incoming = b"".join(wire_event(world, net, e) for e in hist)
    node = make_node(netmod, net, incoming, logging)
    if mode == "handshake":
        clock, draw = 1415483324.5, 0x0807060504030201

        class Clock:
            @staticmethod
            def time():
                return clock

        old_t, old_r = netmod.time, netmod.randint
        netmod.time, netmod.randint = Clock, lambda a, b: draw
        try:
            r = attempt(node.handshake)
        finally:
            netmod.time, netmod.randint = old_t, old_r
        vf = {"version": 70015, "services": 0, "timestamp": int(clock), "recv_services": 0, "recv_ip": b"\x00" * 4, "recv_port": 8333, "send_services": 0,
              "send_ip": b"\x00" * 4, "send_port": 8333, "nonce": R.le(draw, 8), "user_agent": b"/programmingblockchain:0.1/", "start_height": 0, "relay": True}  # fmt: skip
        sent = node.socket.sent
        res.states += len(hist) + 1
        res.transitions += len(hist) + 1
        # model: our version first, then a verack per received version and a pong per received ping, until the peer's verack
        replies = b""
        done = False
        for e in hist:
            if e == "version":
                replies += R.envelope(net, b"verack", b"")
            if e.startswith("ping"):
                replies += R.envelope(net, b"pong", world[e][1])
            if e == "verack":
                done = True
                break
        good = R.envelope(net, b"version", R.version_msg(vf)) + replies
        swapped = R.envelope(net, b"version", R.version_msg(dict(vf, recv_port=swap16(8333), send_port=swap16(8333)))) + replies
        if rej(r) != (not done):
            res.violation("C19/node/handshake/completion", vc, repr(r), "completes" if done else "fails (no verack)", "handshake completion does not follow the received messages")
        elif sent == good:
            res.ok("handshake: wire bytes == model" + LOGTAG[logging], nontrivial=("hs", net, tuple(hist), logging))
        elif sent == swapped:
            res.violation("C19/version/port-byte-order", vc, show(sent, 120), show(good, 120), "handshake sends a version message whose two port fields are little-endian (protocol: big-endian)")
        else:
            res.violation(f"C19/node/handshake/sent/{region(sent, good)}", vc, show(sent, 120), show(good, 120), "bytes sent during the handshake differ from the model")
        return res
    # mode == wait
    wants = case["want"]
    want_cmds = {COMMANDS[w]: w for w in wants}
    r = attempt(lambda: node.wait_for(*[classes[w] for w in wants]))
    sent = node.socket.sent
    rest = node.stream.read()
    # protocol model
    exp_sent, exp = b"", None
    consumed = 0
    for e in hist:
        if e in BAD_EVENTS:
            try:  # the harness' own claim "this envelope is bad" is decided by the strict reference receiver on the actual stream
                R.parse_envelope(net, incoming, consumed)
                res.skip("damaged envelope that the reference receiver happens to accept in this stream (checksum coincidence)")
                return res
            except R.Reject:
                pass
            exp = "reject"
            break
        consumed += len(wire_event(world, net, e))
        cmd, payload = world[e]
        if cmd == b"version":
            exp_sent += R.envelope(net, b"verack", b"")
        if cmd == b"ping":
            exp_sent += R.envelope(net, b"pong", payload)
        if cmd in want_cmds:
            exp = model_describe(want_cmds[cmd], payload)
            break
    if exp is None:
        exp = "reject"  # stream ends before a wanted message arrives
    res.states += len(hist)
    res.transitions += len(hist)
    key = ("wait", net, tuple(wants), tuple(hist), logging)
    if mode == "wait-nonascii":
        # not asserted which of the two (Bitcoin Core refuses such a command field, buidl without logging ignores it); asserted: nothing else happens
        if rej(r) and sent == b"":
            res.ok("envelope with a non-ASCII command: refused" + LOGTAG[logging], nontrivial=key)
        elif not rej(r) and sent == exp_sent and attempt(describe, r) == model_describe(wants[0], world[hist[1]][1]):
            res.ok("envelope with a non-ASCII command: ignored, next message returned" + LOGTAG[logging], nontrivial=key)
        else:
            res.violation("C19/node/wait-for/nonascii-command-mistaken", vc, {"result": show(r if rej(r) else attempt(describe, r)), "sent": show(sent, 60)}, "refused (nothing sent), or ignored and the following wanted message returned (and answered if it is a ping)", "an envelope with a non-ASCII command changes what wait_for returns or sends")
        return res
    if sent != exp_sent:
        res.violation(f"C19/node/auto-reply/{region(sent, exp_sent)}", vc, show(sent, 80), show(exp_sent, 80), "verack/pong replies sent while waiting differ from the model")
        return res
    if exp == "reject":
        if rej(r):
            res.ok("wait_for: corrupted/foreign envelope or end of stream -> raised" + LOGTAG[logging], nontrivial=key)
        else:
            res.violation("C19/node/wait-for/accepted-after-bad-envelope", vc, show(attempt(describe, r)), "raised", "wait_for returned a message although the stream held a bad envelope / ended first")
        return res
    if rej(r):
        fp = None
        if exp[0] == "PongMessage":
            fp = pong_fp(classes["PongMessage"], r)
        res.violation(fp or f"C19/node/wait-for/{exp[0]}-rejected", vc, repr(r), show(exp), "wait_for fails although a well-formed wanted message arrived")
        return res
    got = attempt(describe, r)
    if got != exp:
        res.violation(f"C19/node/wait-for/{exp[0]}-fields", vc, show(got), show(exp), "message returned by wait_for differs from the wire payload")
    elif rest != incoming[consumed:]:
        res.violation("C19/node/wait-for/stream-position", vc, len(rest), len(incoming) - consumed, "wait_for consumed bytes beyond the returned message")
    else:
        res.ok(f"wait_for -> {exp[0]} == model" + LOGTAG[logging], nontrivial=key, sample={"net": net, "want": wants, "hist": hist} if len(hist) == 4 and net == "signet" else None)
    return res


# ====================================================================== real SimpleNode.__init__ over a socket pair (node engine, mode "socket")
DEFAULT_PORT = {"mainnet": 8333, "testnet": 18333, "signet": 38333, "regtest": 18444}  # chain parameters (nDefaultPort)
SOCK_HOST = "127.0.0.1"


def gen_socket(tier, seed, net):
    big = 100000 if tier == "quick" else 1 << 20
    cases = []
    for step, b in ((1, 2000), (7, big), (1460, big), (1 << 20, big)):
        for sc in ("wait", "short", "handshake"):
            cases.append({"mode": "socket", "net": net, "scenario": sc, "step": step, "big": b, "port": None, "seed": seed})
    cases.append({"mode": "socket", "net": net, "scenario": "wait", "step": 1460, "big": 2000, "port": 12345, "seed": seed})
    return cases


def socket_stub(step):
    """Stand-in for the `socket` module inside buidl.network: socket() hands out one end of a real socketpair (a genuine
    socket.socket, so makefile()/sendall() are the standard library's own) whose connect() only records the address and
    whose recv delivers at most `step` bytes per call, like segments arriving one at a time."""
    import socket as real

    state = {"connected": [], "peer": None, "sock": None}

    class ChunkSock(real.socket):
        def connect(self, addr):
            state["connected"].append(addr)

        def connect_ex(self, addr):
            state["connected"].append(addr)
            return 0

        def recv_into(self, buf, nbytes=0, flags=0):
            n = min(nbytes or len(buf), step)
            return super().recv_into(memoryview(buf)[:n], n, flags)

        def recv(self, n, flags=0):
            return super().recv(min(n, step), flags)

    class Stub:
        def socket(self, *a, **kw):
            x, y = real.socketpair()
            state["peer"] = y
            state["sock"] = ChunkSock(fileno=x.detach())
            return state["sock"]

        def __getattr__(self, name):
            return getattr(real, name)

    return Stub(), state


def run_socket(case, netmod, world):
    import socket as real
    import threading

    res = Res()
    net, sc, step, seed = case["net"], case["scenario"], case["step"], case.get("seed", 0)
    vc = {"engine": "node", "case": case}
    bigenv = R.envelope(net, b"block", pattern(seed, "payload", case["big"]))
    ev = lambda e: wire_event(world, net, e)
    if sc == "wait":
        wire = ev("version") + ev("ping1") + bigenv + ev("verack") + ev("pong1")
    elif sc == "short":
        wire = ev("ping1") + bigenv[:-1]
    else:
        wire = ev("version") + ev("verack")
    stub, st = socket_stub(step)
    clock, draw = 1415483324.5, 0x0807060504030201

    class Clock:
        @staticmethod
        def time():
            return clock

    old = (netmod.socket, netmod.time, netmod.randint)
    netmod.socket, netmod.time, netmod.randint = stub, Clock, (lambda a, b: draw)
    writer = None
    out = {}
    try:
        kw = {"network": net}
        if case["port"] is not None:
            kw["port"] = case["port"]
        node = attempt(netmod.SimpleNode, SOCK_HOST, **kw)
        if not rej(node) and st["peer"] is not None:
            peer = st["peer"]

            def feed():
                try:
                    peer.sendall(wire)
                    peer.shutdown(real.SHUT_WR)
                except OSError:
                    pass

            writer = threading.Thread(target=feed, daemon=True)
            writer.start()
            if sc == "handshake":
                out["r"] = attempt(node.handshake)
            else:
                out["r"] = attempt(lambda: node.wait_for(netmod.VerAckMessage))
            if sc == "wait":
                out["next"] = attempt(node.read)
                out["eof"] = attempt(node.read)
            sent = b""
            while True:
                try:
                    chunk = peer.recv(1 << 16, real.MSG_DONTWAIT)
                except (BlockingIOError, OSError):
                    break
                if not chunk:
                    break
                sent += chunk
            out["sent"] = sent
    finally:
        netmod.socket, netmod.time, netmod.randint = old
        for closer in (lambda: node.stream.close(), lambda: st["sock"].close(), lambda: st["peer"].close()):
            try:
                closer()
            except Exception:
                pass
        if writer is not None:
            writer.join(20)
            if writer.is_alive():
                raise RuntimeError("socket harness: feeder thread did not finish")
    res.states += 1
    res.transitions += 1
    key = ("socket", net, sc, step, case["big"], case["port"])
    if rej(node) or "sent" not in out:
        res.violation("C19/socket/init", vc, repr(node), "a connected node", "SimpleNode(host, network=...) fails on a working socket")
        return res
    if getattr(node, "network", None) != net:  # send/read/wait_for frame with node.network (make_node above sets the same attribute)
        res.violation("C19/socket/init/network-not-kept", vc, show(getattr(node, "network", None)), net, "SimpleNode(host, network=X) does not frame its traffic for network X")
        return res
    want_addr = (SOCK_HOST, case["port"] if case["port"] is not None else DEFAULT_PORT[net])
    if st["connected"] != [want_addr]:
        res.violation(f"C19/socket/connect/{'explicit-port' if case['port'] is not None else 'default-port-' + net}", vc, show(st["connected"]), show([want_addr]), "SimpleNode connects to another address than (host, given port or the network's default P2P port)")
        return res
    r, sent = out["r"], out["sent"]
    pong1 = R.envelope(net, b"pong", world["ping1"][1])
    if sc == "short":
        if not rej(r):
            res.violation("C19/socket/short-payload-accepted", vc, show(attempt(describe, r)), "raised", "connection closed one byte before the declared payload length, yet wait_for returned")
        elif sent != pong1:
            res.violation(f"C19/socket/auto-reply/{region(sent, pong1) if sent else 'missing'}", vc, show(sent, 60), show(pong1, 60), "replies sent over the real socket differ from the model")
        else:
            res.ok("socket: stream closed inside a declared payload -> raised, earlier ping answered", nontrivial=key)
        return res
    if sc == "handshake":
        vf = {"version": 70015, "services": 0, "timestamp": int(clock), "recv_services": 0, "recv_ip": b"\x00" * 4, "recv_port": 8333, "send_services": 0,
              "send_ip": b"\x00" * 4, "send_port": 8333, "nonce": R.le(draw, 8), "user_agent": b"/programmingblockchain:0.1/", "start_height": 0, "relay": True}  # fmt: skip
        tail = R.envelope(net, b"verack", b"")
        good = R.envelope(net, b"version", R.version_msg(vf)) + tail
        swapped = R.envelope(net, b"version", R.version_msg(dict(vf, recv_port=swap16(8333), send_port=swap16(8333)))) + tail
        if rej(r):
            res.violation("C19/socket/handshake-rejected", vc, repr(r), "completes", "handshake over a real socket fails although version and verack arrive intact (delivered in pieces)")
        elif sent == good:
            res.ok("socket: handshake wire bytes == model", nontrivial=key)
        elif sent == swapped:
            res.violation("C19/version/port-byte-order", vc, show(sent, 120), show(good, 120), "handshake sends a version message whose two port fields are little-endian (protocol: big-endian)")
        else:
            res.violation(f"C19/socket/handshake/sent/{region(sent, good)}", vc, show(sent, 120), show(good, 120), "bytes sent during the handshake over the real socket differ from the model")
        return res
    exp_sent = R.envelope(net, b"verack", b"") + pong1
    if rej(r) or type(r).__name__ != "VerAckMessage":
        res.violation("C19/socket/wait-for-rejected", vc, show(r), "VerAckMessage", "well-formed envelopes (one of them large) delivered in pieces over a real socket are refused")
    elif sent != exp_sent:
        res.violation(f"C19/socket/auto-reply/{region(sent, exp_sent) if sent else 'missing'}", vc, show(sent, 60), show(exp_sent, 60), "replies sent over the real socket differ from the model")
    elif rej(out["next"]) or attempt(env_fields, out["next"]) != {"command": b"pong", "payload": world["pong1"][1], "magic": R.MAGIC[net]}:
        res.violation("C19/socket/stream-position", vc, show(out["next"]), "pong envelope", "the envelope following the awaited message is not the next one read")
    elif not rej(out["eof"]):
        res.violation("C19/socket/eof-accepted", vc, show(attempt(env_fields, out["eof"])), "raised", "read() on a closed connection returns an envelope")
    else:
        res.ok("socket: wait_for/read over real SimpleNode.__init__ == model", nontrivial=key, sample={"net": net, "step": step, "big": case["big"]} if step == 7 and net == "signet" else None)
    return res


# ====================================================================== frames: command byte alphabet, per-command / per-size verification
def byteclass(b):
    if b == 0:
        return "nul"
    if b in (9, 10, 11, 12, 13, 32):
        return "whitespace"
    if b < 32:
        return "control"
    if 48 <= b <= 57:
        return "digit"
    if 65 <= b <= 90:
        return "uppercase"
    if 97 <= b <= 122:
        return "lowercase"
    if b < 127:
        return "punctuation"
    return "del" if b == 127 else "high-bit"


def gen_cmdbytes(tier, seed):
    cases = []
    for net in NETS:
        for ln in (1, 2, 11, 12):
            for pos in sorted({0, ln // 2, ln - 1}):
                cases.append({"net": net, "len": ln, "pos": pos, "seed": seed})
    return cases


def run_cmdbytes(case):
    from buidl.network import NetworkEnvelope

    res = Res()
    net, ln, pos, seed = case["net"], case["len"], case["pos"], case.get("seed", 0)
    vc = {"engine": "frames", "case": case}
    stem = seed_cmd(seed)[:ln]
    for b in range(256):
        cmd = stem[:pos] + bytes([b]) + stem[pos + 1 :]
        for plen in (0, 3):
            payload = pattern(seed, "payload", plen)
            if b == 0:
                # a NUL inside the command: not a protocol command, nothing asserted; what the library does is counted
                where = "only byte" if ln == 1 else "leading" if pos == 0 else "trailing" if pos == ln - 1 else "embedded"
                ser = attempt(lambda: NetworkEnvelope(cmd, payload, network=net).serialize())
                if rej(ser):
                    res.skip(f"command with a NUL ({where}; not asserted): serialize refused")
                    continue
                e = attempt(NetworkEnvelope.parse, io.BytesIO(ser), network=net)
                got = "refused" if rej(e) else "command returned unchanged" if bytes(e.command) == cmd else "command returned without the NUL" if bytes(e.command) == cmd.replace(b"\x00", b"") else "other command returned"
                res.skip(f"command with a NUL ({where}; not asserted): parse -> {got}")
                continue
            cls = byteclass(b)
            ref = R.envelope(net, cmd, payload)
            env = attempt(NetworkEnvelope, cmd, payload, network=net)
            ser = attempt(env.serialize) if not rej(env) else env
            if ser != ref:
                res.violation(f"C19/cmdbytes/serialize/{region(ser, ref)}/{cls}", vc, {"cmd": cmd.hex(), "got": show(ser)}, show(ref), "serialize() of a command containing this byte differs from magic|command|length|checksum|payload")
                continue
            bad = None
            for how, mk in (("parse", lambda: io.BytesIO(ref + MARK)), ("parse-chunked", lambda: io.BufferedReader(ChunkRaw(ref + MARK, 5)))):
                s = mk()
                e = attempt(NetworkEnvelope.parse, s, network=net)
                if rej(e):
                    bad = (f"C19/cmdbytes/{how}-rejected/{cls}", repr(e), "parsed", "well-formed envelope whose command contains this byte is rejected")
                    break
                f = attempt(env_fields, e)
                want = {"command": cmd, "payload": payload, "magic": R.MAGIC[net]}
                if f != want:
                    k = "raised" if rej(f) else [k for k in want if f[k] != want[k]][0]
                    bad = (f"C19/cmdbytes/{how}-{k}/{cls}", show(f if rej(f) else f[k]), show(want.get(k)), "parsed envelope does not report the command bytes that are on the wire")
                    break
                if s.read() != MARK:
                    bad = (f"C19/cmdbytes/{how}-position/{cls}", "differs", MARK.hex(), "parse consumed a wrong number of bytes")
                    break
                back = attempt(e.serialize)
                if back != ref:
                    bad = (f"C19/cmdbytes/{how}-reserialize/{region(back, ref)}/{cls}", show(back), show(ref), "parse -> serialize is not the identity")
                    break
            if bad:
                res.violation(bad[0], vc, {"cmd": cmd.hex(), "got": bad[1]}, bad[2], bad[3])
            else:
                res.ok(f"command byte {cls}: serialize==ref, parse==fields, reserialize", nontrivial=(net, cmd, plen))
    return res


ALL_CMDS = list(dict.fromkeys(REAL_CMDS + list(COMMANDS.values())))


def gen_cmdsum(tier, seed):
    plens = [0, 1, 100000] + ([1 << 20] if tier == "thorough" else [])
    cases = []
    for net in NETS:
        for c in ALL_CMDS:
            for p in plens:
                cases.append({"mode": "verify", "net": net, "cmd": c.hex(), "plen": p, "seed": seed})
        cases.append({"mode": "magicbits", "net": net, "seed": seed})
    return cases


def cmdsum_mutations(plen):
    """(name, where, fn(raw0, payload) -> bytes): one fault each; `unchanged` must still be accepted"""

    def flip(pos, x):
        def f(raw0, payload):
            raw = bytearray(raw0)
            raw[pos] ^= x
            return bytes(raw)

        return f

    muts = [("unchanged", "unchanged", lambda raw0, payload: raw0)]
    for i in range(4):
        muts.append((f"checksum byte {i} xor 0x10", "checksum", flip(20 + i, 0x10)))
    muts.append(("length +1, nothing follows", "length", lambda raw0, payload: raw0[:16] + R.le(len(payload) + 1, 4) + raw0[20:]))
    muts.append(("length +1 and checksum of payload+00, nothing follows", "length", lambda raw0, payload: raw0[:16] + R.le(len(payload) + 1, 4) + R.dsha(payload + b"\x00")[:4] + payload))
    if plen:
        for pos in sorted({0, plen // 2, plen - 1}):
            muts.append((f"payload byte {'first' if pos == 0 else 'last' if pos == plen - 1 else 'middle'} xor 0x01", "payload", flip(24 + pos, 1)))
        muts.append(("last payload byte missing, original checksum", "truncated", lambda raw0, payload: raw0[:-1]))
        muts.append(("last payload byte missing, checksum of the short payload", "truncated", lambda raw0, payload: raw0[:20] + R.dsha(payload[:-1])[:4] + payload[:-1]))
        muts.append(("length -1, original checksum", "length", lambda raw0, payload: raw0[:16] + R.le(len(payload) - 1, 4) + raw0[20:]))
    return muts


def run_cmdsum(case):
    res = Res()
    net, seed = case["net"], case.get("seed", 0)
    vc = {"engine": "frames", "case": case}
    before = res.evaluations
    if case["mode"] == "magicbits":
        own = R.MAGIC[net]
        for cmd, plen in ((b"verack", 0), (b"ping", 8)):
            raw0 = R.envelope(net, cmd, pattern(seed, "payload", plen))
            for i in range(4):
                vals = [own[i] ^ (1 << k) for k in range(8)] + [((own[i] << 4) | (own[i] >> 4)) & 0xFF, own[i] ^ 0xFF]
                for v in vals:
                    how = "magic byte replaced (single bit / nibble swap / complement)" if v != own[i] else "unchanged"
                    judge(res, vc, net, raw0[:i] + bytes([v]) + raw0[i + 1 :], how, "magic")
        res.nontrivial_bulk += res.evaluations - before
        return res
    cmd, plen = B(case["cmd"]), case["plen"]
    SIMPLE = (b"ping", 8)

    def run_one(c, p, name):
        t = Res()
        payload = pattern(seed, "payload", p)
        m = [x for x in cmdsum_mutations(p) if x[0] == name]
        if not m:
            return None
        judge(t, vc, net, m[0][2](R.envelope(net, c, payload), payload), m[0][0], m[0][1])
        return t

    for name, where, fn in cmdsum_mutations(plen):
        t = run_one(cmd, plen, name)
        if t.violations:
            # root cause: does the simplest envelope fail the same way?  then it is the general defect (same fingerprint as the
            # corrupt engine); otherwise the fingerprint names what the failure depends on
            simple = run_one(SIMPLE[0], SIMPLE[1], name)
            if (cmd, plen) == SIMPLE or (simple is not None and simple.violations):
                suffix = ""
            else:
                small = run_one(cmd, min(plen, 8), name)
                same_len = run_one(SIMPLE[0], plen, name)
                if small is not None and small.violations:
                    suffix = f"/only-command={cmd.decode('latin-1')}"
                elif same_len is not None and same_len.violations:
                    suffix = f"/only-payload-length>={plen}"
                else:
                    suffix = f"/only-command={cmd.decode('latin-1')}-with-payload-length>={plen}"
            if suffix:
                for v in t.violations:
                    fp = v["fingerprint"]
                    for tail in ("/checksum", "/payload", "/truncated", "/length", "/unchanged"):
                        if fp.endswith(tail):
                            fp = fp[: -len(tail)]
                    v["fingerprint"] = fp + suffix
        res.merge(t)
    res.nontrivial_bulk += res.evaluations - before
    return res


# ====================================================================== prims: further widths, strides through the gaps, wide encodings, input types
EXTRA_WIDTHS = [0, 5, 6, 7, 16, 20, 33, 64]


def stride_values(lo, hi, count):
    """`count` values spread evenly over [lo, hi) with an odd step (so every low-byte pattern occurs), plus both ends"""
    step = max(1, (hi - lo) // count) | 1
    return sorted(set(list(range(lo, hi, step))[:count] + [lo, hi - 1]))


def gen_widths(tier, seed):
    q = tier == "quick"
    cases = []
    for fam in ("le", "be"):
        for w in EXTRA_WIDTHS:
            cases.append({"kind": "width", "fam": fam, "w": w, "seed": seed})
        for w in (3, 4, 8, 32):
            cases.append({"kind": "stride", "fam": fam, "w": w, "count": 4096 if q else 1 << 16})
    for i, (lo, hi) in enumerate(((0x10400, 1 << 24), (1 << 24, 1 << 32), (1 << 32, 1 << 48), (1 << 48, 1 << 64))):
        cases.append({"kind": "vstride", "r": [str(lo), str(hi)], "count": 4099 if q else 1 << 16})
    cases.append({"kind": "vwide", "prefix": 0xFD, "count": 1 << 16})
    cases.append({"kind": "vwide", "prefix": 0xFE, "count": 4096 if q else 1 << 16})
    cases.append({"kind": "vwide", "prefix": 0xFF, "count": 4096 if q else 1 << 16})
    cases.append({"kind": "strlens", "lens": list(range(601, 65530, 4099)), "seed": seed})
    cases.append({"kind": "types", "seed": seed})
    return cases


def run_widths(case):
    from buidl import helper

    res = Res()
    vc = {"engine": "prims", "case": case}
    kind = case["kind"]
    if kind in ("width", "stride"):
        fam, w = case["fam"], case["w"]
        enc = helper.int_to_little_endian if fam == "le" else helper.int_to_big_endian
        dec = helper.little_endian_to_int if fam == "le" else helper.big_endian_to_int
        rref = R.le if fam == "le" else R.be
        top = 1 << (8 * w)
        if kind == "width":
            vals = {0, 1, 255, top - 1, top, top + 1, top + 255, top << 8, -1, -2, -top, top >> 1, (top >> 1) - 1}
            for k in range(1, w + 1):
                vals |= {(1 << (8 * k)) - 1, 1 << (8 * k), (1 << (8 * k)) + 1}
            if w:
                vals |= {int.from_bytes(filler(case.get("seed", 0), f"wide{w}", i, w), "big") for i in range(4)}
            vals = sorted(vals)
        else:
            vals = stride_values(0, top, case["count"])
        n_ok = n_rej = nviol = 0
        for n in vals:
            got = attempt(enc, n, w)
            if 0 <= n < top:
                want = rref(n, w)
                bad = None
                if got != want:
                    bad = (f"C19/ints/int_to_{fam}/w{w}/{'stride' if kind == 'stride' else 'in-range'}", show(got), want.hex(), "fixed-width encoding differs from the layout")
                else:
                    back = attempt(dec, want)
                    if back != n:
                        bad = (f"C19/ints/{fam}_to_int/w{w}/{'stride' if kind == 'stride' else 'in-range'}", show(back), n, "decoding does not return the encoded value")
                if bad:
                    nviol += 1
                    if nviol <= 4:
                        res.violation(bad[0], vc, {"n": str(n), "got": bad[1]}, bad[2], bad[3])
                else:
                    n_ok += 1
            elif not rej(got) and not (isinstance(got, bytes) and len(got) == w and attempt(dec, got) == n):
                nviol += 1
                if nviol <= 4:
                    res.violation(f"C19/ints/int_to_{fam}/w{w}/out-of-range", vc, {"n": str(n), "got": show(got)}, "rejected", "value that does not fit the width was encoded")
            else:
                n_rej += 1
        res.bulk(f"{fam}-enc==ref&dec==n (further widths / strides)", n_ok, n_ok)
        res.bulk(f"{fam}-out-of-range-rejected (further widths)", n_rej, n_rej)
        return res
    if kind == "vstride":
        lo, hi = I(case["r"][0]), I(case["r"][1])
        n_ok = nviol = 0
        for n in stride_values(lo, hi, case["count"]):
            want = R.compact(n)
            got = attempt(helper.encode_varint, n)
            bad = None
            if got != want:
                bad = (f"C19/varint/encode/stride-{vclass(n)}", show(got), want.hex(), "encode_varint differs from the CompactSize layout")
            else:
                s = io.BytesIO(want + MARK)
                back = attempt(helper.read_varint, s)
                if back != n or s.read() != MARK:
                    bad = (f"C19/varint/read/stride-{vclass(n)}", show(back), n, "read_varint does not return the encoded value / wrong stream position")
            if bad:
                nviol += 1
                if nviol <= 4:
                    res.violation(bad[0], vc, {"n": str(n), "got": bad[1]}, bad[2], bad[3])
            else:
                n_ok += 1
        res.bulk("varint enc==ref & read==n & position (stride)", n_ok, n_ok)
        return res
    if kind == "vwide":
        prefix = case["prefix"]
        width = {0xFD: 2, 0xFE: 4, 0xFF: 8}[prefix]
        n_can = n_rejd = n_val = nviol = 0
        for v in stride_values(0, 1 << (8 * width), case["count"]):
            raw = bytes([prefix]) + R.le(v, width)
            rv, rpos, canon = R.read_compact(raw + MARK)
            s = io.BytesIO(raw + MARK)
            got = attempt(helper.read_varint, s)
            if rej(got) and not canon:
                n_rejd += 1
            elif got == rv and s.read() == MARK:
                if canon:
                    n_can += 1
                else:
                    n_val += 1
            else:
                nviol += 1
                if nviol <= 4:
                    res.violation(f"C19/varint/read-prefix{prefix:#x}", vc, {"raw": raw.hex(), "got": show(got)}, rv, "read_varint returns a wrong value for a wide encoding")
        res.bulk("canonical==ref", n_can, n_can)
        res.bulk("noncanonical rejected", n_rejd, n_rejd)
        res.bulk("noncanonical read as layout value", n_val, n_val)
        return res
    if kind == "strlens":
        seed = case.get("seed", 0)
        for ln in case["lens"]:
            data = pattern(seed, "str", ln)
            want = R.varstr(data)
            got = attempt(helper.encode_varstr, data)
            s = io.BytesIO(want + MARK)
            back = attempt(helper.read_varstr, s)
            if got != want:
                res.violation(f"C19/varstr/encode/len{vclass(ln)}", vc, show(got), show(want), "encode_varstr differs from compact-size + bytes")
            elif back != data or s.read() != MARK:
                res.violation(f"C19/varstr/read/len{vclass(ln)}", vc, show(back), {"len": ln}, "read_varstr does not return the encoded bytes / leaves the stream at a wrong position")
            else:
                res.ok("varstr enc==ref & read==data & position", nontrivial=("str", ln))
        return res
    if kind == "types":
        # other input types a caller can pass: rejected, or the result for the equivalent bytes / int
        seed = case.get("seed", 0)
        for ln in (0, 1, 252, 253, 65536):
            data = pattern(seed, "str", ln)
            for tname, conv in (("bytearray", bytearray), ("memoryview", memoryview)):
                got = attempt(helper.encode_varstr, conv(data))
                if not rej(got) and bytes(got) != R.varstr(data):
                    res.violation(f"C19/varstr/encode/{tname}", vc, show(got), show(R.varstr(data)), "encode_varstr of a non-bytes buffer is accepted with a wrong result")
                else:
                    res.ok(f"encode_varstr({tname}): " + ("rejected" if rej(got) else "== layout"), nontrivial=("vs", tname, ln))
        for w in (1, 2, 4, 8, 32):
            data = filler(seed, "typ", w, w)
            for tname, conv in (("bytearray", bytearray), ("memoryview", memoryview)):
                for fn, rdec in ((helper.little_endian_to_int, R.from_le), (helper.big_endian_to_int, R.from_be)):
                    got = attempt(fn, conv(data))
                    if not rej(got) and got != rdec(data):
                        res.violation(f"C19/ints/{fn.__name__}/{tname}", vc, show(got), rdec(data), "decoding a non-bytes buffer is accepted with a wrong result")
                    else:
                        res.ok(f"{fn.__name__}({tname}): " + ("rejected" if rej(got) else "== value"), nontrivial=(fn.__name__, tname, w))
        for flag in (False, True):
            for name, fn, want in (
                ("int_to_little_endian", lambda: helper.int_to_little_endian(flag, 4), R.le(int(flag), 4)),
                ("int_to_big_endian", lambda: helper.int_to_big_endian(flag, 4), R.be(int(flag), 4)),
                ("encode_varint", lambda: helper.encode_varint(flag), R.compact(int(flag))),
                ("int_to_byte", lambda: helper.int_to_byte(flag), bytes([int(flag)])),
            ):
                got = attempt(fn)
                if not rej(got) and got != want:
                    res.violation(f"C19/ints/{name}/bool", vc, show(got), want.hex(), "a bool is accepted and encoded as something else than 0/1")
                else:
                    res.ok(f"{name}(bool): " + ("rejected" if rej(got) else "== encoding of 0/1"), nontrivial=(name, flag))
        return res
    raise ValueError(kind)


# ====================================================================== messages: object reuse, API variants
def gen_reuse(tier, seed):
    cases = [{"m": "envelope", "net": net, "seed": seed} for net in NETS]
    cases.append({"m": "messages", "seed": seed})
    for ln in range(1, 5 if tier == "quick" else 7):
        cases.append({"m": "getdata-history", "len": ln, "seed": seed})
    cases.append({"m": "api", "seed": seed})
    return cases


def run_reuse(case):
    import buidl.network as net
    import buidl.compactfilter as cf
    from buidl.block import Block

    res = Res()
    seed = case.get("seed", 0)
    vc = {"engine": "messages", "case": case}
    m = case["m"]
    if m == "envelope":
        nw = case["net"]
        for cmd, plen in ((b"verack", 0), (b"ping", 8), (CMD12, 253), (b"tx", 65536)):
            payload = pattern(seed, "payload", plen)
            ref = R.envelope(nw, cmd, payload)
            want = {"command": cmd, "payload": payload, "magic": R.MAGIC[nw]}
            env = attempt(net.NetworkEnvelope, cmd, payload, network=nw)
            first = attempt(env.serialize) if not rej(env) else env
            if first != ref:
                res.skip("first serialization already differs (reported by the envelope engine)")
                continue
            steps = [("serialize again", lambda: env.serialize(), ref), ("stream", lambda: env.stream().read(), payload), ("stream again", lambda: env.stream().read(), payload),
                     ("fields after use", lambda: env_fields(env), want), ("serialize third time", lambda: env.serialize(), ref)]  # fmt: skip
            bad = [(n, g) for n, g, w in ((n, attempt(f), w) for n, f, w in steps) if g != w]
            e1 = attempt(net.NetworkEnvelope.parse, io.BytesIO(ref), network=nw)
            e2 = attempt(net.NetworkEnvelope.parse, io.BytesIO(ref), network=nw)
            if not rej(e1) and not rej(e2):
                psteps = [("parsed: serialize", lambda: e1.serialize(), ref), ("parsed: fields after serialize", lambda: env_fields(e1), want), ("parsed: serialize again", lambda: e1.serialize(), ref),
                          ("parsed: stream", lambda: e1.stream().read(), payload), ("parsed: stream again", lambda: e1.stream().read(), payload), ("second parse of the same bytes", lambda: env_fields(e2), want)]  # fmt: skip
                bad += [(n, g) for n, g, w in ((n, attempt(f), w) for n, f, w in psteps) if g != w]
            else:
                bad.append(("parse", e1 if rej(e1) else e2))
            if bad:
                res.violation("C19/reuse/envelope", vc, {"step": bad[0][0], "got": show(bad[0][1])}, "same result as the first use", "using an envelope object a second time gives another result than the first time")
            else:
                res.ok("envelope: repeated serialize/stream/parse give identical results", nontrivial=("reuse-env", nw, cmd))
        return res
    if m == "messages":
        vf = ver_concrete({"f": ver_base(), "seed": seed})
        stop = filler(seed, "stop", 3, 32)
        h = mk_header(seed, 5)

        def getdata():
            g = net.GetDataMessage()
            g.add_data(3, stop)
            g.add_data(1, H("inv", seed, 1))
            return g

        msgs = [
            ("version", lambda: net.VersionMessage(**{KW[k]: vf[k] for k in VER_FIELDS}), R.version_msg(vf)),
            ("verack", net.VerAckMessage, b""),
            ("ping", lambda: net.PingMessage(vf["nonce"]), vf["nonce"]),
            ("pong", lambda: net.PongMessage(vf["nonce"]), vf["nonce"]),
            ("getheaders", lambda: net.GetHeadersMessage(start_block=stop, end_block=H("e", seed)), R.getheaders_msg(70015, 1, [stop], H("e", seed))),
            ("getdata", getdata, R.inv_msg([(3, stop), (1, H("inv", seed, 1))])),
            ("getcfilters", lambda: cf.GetCFiltersMessage(start_height=7, stop_hash=stop), R.getcfilters_msg(0, 7, stop)),
            ("getcfheaders", lambda: cf.GetCFHeadersMessage(start_height=7, stop_hash=stop), R.getcfheaders_msg(0, 7, stop)),
            ("getcfcheckpt", lambda: cf.GetCFCheckPointMessage(stop_hash=stop), R.getcfcheckpt_msg(0, stop)),
            ("generic", lambda: net.GenericMessage(b"sendheaders", b"\x01\x02"), b"\x01\x02"),
            ("header", lambda: Block(h["version"], h["prev"], h["merkle"], h["time"], h["bits"], h["nonce"]), R.header(h)),
            ("parsed-header", lambda: Block.parse_header(io.BytesIO(R.header(h))), R.header(h)),
            ("parsed-ping", lambda: net.PingMessage.parse(io.BytesIO(vf["nonce"])), vf["nonce"]),
            ("parsed-pong", lambda: net.PongMessage.parse(io.BytesIO(vf["nonce"])), vf["nonce"]),
        ]
        for name, mk, want in msgs:
            obj = attempt(mk)
            first = attempt(obj.serialize) if not rej(obj) else obj
            if first != want:
                res.skip("first serialization already differs (reported by the layout engines)")
                continue
            later = [attempt(obj.serialize) for _ in range(3)]
            if any(x != want for x in later):
                res.violation(f"C19/reuse/{name}/serialize-again", vc, show([x for x in later if x != want][0], 100), show(want, 100), "serialize() of the same message object gives another result when called again")
            else:
                res.ok("message: four serialize() calls on one object give identical bytes", nontrivial=("reuse-msg", name))
        return res
    if m == "getdata-history":
        entries = [(1, H("inv", seed, 0)), ((1 << 30) + 2, H("inv", seed, 1))]
        for ops in itertools.product(("a0", "a1", "s"), repeat=case["len"]):
            msg = net.GetDataMessage()
            items = []
            ser_seen = 0
            verdict = None
            for op in ops + ("s",):
                if op != "s":
                    items.append(entries[int(op[1])])
                    if rej(attempt(msg.add_data, *items[-1])):
                        verdict = ("add_data raised", None)
                        break
                    continue
                got = attempt(msg.serialize)
                want = R.inv_msg(items)
                if got != want:
                    fresh = net.GetDataMessage()
                    one = attempt(lambda: ([fresh.add_data(t, h) for t, h in items], fresh.serialize())[1])
                    if one != want:
                        verdict = "layout"
                    else:
                        verdict = ("serialize after earlier serialize/add calls" if ser_seen else "serialize", got)
                    break
                ser_seen += 1
            if verdict == "layout":
                res.skip("one-shot serialization of these entries already differs (reported by the getdata layout cases)")
            elif verdict:
                res.violation("C19/reuse/getdata/history", vc, {"ops": list(ops) + ["s"], "step": verdict[0], "got": show(verdict[1], 100)}, "count|(type,hash)* of the entries added so far", "interleaving add_data and serialize on one GetDataMessage changes what is serialised")
            else:
                res.ok("getdata history: every serialize == entries added so far", nontrivial=("gd-hist", ops))
        return res
    if m == "api":
        # constructor default network
        for cmd, payload in ((b"verack", b""), (b"ping", bytes(8))):
            got = attempt(lambda: net.NetworkEnvelope(cmd, payload).serialize())
            cmp_ser(res, vc, "C19/api/envelope-default-network", got, R.envelope("mainnet", cmd, payload), ("api-env", cmd), "NetworkEnvelope(command, payload) without a network is not a mainnet envelope")
        # header entry points
        h = mk_header(seed, 6)
        raw = R.header(h)
        for how, mk in (("hex-uppercase", lambda: Block.parse_header(hex=raw.hex().upper())), ("hex-keyword-lowercase", lambda: Block.parse_header(hex=raw.hex())), ("stream-keyword", lambda: Block.parse_header(stream=io.BytesIO(raw)))):
            b = attempt(mk)
            f = attempt(block_fields, b) if not rej(b) else b
            if f != h or attempt(b.serialize) != raw:
                res.violation(f"C19/api/parse-header/{how}", vc, show(f), show(h), "parse_header entry point does not return the encoded header")
            else:
                res.ok(f"parse_header({how}) == fields", nontrivial=("api-hdr", how))
        for how, mk in (("hex='' and no stream", lambda: Block.parse_header(hex="")), ("stream and hex together", lambda: Block.parse_header(io.BytesIO(raw), hex=raw.hex())), ("no argument", lambda: Block.parse_header())):
            b = attempt(mk)
            res.ok(f"parse_header({how}) (not asserted): " + ("rejected" if rej(b) else "returned a header"))
        s = io.BytesIO(raw + b"\x00" + MARK)
        b = attempt(Block.parse, s)
        f = attempt(lambda: (block_fields(b), list(b.txs), s.read()))
        if f != (h, [], MARK):
            res.violation("C19/api/block-parse-no-transactions", vc, show(f), show(h), "Block.parse(header | tx count 0) does not return the header with an empty transaction list")
        else:
            res.ok("Block.parse(header|00) == header fields, no transactions, position", nontrivial=("api-block",))
        # all-default version message (clock and random generator replaced)
        class Clock:
            @staticmethod
            def time():
                return 1415483324.5

        old_t, old_r = net.time, net.randint
        net.time, net.randint = Clock, (lambda a, b: 0x0807060504030201)
        try:
            ser = attempt(lambda: net.VersionMessage().serialize())
        finally:
            net.time, net.randint = old_t, old_r
        vf = {"version": 70015, "services": 0, "timestamp": 1415483324, "recv_services": 0, "recv_ip": b"\x00" * 4, "recv_port": 8333, "send_services": 0,
              "send_ip": b"\x00" * 4, "send_port": 8333, "nonce": R.le(0x0807060504030201, 8), "user_agent": b"/programmingblockchain:0.1/", "start_height": 0, "relay": True}  # fmt: skip
        classify_version(res, vc, ser, vf, ["all-defaults"], ("api-version-defaults",))
        # messages built with default arguments: bytes == layout of the values the object itself reports
        stop = filler(seed, "stop", 4, 32)
        for name, mk, lay in (
            ("getcfilters", lambda: cf.GetCFiltersMessage(stop_hash=stop), lambda o: R.getcfilters_msg(o.filter_type, o.start_height, bytes(o.stop_hash))),
            ("getcfheaders", lambda: cf.GetCFHeadersMessage(stop_hash=stop), lambda o: R.getcfheaders_msg(o.filter_type, o.start_height, bytes(o.stop_hash))),
            ("getcfcheckpt", lambda: cf.GetCFCheckPointMessage(stop_hash=stop), lambda o: R.getcfcheckpt_msg(o.filter_type, bytes(o.stop_hash))),
            ("getheaders", lambda: net.GetHeadersMessage(start_block=stop), lambda o: R.getheaders_msg(o.version, o.num_hashes, [bytes(o.start_block)], bytes(o.end_block))),
        ):
            o = attempt(mk)
            got = attempt(o.serialize) if not rej(o) else o
            want = attempt(lay, o) if not rej(o) else None
            if rej(got) or rej(want) or got != want or bytes(o.stop_hash if name != "getheaders" else o.start_block) != stop:
                res.violation(f"C19/api/defaults/{name}", vc, show(got), show(want), "message built with default arguments does not serialise to the layout of its own field values")
            else:
                res.ok("default-argument message == layout of its field values", nontrivial=("api-def", name))
        return res
    raise ValueError(m)


# ====================================================================== messages: field values outside the field
def field_values(w, negatives=True):
    top = 1 << (8 * w)
    v = [top - 1, top, top + 1, top + 255, top << 8, top << 32]
    if negatives:
        v += [-1, -2, -(top >> 1), -(top >> 1) - 1, -top, -top - 1]
    return v


def field_encoding(v, w):
    """the w field bytes (little endian) that mean v read as unsigned or as two's complement, or None when no such bytes exist"""
    top = 1 << (8 * w)
    if -(top >> 1) <= v < top:
        return R.le(v % top, w)
    return None


def gen_fieldrange(tier, seed):
    return [{"m": m, "seed": seed} for m in ("version", "getheaders", "getdata", "getcf", "header", "relay", "byte-widths")]


def probe_int_field(res, vc, name, w, build, base_bytes, lo, negatives=True):
    """build(v) -> serialised message with the field set to v (or Rejected).  Accepted => whole message == base layout with the
    field bytes replaced by an encoding that decodes (unsigned or two's complement) to v."""
    for v in field_values(w, negatives):
        got = build(v)
        fb = field_encoding(v, w)
        if rej(got):
            res.ok("out-of-field value rejected" if fb is None else "value at the edge of the field rejected", nontrivial=(name, v))
            continue
        want = None if fb is None else base_bytes[:lo] + fb + base_bytes[lo + w :]
        if want is not None and got == want:
            res.ok("edge value encoded, decodes back to the same value", nontrivial=(name, v))
            continue
        res.violation(f"C19/fieldrange/{name}", vc, {"value": str(v), "got": show(got, 100)}, "rejected" if want is None else "rejected or " + show(want, 100), "a value that the field cannot hold is serialised into bytes that decode to another value")


def run_fieldrange(case):
    import buidl.network as net
    import buidl.compactfilter as cf
    from buidl.block import Block

    res = Res()
    seed = case.get("seed", 0)
    vc = {"engine": "messages", "case": case}
    m = case["m"]
    stop = filler(seed, "stop", 5, 32)
    if m in ("version", "relay", "byte-widths"):
        base = ver_concrete({"f": ver_base(), "seed": seed})
        ref = R.version_msg(base)
        seg = {n: (lo, hi) for n, lo, hi in ver_segments(base)}
        build = lambda **over: ver_build(net, dict(base, **over))
        if ver_build(net, base) != ref:
            res.skip("base version message already differs from the layout (reported by the version cases)")
            return res
    if m == "version":
        for fld, w in (("version", 4), ("services", 8), ("timestamp", 8), ("recv_services", 8), ("send_services", 8), ("start_height", 4)):
            probe_int_field(res, vc, f"version.{fld}", w, lambda v, fld=fld: build(**{fld: v}), ref, seg[fld][0])
        for fld in ("recv_port", "send_port"):  # byte order of ports is a separate (known) matter: only values no 2-byte field can hold
            for v in (1 << 16, (1 << 16) + 1, 1 << 24, -(1 << 15) - 1, -(1 << 16)):
                got = build(**{fld: v})
                if rej(got):
                    res.ok("out-of-field value rejected", nontrivial=(fld, v))
                else:
                    res.violation(f"C19/fieldrange/version.{fld}", vc, {"value": v, "got": show(got, 100)}, "rejected", "a port that does not fit two bytes is serialised")
        return res
    if m == "relay":
        for i, v in enumerate((2, -1, 0, None, "", "0", b"", b"\x00", [], [0], 0.0, 0.5)):
            got = build(relay=v)
            want = ref[:-1] + (b"\x01" if v else b"\x00")
            if rej(got) or got == want:
                res.ok("relay given as a non-bool: " + ("rejected" if rej(got) else "byte follows truthiness"), nontrivial=("relay", i))
            else:
                res.violation("C19/fieldrange/version.relay", vc, {"value": repr(v), "got": show(got, 120)}, show(want, 120), "relay flag is neither rejected nor written as 00/01 according to its truth value")
        return res
    if m == "getheaders":
        start = filler(seed, "start", 1, 32)
        ref = R.getheaders_msg(70015, 1, [start], stop)
        mk = lambda **kw: attempt(lambda: net.GetHeadersMessage(**dict({"start_block": start, "end_block": stop}, **kw)).serialize())
        if mk() != ref:
            res.skip("base getheaders already differs from the layout")
            return res
        probe_int_field(res, vc, "getheaders.version", 4, lambda v: mk(version=v), ref, 0)
        for v in (-1, -253, 1 << 64, (1 << 64) + 1, 1 << 72):
            got = mk(num_hashes=v)
            if rej(got):
                res.ok("out-of-field value rejected", nontrivial=("gh-count", v))
            else:
                res.violation("C19/fieldrange/getheaders.count", vc, {"value": str(v), "got": show(got, 100)}, "rejected", "a hash count without a CompactSize encoding is serialised")
        return res
    if m == "getdata":
        ref = R.inv_msg([(1, stop)])

        def mk(v):
            g = net.GetDataMessage()
            return attempt(lambda: (g.add_data(v, stop), g.serialize())[1])

        if mk(1) != ref:
            res.skip("base getdata already differs from the layout")
            return res
        probe_int_field(res, vc, "getdata.type", 4, mk, ref, 1)
        return res
    if m == "getcf":
        for name, cls, ref in (("getcfilters", cf.GetCFiltersMessage, R.getcfilters_msg(0, 7, stop)), ("getcfheaders", cf.GetCFHeadersMessage, R.getcfheaders_msg(0, 7, stop))):
            mk = lambda cls=cls, **kw: attempt(lambda: cls(**dict({"filter_type": 0, "start_height": 7, "stop_hash": stop}, **kw)).serialize())
            if mk() != ref:
                res.skip("base message already differs from the layout")
                continue
            probe_int_field(res, vc, f"{name}.filter_type", 1, lambda v, mk=mk: mk(filter_type=v), ref, 0)
            probe_int_field(res, vc, f"{name}.start_height", 4, lambda v, mk=mk: mk(start_height=v), ref, 1)
        ref = R.getcfcheckpt_msg(0, stop)
        mk = lambda **kw: attempt(lambda: cf.GetCFCheckPointMessage(**dict({"filter_type": 0, "stop_hash": stop}, **kw)).serialize())
        if mk() == ref:
            probe_int_field(res, vc, "getcfcheckpt.filter_type", 1, lambda v: mk(filter_type=v), ref, 0)
        return res
    if m == "header":
        h = mk_header(seed, 7)
        ref = R.header(h)
        mk = lambda **kw: attempt(lambda: (lambda d: Block(d["version"], d["prev"], d["merkle"], d["time"], d["bits"], d["nonce"]).serialize())(dict(h, **kw)))
        if mk() != ref:
            res.skip("base header already differs from the layout")
            return res
        probe_int_field(res, vc, "header.version", 4, lambda v: mk(version=v), ref, 0)
        probe_int_field(res, vc, "header.time", 4, lambda v: mk(time=v), ref, 68)
        return res
    if m == "byte-widths":
        # byte-string fields given with a wrong width: outside the statement's value space, nothing asserted; the behaviour is counted
        def note(name, width, got, want_len):
            how = "rejected" if rej(got) else "accepted, message has the layout length" if len(got) == want_len else "accepted, message length off"
            res.ok(f"wrong-width {name} (not asserted): {how}")

        for fld, w, alts in (("recv_ip", 4, (0, 3, 5, 16)), ("send_ip", 4, (0, 3, 5, 16)), ("nonce", 8, (0, 7, 9, 16))):
            for a in alts:
                note(f"version.{fld}", w, build(**{fld: pattern(seed, "w", a)}), len(ref))
        start = filler(seed, "start", 1, 32)
        for a in (0, 31, 33, 64):
            x = pattern(seed, "w", a)
            note("getheaders.start_block", 32, attempt(lambda: net.GetHeadersMessage(start_block=x).serialize()), 69)
            note("getheaders.end_block", 32, attempt(lambda: net.GetHeadersMessage(start_block=start, end_block=x).serialize()), 69)
            g = net.GetDataMessage()
            note("getdata.identifier", 32, attempt(lambda: (g.add_data(1, x), g.serialize())[1]), 37)
            note("getcfilters.stop_hash", 32, attempt(lambda: cf.GetCFiltersMessage(stop_hash=x).serialize()), 37)
            note("getcfheaders.stop_hash", 32, attempt(lambda: cf.GetCFHeadersMessage(stop_hash=x).serialize()), 37)
            note("getcfcheckpt.stop_hash", 32, attempt(lambda: cf.GetCFCheckPointMessage(stop_hash=x).serialize()), 33)
            h = mk_header(seed, 8)
            note("header.prev_block", 32, attempt(lambda: Block(h["version"], x, h["merkle"], h["time"], h["bits"], h["nonce"]).serialize()), 80)
            note("header.merkle_root", 32, attempt(lambda: Block(h["version"], h["prev"], x, h["time"], h["bits"], h["nonce"]).serialize()), 80)
        for a in (0, 3, 5):
            x = pattern(seed, "w", a)
            h = mk_header(seed, 8)
            note("header.bits", 4, attempt(lambda: Block(h["version"], h["prev"], h["merkle"], h["time"], x, h["nonce"]).serialize()), 80)
            note("header.nonce", 4, attempt(lambda: Block(h["version"], h["prev"], h["merkle"], h["time"], h["bits"], x).serialize()), 80)
        for a in list(range(0, 8)) + [9, 16]:
            x = pattern(seed, "w", a)
            note("ping.nonce", 8, attempt(lambda: net.PingMessage(x).serialize()), 8)
            note("pong.nonce", 8, attempt(lambda: net.PongMessage(x).serialize()), 8)
        return res
    raise ValueError(m)


# ====================================================================== messages: headers entries in the interior, truncated payloads
TXC_BAD = [1, 0xFC, 0xFD, 0xFFFF, 0x10000, 1 << 32]
ZERO_WIDE = [b"\xfd\x00\x00", b"\xfe\x00\x00\x00\x00", b"\xff" + b"\x00" * 8]


def gen_hdrtx(tier, seed):
    cases = [{"n": n, "pos": "all", "seed": seed} for n in range(1, 6)]
    for n in (252, 253, 2000):
        cases.append({"n": n, "pos": "sampled", "seed": seed, "heavy": n == 2000})
    return cases


def run_hdrtx(case):
    import buidl.network as net

    res = Res()
    seed, n = case.get("seed", 0), case["n"]
    vc = {"engine": "messages", "case": case}
    hdrs = [mk_header(seed, i) for i in range(n)]
    raws = [R.header(h) for h in hdrs]
    positions = list(range(n)) if case["pos"] == "all" else sorted({1, n // 2, n - 2})

    def build(pos, tcbytes):
        return R.compact(n) + b"".join(r + (tcbytes if i == pos else b"\x00") for i, r in enumerate(raws))

    def accepted(raw):
        msg, _ = parse_like_wait_for(net.HeadersMessage, raw)
        return not rej(msg)

    assert build(0, b"\x00") == R.headers_msg(hdrs)
    if not accepted(build(0, b"\x00")):
        res.skip("well-formed headers message already rejected (reported by the headers cases)")
        return res
    for pos in positions:
        for tc in TXC_BAD:
            if not accepted(build(pos, R.compact(tc))):
                res.ok("headers: non-zero transaction count rejected at every position", nontrivial=("hdrtx", n, pos, tc))
                continue
            # root cause: is the simplest such message (one header, count 1) accepted too?
            one = R.compact(1) + raws[0] + R.compact(1)
            if accepted(one):
                fp = "C19/headers/nonzero-txcount-accepted"
            elif accepted(R.compact(1) + raws[0] + R.compact(tc)):
                fp = f"C19/headers/nonzero-txcount-accepted/count-value-{vclass(tc)}"
            else:
                fp = "C19/headers/nonzero-txcount-accepted/" + ("first-entry" if pos == 0 else "last-entry" if pos == n - 1 else "interior-entry")
            res.violation(fp, vc, f"accepted with tx count {tc} at header {pos} of {n}", "rejected", "headers entry with a non-zero transaction count accepted")
        for z in ZERO_WIDE:
            res.ok("headers: transaction count 0 in a wide (non-minimal) encoding (not asserted): " + ("accepted" if accepted(build(pos, z)) else "rejected"))
    return res


def gen_trunc(tier, seed):
    return [{"m": m, "seed": seed} for m in ("header", "headers", "cfheaders", "cfcheckpt", "cfilter", "pingpong")]


def run_trunc(case):
    """Message payloads cut short inside an intact envelope.  The statement demands rejection only for envelopes, so nothing is asserted;
    what the parsers do with every proper prefix is counted per message kind, so that a change of behaviour shows in the evidence."""
    import buidl.network as net
    import buidl.compactfilter as cf
    from buidl.block import Block

    res = Res()
    seed, m = case.get("seed", 0), case["m"]
    stop = filler(seed, "stop", 6, 32)
    hs = [H("t", seed, i) for i in range(2)]
    table = {
        "header": [("block header (80 bytes)", Block.parse_header, R.header(mk_header(seed, 9)))],
        "headers": [(f"headers ({k} entries)", net.HeadersMessage.parse, R.headers_msg([mk_header(seed, i) for i in range(k)])) for k in (1, 2)],
        "cfheaders": [(f"cfheaders ({k} hashes)", cf.CFHeadersMessage.parse, R.cfheaders_msg(0, stop, hs[0], hs[:k])) for k in (1, 2)],
        "cfcheckpt": [(f"cfcheckpt ({k} headers)", cf.CFCheckPointMessage.parse, R.cfcheckpt_msg(0, stop, hs[:k])) for k in (1, 2)],
        "cfilter": [("cfilter (9 filter bytes)", cf.CFilterMessage.parse, R.cfilter_msg(0, stop, bytes.fromhex("0385acb4f0fe889ef0")))],
        "pingpong": [("ping", net.PingMessage.parse, bytes(range(1, 9))), ("pong", net.PongMessage.parse, bytes(range(1, 9)))],
    }[m]
    for name, parse, raw in table:
        full = attempt(parse, io.BytesIO(raw))
        if rej(full):
            res.skip("well-formed message already rejected (reported by the parse cases)")
            continue
        for cut in range(1, len(raw) + 1):
            got = attempt(parse, io.BytesIO(raw[: len(raw) - cut]))
            res.ok(f"{name} cut short (not asserted): " + ("rejected" if rej(got) else "accepted"))
    return res


# ====================================================================== registry
def _merged(parts):
    """several sub-explorations behind one worker pool (pool start-up dominates on a busy machine)"""

    def gen(tier, seed):
        out = []
        for name, g, _ in parts:
            out += [dict(c, part=name) for c in g(tier, seed)]
        return out

    table = {name: r for name, _, r in parts}

    def run(case):
        c = {k: v for k, v in case.items() if k != "part"}
        res = table[case["part"]](c)
        for v in res.violations:  # replay descriptors must address the merged engine and keep the part tag
            v["case"] = {"engine": v["case"]["engine"], "case": jsonable(case)}
        return res

    return gen, run


RULES = {
    "ints": "int_to_little/big_endian and inverses for widths 1,2 (every value incl. 3 out-of-range each side) and 3,4,8,32 (every value within "
    "300 quick / 70000 thorough of 0, of each 2^(8k) and 2^(8k-1), and of 4 seed fillers); int_to_byte/byte_to_int -3..259; oracle = shift-built "
    "bytes (self-tested against struct). Non-trivial = each distinct (function, width, value)",
    "varint": "encode_varint/read_varint for every n in [-3, 0x10400) quick / [-3, 2^21) thorough and within 2048 / 300000 of 2^16, 2^24, 2^31, 2^32-1, "
    "2^32, 2^40, 2^48, 2^56, 2^63, 2^64-1 (incl. 2^64..) and 5 fillers: bytes == CompactSize layout, read back == n, exactly the encoding consumed; "
    "wide (non-minimal) encodings of all boundary values: rejected or layout value; var strings of every length 0..600, 65530..65540, 10^5 quick / "
    "0..66000, 10^5, 2^20, 5*10^6 thorough. Non-trivial = each distinct value / length",
    "envelope": "4 networks x commands of every length 0..12 (prefixes of a 12-byte name and of a seed-chosen one) + 21 real command names x payload lengths "
    "{0,1,2,252,253,254,65535,65536,65537,100000} (thorough: + every length 0..2048 and every 1000 up to 100000, 2^20 for 4 commands): serialize == "
    "reference bytes; parse (BytesIO, default network, socket-like chunked stream, two envelopes + EOF) == fields, reserialize, stream position; "
    "same bytes under the 3 other magics rejected. Non-trivial = each (network, command, length) and each foreign-network rejection",
    "corrupt": "4 networks x 6 small base envelopes (payload 0,1,2,8,33,101): every byte position x xor {1,0x80,0xff} quick / all 255 thorough; every "
    "truncation length with original and with recomputed checksum; every length-field value 0..len+3 and large ones (also lowered length with "
    "matching prefix checksum); 8 foreign/rotated magics; trailing bytes; plus a 65536-byte payload (quick: header + 32 stated payload positions, "
    "thorough: every position x 3). Verdict from the strict reference receiver: impl accepts => reference accepts and same command/payload/"
    "position; reference accepts => impl accepts. Non-trivial = every mutated byte string",
    "header": "full product version{7} x time{6} x prev{4} x merkle{4} x bits{4} x nonce{4} = 10752 headers: Block.serialize == 80-byte layout, hash/id, "
    "parse_header(stream) and (hex=) == fields, reserialize. Non-trivial = each distinct header",
    "version": "VersionMessage: base + every 1- and 2-field deviation over the field alphabets (ints at width boundaries, 13 port values, user agents of "
    "length 0,1,15,252..256,65535,65536; thorough: + every 3-field deviation over reduced alphabets), default ports, default timestamp/nonce "
    "with time.time and randint replaced by enumerated values; oracle = protocol layout (ports big-endian), self-tested on a captured mainnet "
    "version message. Non-trivial = deviates from the base",
    "msgser": "getdata: every sequence of 1..4 (thorough 5) entries over {2 types} x {2 hashes} (repeated identifiers); getheaders version{6} x count{11 CompactSize boundaries} x start{4} x stop{None+4}; getdata counts {0,1,2,3,252,253,254,2000,65535,65536} (thorough + 50000, 200000) "
    "x type rotations over 8 inventory types; getcfilters/getcfheaders type{5+default} x height{11} x stop{4}; getcfcheckpt; verack/ping/pong/"
    "generic; command names of all 13 classes. Non-trivial = each distinct field tuple",
    "msgparse": "cls.parse(stream) exactly as SimpleNode.wait_for calls it, on reference-built payloads: headers counts {0,1,2,3,252,253,254,2000} (+ non-zero "
    "tx count at first/last entry must be refused); cfilter with valid BIP158 filters of every length 1..300, 1000, 4096 (thorough: ..1199, 16384, "
    "65535..65538) x type{5} x hash{2}; cfheaders/cfcheckpt counts x type{3} x stop{3} (thorough + 65535, 65536) incl. last filter header chain; "
    "ping/pong 6 nonces; verack. Non-trivial = each distinct payload",
    "widths": "int_to_little/big_endian and inverses for widths 0,5,6,7,16,20,33,64 (0, 1, 255, every 2^(8k) and its two neighbours, half range, 4 seed fillers, "
    "-1, -2, -2^(8w), 2^(8w)..) and for widths 3,4,8,32 about 4096 (thorough 65536) values spread with an odd step over the whole range; CompactSize "
    "encode/read for 4099 (65536) values spread over each of [0x10400,2^24), [2^24,2^32), [2^32,2^48), [2^48,2^64); every 2-byte wide form fd xx xx (all "
    "65536) and 4096 (65536) values of the fe and ff forms: rejected if non-minimal, else the layout value and exact position; var strings of lengths "
    "601..65529 step 4099; bytearray/memoryview/bool inputs: rejected or the result for the equivalent bytes/int. Non-trivial = each distinct value",
    "cmdbytes": "4 networks x command lengths {1,2,11,12} x position {first, middle, last} x every byte value 0x01..0xff at that position (rest: seed-chosen "
    "a-z) x payload length {0,3}: serialize == reference bytes; parse (BytesIO and a stream delivering 5 bytes at a time) returns exactly the command bytes "
    "on the wire, payload, magic, position; reserialize. Byte 0x00 (leading/embedded/trailing NUL) is outside the statement: counted with the observed "
    "behaviour, never asserted. Non-trivial = each (network, command, payload length)",
    "cmdsum": "4 networks x 22 command names (the 21 real names of the envelope engine and those of the 13 message classes) x payload length {0, 1, 100000} (thorough + 2^20): the intact envelope and "
    "one fault each - each checksum byte xor 0x10, first/middle/last payload byte xor 1, last payload byte missing (original and recomputed checksum), "
    "length +1 (both checksums) and -1 - decided by the strict reference receiver; a failure is re-tried on ping/8 bytes and the fingerprint names "
    "the command or payload size it depends on; per network every single-bit flip, nibble swap and complement of each magic byte of 2 envelopes. "
    "Non-trivial = every mutated byte string",
    "reuse": "per network 4 envelopes (payload 0,8,253,65536): serialize x3, stream x2, fields, parse twice, parsed object serialize x2 / stream x2 - all equal "
    "to the reference; 14 message/header objects (built and parsed): four serialize() calls give the reference bytes; GetDataMessage: every "
    "history of 1..4 (thorough 6) operations over {add entry A, add entry B, serialize} + final serialize: each serialize == count|(type,hash)* of the "
    "entries so far; API variants: NetworkEnvelope without network, parse_header(hex=upper/lower, stream=), Block.parse(header|00), VersionMessage() with "
    "all defaults (clock/randint replaced), getcf*/getheaders with default arguments == layout of their own field values. Non-trivial = each object/history",
    "fieldrange": "each integer field of version (6 fields), getheaders.version, getdata.type, getcfilters/getcfheaders/getcfcheckpt filter_type and start_height, "
    "header version/time given 2^(8w)-1, 2^(8w), +1, +255, <<8, <<32, -1, -2, -2^(8w-1), -2^(8w-1)-1, -2^(8w), -2^(8w)-1: rejected, or the message "
    "equals the layout with field bytes that decode (unsigned or two's complement) to that value; ports and the getheaders count: values no "
    "field/CompactSize can hold must be rejected; relay given as 12 non-bool values: rejected or 00/01 by truth value. Byte fields of a wrong width "
    "(ip, nonce, hashes, bits): counted with the observed behaviour, not asserted. Non-trivial = each (field, value)",
    "hdrtx": "headers messages of 1..5 entries with a transaction count {1, 0xfc, 0xfd, 0xffff, 0x10000, 2^32} at every position, and of 252, 253, 2000 entries at "
    "positions {1, n/2, n-2}: must be refused (fingerprint names first/last/interior entry or the count value when the one-entry message is refused); "
    "count 0 in the three wide encodings: counted, not asserted. Non-trivial = each (entries, position, count)",
    "trunc": "every proper prefix of a block header, headers (1, 2 entries), cfheaders (1, 2), cfcheckpt (1, 2), cfilter, ping, pong payload handed to the "
    "parser: accepted/rejected counted per message kind, nothing asserted (the statement demands rejection of damaged envelopes only)",
    "node": "explicit histories through the real SimpleNode (fake socket): wait_for(X) for 7 wanted classes (+2 pairs) x every prefix of <= 2 (quick) / 3 "
    "(thorough) incoming events from a 12-event alphabet (incl. bad checksum, foreign magic) x 4 networks; handshake histories; send of 10 message "
    "kinds. Compared with a protocol model: bytes sent (verack per version, pong per ping), returned message fields, unread remainder. "
    "Event alphabet now 17: + a 70000-byte unknown message, a ping with a damaged payload and a version with a damaged checksum (must not be answered), a "
    "length field larger than the stream, a payload-less envelope whose length says 1 (each decided by the reference receiver on the actual "
    "stream); wait_for() without classes; every history of <= 1 event, send and a handshake repeated with logging=True; an envelope with a "
    "non-ASCII command (refused or ignored, nothing else). Mode socket: the real SimpleNode.__init__ with buidl.network.socket replaced by a stub "
    "whose socket() is one end of a real socketpair (recv limited to step bytes, connect recorded): 4 networks x step {1,7,1460,2^20} x "
    "{version+ping+large block+verack+pong then EOF, stream closed one byte early, handshake}, payload 2000/100000 (thorough 2^20): connect "
    "address (given port or the network's default P2P port), bytes sent, returned message, next envelope, EOF. "
    "states/transitions = incoming envelopes processed",
}


def _spread(gen, chunk):
    """put every case flagged heavy at the start of a chunk of its own so that they run concurrently"""

    def g(tier, seed):
        cases = gen(tier, seed)
        heavy = [c for c in cases if c.get("heavy")]
        light = [c for c in cases if not c.get("heavy")]
        out = []
        for h in heavy:
            out.append(h)
            out += light[: chunk - 1]
            light = light[chunk - 1 :]
        return out + light

    return g


def engines(tier, seed):
    g1, r1 = _merged([("ints", gen_ints, run_ints), ("varint", gen_varint, run_varint), ("widths", gen_widths, run_widths)])
    g3, r3 = _merged([("msgparse", gen_msgparse, run_msgparse), ("msgser", gen_msgser, run_msgser), ("header", gen_header, run_header), ("version", gen_version, run_version),
                      ("reuse", gen_reuse, run_reuse), ("fieldrange", gen_fieldrange, run_fieldrange), ("hdrtx", gen_hdrtx, run_hdrtx), ("trunc", gen_trunc, run_trunc)])  # fmt: skip
    g5, r5 = _merged([("cmdbytes", gen_cmdbytes, run_cmdbytes), ("cmdsum", gen_cmdsum, run_cmdsum)])
    q = tier == "quick"
    # quick: the light engines need < 1 s of CPU; a few big chunks keep the number of spawned workers (the dominant cost) small
    return [
        Engine("prims", g1, r1, kind="E1", chunk=20 if q else 1, rule="[ints] " + RULES["ints"] + " [varint] " + RULES["varint"] + " [widths] " + RULES["widths"]),
        Engine("envelope", gen_envelope, run_envelope, kind="E1", chunk=460 if q else None, rule=RULES["envelope"]),
        Engine("corrupt", gen_corrupt, run_corrupt, kind="E1", chunk=54 if q else None, rule=RULES["corrupt"]),
        Engine("messages", _spread(g3, 6), r3, kind="E1", chunk=6, rule=" ".join(f"[{k}] " + RULES[k] for k in ("header", "version", "msgser", "msgparse", "reuse", "fieldrange", "hdrtx", "trunc"))),
        Engine("frames", g5, r5, kind="E1", chunk=80 if q else None, rule=" ".join(f"[{k}] " + RULES[k] for k in ("cmdbytes", "cmdsum"))),
        Engine("node", gen_node, run_node, kind="E2", chunk=1200 if q else None, rule=RULES["node"]),
    ]
