"""C08 — BIP32: public/private consistency, hardened refusal, path composition, lossless xkeys, blinding.

E1 `tree`     secp256k1: seeds x networks x every parent path over the boundary index alphabet; for each
              parent every child index: HDPrivateKey.child == reference CKDpriv (key, chain code,
              fingerprint, parent fingerprint, depth, child number, xprv/xpub strings), child.pub ==
              parent.pub.child (non-hardened), parent.pub.child refused (hardened).
E1 `paths`    secp256k1: every path x every notation (m/M prefix x ' h H mixed markers):
              traverse(string) == fold of child() == reference; public traverse likewise / refused.
E1 `codec`    nodes (derived and synthetic boundary fields) x all 20 SLIP-132 prefixes: parse/serialise
              exact, constructor direction, raw_parse(network=...), stale-memo probe, children of parsed keys.
E1 `blind`    blind_xpub(start xpub, start path, secret path) == reference key at the combined path
              from the root, start depths 0..4 x secret paths of depth 1..4 x notations x prefixes.
E1 `badpaths` strings OUTSIDE the path grammar (signs, blanks, junk in the root component, numbers >= 2^31, doubled
              markers, empty components) given to both traverse methods: refused, or the key of the only decimal reading.
E1 `blindneg` blind_xpub with a starting path whose depth is not the xpub's depth (component removed / appended / "//").
E1 `entry`    other entry points that take a path: from_mnemonic(path=), get_private_key, generate_p2wsh_key_record.
E3 `toyN`     toy instantiation of pecc.py: every parent secret x chain codes x index alphabet.
E3 `toypathsN` toy instantiation: every path of depth <= 3 over the alphabet x every notation.
"""
import itertools
from io import BytesIO

from mc.core import Engine, Res, attempt, Rejected, filler, filler_int, current_toy
from mc.ref import bip32ref as R
from mc.ref import ec

PROP = "C08"
HARD = 1 << 31
BOUNDARY = [0, 1, HARD - 1, HARD, HARD + 1, 2**32 - 1]
IDX_NAMES = {0: "0", 1: "1", HARD - 1: "2^31-1", HARD: "2^31", HARD + 1: "2^31+1", 2**32 - 1: "2^32-1", HARD - 2: "2^31-2", 2**32 - 2: "2^32-2"}
NETWORKS = ["mainnet", "testnet", "signet", "regtest"]
QUICK_TOYS = [(43, 31), (211, 199)]
THOROUGH_TOYS = [(43, 31), (79, 67), (67, 79), (163, 139), (211, 199)]
STYLES = [(p, m) for p in ("m", "M") for m in ("'", "h", "H", "mix")]


def idx_name(i):
    return IDX_NAMES.get(i) or ("fillerH" if i >= HARD else "filler")


def path_class(path):
    return "/".join(idx_name(i) for i in path) or "root"


def fillers_idx(seed):
    return [filler_int(seed, "idx", 0, 2, HARD - 3), HARD + filler_int(seed, "idx", 1, 2, HARD - 3)]


def seeds_for(tier, seed):
    out = [("z16", b"\x00" * 16), ("f64", b"\xff" * 64)]
    lens = (16, 32, 64) if tier == "quick" else (16, 17, 31, 32, 33, 48, 63, 64)
    out += [(f"r{n}", filler(seed, "seed", n, n)) for n in lens]
    if tier == "thorough":
        out += [("z64", b"\x00" * 64), ("f16", b"\xff" * 16)]
    return out


def styles_of(path):
    """Distinct string renderings of a path: [(prefix, marker, string)]."""
    seen, out = set(), []
    for p, m in STYLES:
        s = R.format_path(path, p, m)
        if s not in seen:
            seen.add(s)
            nh = sum(1 for i in path if i >= HARD)
            out.append((p, m if nh else "-", s))
    return out


# ---------------------------------------------------------------- observation of buidl objects
def obs_pub(o):
    if isinstance(o, Rejected):
        return o

    def f():
        return {
            "c": bytes(o.chain_code),
            "depth": o.depth,
            "pfp": bytes(o.parent_fingerprint),
            "num": o.child_number,
            "fp": bytes(o.fingerprint()),
            "sec": bytes(o.point.sec()),
            "xpub": o.xpub(),
        }

    return attempt(f)


def obs_priv(o):
    if isinstance(o, Rejected):
        return o

    def f():
        d = obs_pub(o.pub)
        if isinstance(d, Rejected):
            raise ValueError("public half unobservable")
        d["k"] = o.private_key.secret
        d["xprv"] = o.xprv()
        # the HDPrivateKey's own view must agree with its .pub
        d["fp"] = bytes(o.fingerprint())
        d["xpub"] = o.xpub()
        d["c"], d["depth"], d["pfp"], d["num"] = bytes(o.chain_code), o.depth, bytes(o.parent_fingerprint), o.child_number
        d["pub.c"], d["pub.depth"], d["pub.pfp"], d["pub.num"] = bytes(o.pub.chain_code), o.pub.depth, bytes(o.pub.parent_fingerprint), o.pub.child_number
        return d

    return attempt(f)


def ref_pub(node, vpub):
    return {"c": node.c, "depth": node.depth, "pfp": node.pfp, "num": node.num, "fp": node.fingerprint(), "sec": node.sec(), "xpub": node.ser(vpub, False)}


def ref_priv(node, vprv, vpub):
    d = ref_pub(node, vpub)
    d["k"] = node.k
    d["xprv"] = node.ser(vprv, True)
    d["pub.c"], d["pub.depth"], d["pub.pfp"], d["pub.num"] = node.c, node.depth, node.pfp, node.num
    return d


def diff(a, b):
    """first differing field name, None when equal; 'rejected' when a is not an observation."""
    if isinstance(a, Rejected):
        return "rejected"
    for k in sorted(b):
        if a.get(k) != b[k]:
            return k
    for k in a:
        if k not in b:
            return k
    return None


def check(res, fp, vc, got, want, what, okname, nontrivial=None, sample=None):
    d = diff(got, want)
    if d is None:
        res.ok(okname, nontrivial, sample)
        return True
    res.violation(f"{fp}/{d}", vc, got if isinstance(got, Rejected) else {d: got.get(d)}, {d: want.get(d)}, what + f" (first differing field: {d})")
    return False


def check_net(res, fp, vc, obj, net, okname):
    """The network label of a derived / traversed key (and of its public half) is the one of the key it came from:
    test, signet and regtest share their version bytes, so the strings cannot show a lost network."""
    if isinstance(obj, Rejected) or obj is None:
        return

    def f():
        d = {"net": obj.network}
        if hasattr(obj, "pub"):
            d["pub.net"] = obj.pub.network
        return d

    got = attempt(f)
    want = {"net": net}
    if isinstance(got, dict) and "pub.net" in got:
        want["pub.net"] = net
    if got == want:
        res.ok(okname)
    else:
        res.violation(fp, vc, got, want, "a derived key does not carry the network of the key it was derived from")


def lenient_read(s):
    """The ONLY reading a path-like string can have when every component is read as the decimal integer it denotes
    (Python's int() is the reader: blanks, a sign, '_' and non-ASCII decimal digits are lexical noise).  Returns the list
    of 32-bit indexes or None when the string has no reading: root component not m/M, a component that is not an integer
    with at most one trailing marker, a negative number, a marked number >= 2^31, an unmarked number >= 2^32.
    An unmarked number in [2^31, 2^32) reads as that (hardened) index.  Superset of R.parse_path."""
    parts = s.split("/")
    if parts[0].strip() not in ("m", "M"):
        return None
    out = []
    for comp in parts[1:]:
        body = comp.strip()
        hard = body[-1:] in R.MARKERS
        if hard:
            body = body[:-1]
        try:
            v = int(body, 10)
        except ValueError:
            return None
        if v < 0 or (hard and v >= HARD) or v >= 2**32:
            return None
        out.append(v + HARD if hard else v)
    return out


# ---------------------------------------------------------------- E1 tree
def gen_tree(tier, seed):
    seeds = seeds_for(tier, seed)
    alpha = BOUNDARY + (fillers_idx(seed) if tier == "thorough" else [])
    children = BOUNDARY + fillers_idx(seed)
    cases = []

    def add(sn, sb, net, parent):
        cases.append({"sn": sn, "seed": sb.hex(), "net": net, "parent": list(parent), "children": children})

    for sn, sb in seeds:
        for net in NETWORKS:
            add(sn, sb, net, [])
        for a in alpha:
            add(sn, sb, "mainnet", [a])
    deep2 = ("z16", "r32") if tier == "quick" else ("z16", "r32", "r17", "r33", "r63", "z64")
    for sn, sb in [s for s in seeds if s[0] in deep2]:
        for pth in itertools.product(alpha, repeat=2):
            add(sn, sb, "mainnet" if sn != "r32" else "testnet", pth)
    if tier == "thorough":
        for sn, sb in [s for s in seeds if s[0] in ("f64", "r16")]:
            for pth in itertools.product(BOUNDARY, repeat=3):
                add(sn, sb, "mainnet", pth)
    # SLIP-132 version bytes must survive every derivation step: the 10 (private, public) version pairs,
    # from the master and below one hardened step
    sn, sb = seeds[0]
    for letter, cls, _pub, _prv in R.SLIP132:
        net = "mainnet" if cls == "main" else "testnet"
        for parent in ([], [HARD + 48]):
            cases.append({"sn": sn, "seed": sb.hex(), "net": net, "parent": parent, "children": BOUNDARY, "slip132": letter})
    # only ONE of priv_version / pub_version given: that side keeps the given bytes through every step, the other side
    # has the network's default
    for letter, cls, _pub, _prv in R.SLIP132:
        net = "mainnet" if cls == "main" else "testnet"
        for side in ("priv", "pub"):
            for parent in ([], [HARD + 48]):
                cases.append({"sn": sn, "seed": sb.hex(), "net": net, "parent": parent, "children": [0, HARD - 1, HARD], "slip132": letter, "side": side})
    # every seed length of the statement (16..64 bytes) at the root
    for n in range(16, 65):
        cases.append({"sn": f"len{n}", "seed": filler(seed, "seedlen", n, n).hex(), "net": "mainnet", "parent": [], "children": [0, HARD]})
    return cases


def run_tree(case):
    from buidl.hd import HDPrivateKey

    res = Res()
    seed, net, parent = bytes.fromhex(case["seed"]), case["net"], case["parent"]
    vc = {"engine": "tree", "case": case}
    vprv, vpub = R.default_versions(net)
    kw = {}
    fam = "tree"
    if case.get("slip132"):
        sprv, spub = R.version_bytes(case["slip132"] + "prv"), R.version_bytes(case["slip132"] + "pub")
        if case.get("side") == "priv":
            vprv, kw, fam = sprv, {"priv_version": sprv}, "tree/one-sided-version"
        elif case.get("side") == "pub":
            vpub, kw, fam = spub, {"pub_version": spub}, "tree/one-sided-version"
        else:
            vprv, vpub = sprv, spub
            kw = {"priv_version": vprv, "pub_version": vpub}
    rroot = R.master(seed)
    rpar = R.derive_priv(rroot, parent) if rroot else None
    if rpar is None:
        res.skip("reference: invalid key on the way (probability 2^-127)")
        return res
    root = attempt(HDPrivateKey.from_seed, seed, network=net, **kw)
    if not parent:
        if not check(res, f"C08/{fam}/master/len{len(seed)}-{net}", vc, obs_priv(root), ref_priv(rroot, vprv, vpub), "from_seed differs from BIP32 master key generation", "master==ref", ("master", case["sn"], net)):
            return res
    par, rn = root, rroot
    if isinstance(root, Rejected):
        res.violation(f"C08/{fam}/master/len{len(seed)}-{net}/rejected", vc, repr(root), "master key", "from_seed refuses the seed")
        return res
    for i in parent:  # the fingerprint names the first step that goes wrong, not the whole path
        par, rn = attempt(par.child, i), R.ckd_priv(rn, i)
        if not check(res, f"C08/{fam}/priv-child/{idx_name(i)}", vc, obs_priv(par), ref_priv(rn, vprv, vpub), f"HDPrivateKey.child({idx_name(i)}) differs from reference CKDpriv (on the way to the parent)", "parent-step==ref"):
            return res
    for i in case["children"]:
        key = (case["sn"], net, tuple(parent), i)
        nm = idx_name(i)
        rc = R.ckd_priv(rpar, i)
        if rc is None:
            res.skip("reference: invalid child")
            continue
        ch = attempt(par.child, i)
        och = obs_priv(ch)
        okc = check(res, f"C08/{fam}/priv-child/{nm}", vc, och, ref_priv(rc, vprv, vpub), f"HDPrivateKey.child({nm}) differs from reference CKDpriv", "priv-child==ref", key, sample={"seed": case["sn"], "parent": parent, "index": i, "xprv": rc.ser(vprv, True)[:20] + "..."} if i == HARD - 1 else None)
        if okc:
            check_net(res, "C08/tree/network-lost/priv-child", vc, ch, net, "priv-child keeps network")
        pc = attempt(par.pub.child, i)
        check_net(res, "C08/tree/network-lost/pub-child", vc, pc, net, "pub-child keeps network")
        if i >= HARD:
            if isinstance(pc, Rejected) or pc is None:
                res.ok("hardened-from-public-refused", ("hard",) + key)
            else:
                res.violation(f"C08/{fam}/pub-hardened-accepted/{nm}", vc, str(obs_pub(pc))[:300], "refusal", f"HDPublicKey.child({nm}) returned a key for a hardened index")
            continue
        opc = obs_pub(pc)
        rp = R.ckd_pub(rpar.neuter(), i)
        assert rp.same(rc.neuter())
        check(res, f"C08/{fam}/pub-child/{nm}", vc, opc, ref_pub(rp, vpub), f"HDPublicKey.child({nm}) differs from reference CKDpub", "pub-child==ref", ("pub",) + key)
        if okc:
            # the statement itself, impl against impl: private child then .pub == public child
            check(res, f"C08/{fam}/priv-pub-mismatch/{nm}", vc, opc, obs_pub(ch.pub), "public derivation differs from the public half of the private derivation", "pub-child==priv-child.pub")
    return res


# ---------------------------------------------------------------- E1 paths
DEEP8 = [
    [HARD + 48, HARD, HARD, HARD + 2, 0, 1, HARD - 1, 2**32 - 1],
    [0, 1, 2, 3, 4, 5, 6, HARD - 1],
    [2**32 - 1, HARD, HARD + 1, 2**32 - 1, HARD, HARD + 1, 2**32 - 1, HARD],
    [HARD - 1, 0, HARD - 1, 0, HARD - 1, 0, HARD - 1, 1],
]


def gen_paths(tier, seed):
    seeds = dict(seeds_for(tier, seed))
    cases = []

    def add(sn, net, path, styles=None):
        cases.append({"sn": sn, "seed": seeds[sn].hex(), "net": net, "path": list(path), "styles": styles})

    if tier == "quick":
        for sn, net, depths in (("r16", "mainnet", (1, 2)), ("f64", "testnet", (1,))):
            add(sn, net, [])
            for d in depths:
                for pth in itertools.product(BOUNDARY, repeat=d):
                    add(sn, net, pth)
        for pth in itertools.product([0, HARD - 1, HARD, 2**32 - 1], repeat=3):
            add("r32", "mainnet", pth, [["m", "'"], ["M", "H"]])
        for pth in DEEP8:
            add("r64", "mainnet", pth, [["m", "h"], ["M", "mix"], ["M", "'"]])
    else:
        for sn, net, depths in (("r16", "mainnet", (1, 2, 3)), ("f64", "testnet", (1, 2, 3)), ("r33", "regtest", (1, 2))):
            add(sn, net, [])
            for d in depths:
                for pth in itertools.product(BOUNDARY, repeat=d):
                    add(sn, net, pth)
        fi = fillers_idx(seed)
        deep = DEEP8 + [[fi[1], fi[0]] * 4, [fi[0]] * 7 + [fi[1]]]
        for sn, net in (("r64", "mainnet"), ("z16", "signet"), ("r48", "testnet")):
            for pth in deep:
                add(sn, net, pth)
            for d in range(4, 8):
                add(sn, net, DEEP8[0][:d])
                add(sn, net, DEEP8[2][:d])
    # traverse from a key that is NOT the root: the key at STARTS[i] (built with child()) traverses a relative path
    for si, start in enumerate(STARTS[1:], 1):
        sn, net = ("r16", "signet") if si % 2 else ("r32", "mainnet")
        rel = [[]] + [[i] for i in BOUNDARY] + [[HARD - 1, HARD + 1], [HARD + 1, 0, 2**32 - 1], [0, 1, HARD - 1]]
        if tier == "thorough":
            rel = [[]] + [list(p) for d in (1, 2) for p in itertools.product(BOUNDARY, repeat=d)] + [DEEP8[0][: 8 - len(start)], DEEP8[3][: 8 - len(start)]]
        for pth in rel:
            cases.append({"sn": sn, "seed": seeds[sn].hex(), "net": net, "path": list(pth), "styles": None if tier == "thorough" else [["m", "'"], ["M", "mix"]], "start": list(start)})
    return cases


def run_paths(case, toy=None):
    """Shared by the secp256k1 engine (root from seed) and the toy engine (root given as k, c)."""
    from buidl.hd import HDPrivateKey, is_valid_bip32_path

    res = Res()
    path = case["path"]
    net = case["net"]
    ename = case.get("engine", "paths")
    fpn = "paths"  # same check on both instances: one fingerprint family
    vc = {"engine": ename, "case": case}
    if toy:
        vc["toy"] = list(toy)
    vprv, vpub = R.default_versions(net)
    if toy:
        from buidl.ecc import PrivateKey

        cv = ec.toy_curve(*toy)
        rroot = R.make_private(cv, case["k"], bytes.fromhex(case["c"]))
        root = attempt(lambda: HDPrivateKey(PrivateKey(secret=case["k"]), bytes.fromhex(case["c"]), network=net))
    else:
        rroot = R.master(bytes.fromhex(case["seed"]))
        root = attempt(HDPrivateKey.from_seed, bytes.fromhex(case["seed"]), network=net)
    if case.get("start"):  # the traversing key is the one at `start`, reached by child(); paths are relative to it
        fpn = "paths/from-non-root"
        rroot = R.derive_priv(rroot, case["start"]) if rroot else None
        for i in case["start"]:
            root = attempt(lambda: root.child(i))
    rnode = R.derive_priv(rroot, path) if rroot else None
    if rnode is None:
        res.skip("reference: a key on the path is invalid (zero key / IL >= n): outside the statement")
        return res
    if isinstance(root, Rejected):
        res.violation(f"C08/{fpn}/root-rejected", vc, repr(root), "root key", "cannot build the root key")
        return res
    want = ref_priv(rnode, vprv, vpub)
    wantpub = ref_pub(rnode, vpub)
    pcls = path_class(path)
    # fold of child(), one component at a time
    fold, rn = root, rroot
    ofold = obs_priv(root)
    if not check(res, f"C08/{fpn}/root", vc, ofold, ref_priv(rroot, vprv, vpub), "root key differs from the reference", "root==ref"):
        return res
    for i in path:  # the fingerprint names the first step that goes wrong, not the whole path
        fold, rn = attempt(fold.child, i), R.ckd_priv(rn, i)
        ofold = obs_priv(fold)
        if not check(res, f"C08/{fpn}/fold-step/{idx_name(i)}", vc, ofold, ref_priv(rn, vprv, vpub), "child() applied component by component differs from the reference", "fold-step==ref"):
            return res
    assert diff(ofold, want) is None
    hardened = any(i >= HARD for i in path)
    styles = styles_of(path)
    if case.get("styles"):
        allowed = {tuple(s) for s in case["styles"]}
        styles = [s for s in styles if (s[0], s[1]) in allowed or s[1] == "-"]
    for pfx, mk, s in styles:
        st = f"prefix={pfx},marker={mk}"
        stp = f"prefix={pfx}"  # public paths carry no marker
        assert R.parse_path(s) == path
        key = (ename, case.get("sn") or case.get("k"), case.get("c"), tuple(case.get("start") or ()), tuple(path), s)
        if attempt(is_valid_bip32_path, s) is True:
            res.ok("is_valid_bip32_path(grammar string)")
        else:
            res.violation(f"C08/{fpn}/is_valid_bip32_path-refuses/{st}", vc, {"path": s}, True, "is_valid_bip32_path refuses a well-formed path (so blind_xpub / combine_bip32_paths refuse it too)")
        t = attempt(root.traverse, s)
        ot = obs_priv(t)
        if isinstance(ot, Rejected):
            res.violation(f"C08/{fpn}/priv-traverse-rejected/{st}", vc, {"path": s, "result": repr(ot)}, "key at the path", "HDPrivateKey.traverse refuses a valid path string")
        else:
            d = diff(ot, ofold)
            if d is not None:
                res.violation(f"C08/{fpn}/priv-traverse!=fold/{st}/{d}", vc, {"path": s, d: ot.get(d)}, {d: ofold.get(d)}, "traverse(path) differs from deriving the components one by one")
            else:
                res.ok("priv-traverse==fold==ref", key if path else None, sample={"path": s, "xpub": want["xpub"][:16] + "..."} if len(path) == 2 and mk == "H" else None)
                check_net(res, f"C08/{fpn}/network-lost/priv-traverse", vc, t, net, "priv-traverse keeps network")
        # public side
        tp = attempt(root.pub.traverse, s)
        if hardened:
            if isinstance(tp, Rejected) or tp is None:
                res.ok("pub-traverse-hardened-refused", ("pubref",) + key)
            else:
                res.violation(f"C08/{fpn}/pub-traverse-hardened-accepted/{st}", vc, {"path": s, "result": str(obs_pub(tp))[:200]}, "refusal", "HDPublicKey.traverse returned a key for a path with a hardened component")
        else:
            otp = obs_pub(tp)
            if isinstance(otp, Rejected):
                res.violation(f"C08/{fpn}/pub-traverse-rejected/{stp}", vc, {"path": s, "result": repr(otp)}, "public key at the path", "HDPublicKey.traverse refuses a valid non-hardened path string (the private side accepts it)")
            else:
                d = diff(otp, wantpub)
                if d is not None:
                    res.violation(f"C08/{fpn}/pub-traverse-wrong/{stp}/{d}", vc, {"path": s, d: otp.get(d)}, {d: wantpub.get(d)}, "public traverse differs from the public half of the private traverse")
                else:
                    res.ok("pub-traverse==priv-traverse.pub==ref", ("pub",) + key if path else None)
                    check_net(res, f"C08/{fpn}/network-lost/pub-traverse", vc, tp, net, "pub-traverse keeps network")
    return res


# ---------------------------------------------------------------- E2 traverse sequences on "the same key" in several guises
def gen_travseq(tier, seed):
    seeds = dict(seeds_for(tier, seed))
    paths = [[0], [HARD, 1], [HARD + 48, HARD, 0, 5]] if tier == "quick" else [[0], [1, HARD - 1], [HARD, 1], [HARD + 48, HARD, 0, 5], [HARD + 84, HARD + 1, HARD, 1, 7]]
    cases = []
    for sn in ("r16", "f64") if tier == "quick" else ("r16", "f64", "r32"):
        for pth in paths:
            for rev in (False, True):
                cases.append({"sn": sn, "seed": seeds[sn].hex(), "path": pth, "reverse": rev})
    return cases


def run_travseq(case):
    """One seed, one path, in ONE process: the key is built for every network with default versions, then with every
    SLIP-132 version pair, then parsed from every private-version string; each guise traverses the same path and must give
    the reference key with ITS OWN version bytes and network (a memo keyed on too little would hand back an earlier object)."""
    from buidl.hd import HDPrivateKey

    res = Res()
    seed = bytes.fromhex(case["seed"])
    path = case["path"]
    s = R.format_path(path)
    rroot = R.master(seed)
    rnode = R.derive_priv(rroot, path) if rroot else None
    if rnode is None:
        res.skip("reference: invalid key on the path")
        return res
    guises = [("net", net, None) for net in NETWORKS]
    guises += [("slip132", "mainnet" if cls == "main" else "testnet", letter) for letter, cls, _a, _b in R.SLIP132]
    guises += [("parsed", "mainnet" if cls == "main" else "testnet", letter) for letter, cls, _a, _b in R.SLIP132]
    if case["reverse"]:
        guises = guises[::-1]
    for step, (kind, net, letter) in enumerate(guises):
        vc = {"engine": "travseq", "case": dict(case, upto=step + 1)}
        if case.get("upto") and step >= case["upto"]:
            break
        vprv, vpub = R.default_versions(net)
        if letter:
            vprv, vpub = R.version_bytes(letter + "prv"), R.version_bytes(letter + "pub")
        if kind == "parsed":
            root = attempt(HDPrivateKey.parse, rroot.ser(vprv, True))
        elif kind == "slip132":
            root = attempt(HDPrivateKey.from_seed, seed, network=net, priv_version=vprv, pub_version=vpub)
        else:
            root = attempt(HDPrivateKey.from_seed, seed, network=net)
        t = attempt(lambda: root.traverse(s))
        ot = obs_priv(t)
        res.transitions += 1
        if isinstance(ot, Rejected):
            res.violation(f"C08/travseq/{kind}/rejected", vc, repr(ot), "key at the path", f"traverse({s}) fails for guise {kind}/{net}/{letter}")
            return res
        want = {"k": rnode.k, "c": rnode.c, "xprv": rnode.ser(vprv, True)}
        got = {"k": ot["k"], "c": ot["c"], "xprv": ot["xprv"]}
        if kind != "parsed":  # a parsed private key does not carry a public version: xpub() is only asserted for built keys
            want["xpub"], got["xpub"] = rnode.ser(vpub, False), ot["xpub"]
        if kind == "net":
            want["network"], got["network"] = net, getattr(t, "network", None)
        if got != want:
            d = [k for k in want if got.get(k) != want[k]][0]
            res.violation(f"C08/travseq/{kind}/{d}", vc, {d: got.get(d)}, {d: want[d]}, f"after earlier traversals of the same path from other guises of the same key, traverse({s}) for guise {kind}/{net}/{letter} returns a key with the wrong {d}")
            return res
        res.ok("traverse in sequence == ref", nontrivial=(case["sn"], tuple(path), case["reverse"], step))
    res.states += 1
    return res


# ---------------------------------------------------------------- E1 codec
def synthetic_nodes(tier, seed):
    """[name, k, c(hex), depth, pfp(hex), num] with boundary values in every field."""
    n = ec.SECP.n
    ks = [("k1", 1), ("kn-1", n - 1), ("ksmall", filler_int(seed, "k", 0, 2**200, 2**201)), ("kr", filler_int(seed, "k", 1, 2**255, n - 1))]
    cs = [("c00", "00" * 32), ("cff", "ff" * 32), ("cr", filler(seed, "cc", 0).hex()), ("c0lead", "0000" + filler(seed, "cc", 1, 30).hex())]
    depths = [0, 1, 8, 255]
    pfps = ["00000000", "ffffffff", filler(seed, "pfp", 0, 4).hex()]
    nums = BOUNDARY
    base = ("kr", ks[3][1], cs[2][1], 3, pfps[2], 5)
    out = [["base"] + list(base[1:])]
    for nm, k in ks[:3]:
        out.append([nm, k] + list(base[2:]))
    for nm, c in cs[:2] + cs[3:]:
        out.append([nm, base[1], c] + list(base[3:]))
    for d in depths:
        out.append([f"depth{d}", base[1], base[2], d, base[4], base[5]])
    for p in pfps[:2]:
        out.append([f"pfp{p}", base[1], base[2], base[3], p, base[5]])
    for i in nums:
        out.append([f"num{idx_name(i)}", base[1], base[2], base[3], base[4], i])
    if tier == "thorough":
        # every pair of deviations
        devs = [("k", 1, v, nm) for nm, v in ks[:3]] + [("c", 2, v, nm) for nm, v in cs[:2] + cs[3:]] + [("d", 3, v, f"depth{v}") for v in depths] + [("p", 4, v, f"pfp{v}") for v in pfps[:2]] + [("n", 5, v, f"num{idx_name(v)}") for v in nums]
        for (f1, p1, v1, n1), (f2, p2, v2, n2) in itertools.combinations(devs, 2):
            if f1 == f2:
                continue
            row = list(base)
            row[p1], row[p2] = v1, v2
            out.append([f"{n1}+{n2}"] + row[1:])
    return out


def gen_codec(tier, seed):
    cases = [{"kind": "syn", "node": nd, "j": j} for j, nd in enumerate(synthetic_nodes(tier, seed))]
    seeds = dict(seeds_for(tier, seed))
    derived = [("r16", []), ("r32", [HARD]), ("f64", [HARD - 1, 2**32 - 1]), ("z16", [0, 1, HARD + 1])]
    if tier == "thorough":
        derived += [(sn, list(p)) for sn in ("r64", "r17") for d in (1, 2) for p in itertools.product(BOUNDARY, repeat=d)]
    for sn, path in derived:
        cases.append({"kind": "der", "sn": sn, "seed": seeds[sn].hex(), "path": path})
    return cases


def run_codec(case):
    from buidl.ecc import PrivateKey, S256Point
    from buidl.hd import HDPrivateKey, HDPublicKey

    res = Res()
    vc = {"engine": "codec", "case": case}
    cv = ec.SECP
    if case["kind"] == "syn":
        nm, k, c, depth, pfp, num = case["node"]
        k = int(k)
        node = R.make_private(cv, k, bytes.fromhex(c), depth, bytes.fromhex(pfp), num)
    else:
        nm = f"{case['sn']}:{path_class(case['path'])}"
        node = R.derive_priv(R.master(bytes.fromhex(case["seed"])), case["path"])
        if node is None:
            res.skip("reference: invalid key")
            return res
    table = R.versions()
    for vname, cls, is_priv, v in table:
        x = node.ser(v, is_priv)
        key = (nm, vname)
        mate = R.version_bytes(R.counterpart(vname))
        defprv, defpub = R.default_versions("mainnet" if cls == "main" else "testnet")
        if is_priv:
            o = attempt(HDPrivateKey.parse, x)
            if isinstance(o, Rejected):
                res.violation(f"C08/codec/parse-rejected/{vname}", vc, repr(o), x, "HDPrivateKey.parse refuses a well-formed extended private key")
                continue
            back = attempt(o.xprv)
            if back != x:
                res.violation(f"C08/codec/xprv-roundtrip/{vname}", vc, back, x, "parse(x).xprv() != x")
                continue
            res.ok("parse(x).xprv()==x", key, sample={"node": nm, "x": x[:24] + "..."} if vname == "Zprv" else None)
            # every field, and both explicit-version serialisers
            want = ref_priv(node, v, defpub)
            got = obs_priv(o)
            if not isinstance(got, Rejected):
                got["xpub"] = want["xpub"] = None  # version of the public half of a parsed private key: not part of the statement
            check(res, f"C08/codec/parsed-fields/{vname}", vc, got, want, "fields of the parsed private key differ", "parsed-fields==ref")
            g2 = attempt(o.xpub, version=mate)
            if g2 != node.ser(mate, False):
                res.violation(f"C08/codec/xpub(version)/{vname}", vc, g2, node.ser(mate, False), "xpub(version=...) of a parsed private key is not the reference serialisation")
            else:
                res.ok("xpub(version)==ref")
            # explicit private version: the other 9 private prefixes in turn (rotating with the prefix), then the own one again
            oprv = [t for t in table if t[2] and t[3] != v]
            oth = oprv[(table.index((vname, cls, is_priv, v)) // 2) % len(oprv)]
            g3 = attempt(o.xprv, version=oth[3])
            back3 = attempt(o.xprv)
            if g3 != node.ser(oth[3], True) or back3 != x:
                res.violation(f"C08/codec/xprv(version)/{vname}", vc, [g3, back3], [node.ser(oth[3], True), x], "xprv(version=...) is not the reference serialisation under that version, or changes what xprv() returns afterwards")
            else:
                res.ok("xprv(version)==ref", ("xprvv", nm, vname, oth[0]))
            netw = attempt(lambda: o.network)
            if (netw == "mainnet") != (cls == "main"):
                res.violation(f"C08/codec/network-class/{vname}", vc, netw, cls, "parsed key is attributed to the wrong network class")
            else:
                res.ok("network-class")
            if case["kind"] == "der":  # "for every ... extended key": derive from the parsed key (key material only, no strings)
                for i in (HARD - 1, HARD):
                    rc = R.ckd_priv(node, i)
                    oc = obs_priv(attempt(o.child, i))
                    w = ref_priv(rc, v, defpub)
                    for d_ in (oc if isinstance(oc, dict) else {}, w):
                        d_["xprv"] = d_["xpub"] = None
                    check(res, f"C08/codec/child-of-parsed/prv/{idx_name(i)}", vc, oc, w, "child of a parsed extended private key differs from the reference", "child-of-parsed==ref", ("cop", nm, vname, i))
        else:
            o = attempt(HDPublicKey.parse, x)
            if isinstance(o, Rejected):
                res.violation(f"C08/codec/parse-rejected/{vname}", vc, repr(o), x, "HDPublicKey.parse refuses a well-formed extended public key")
                continue
            back = attempt(o.xpub)
            if back != x:
                res.violation(f"C08/codec/xpub-roundtrip/{vname}", vc, back, x, "parse(x).xpub() != x")
                continue
            res.ok("parse(x).xpub()==x", key)
            check(res, f"C08/codec/parsed-fields/{vname}", vc, obs_pub(o), ref_pub(node, v), "fields of the parsed public key differ", "parsed-fields==ref")
            # memoised raw form: must be the network's default serialisation, before and after other calls
            r1 = attempt(o.raw_serialize)
            other = table[(table.index((vname, cls, is_priv, v)) + 2) % len(table)]
            g2 = attempt(o.xpub, version=other[3])
            r2 = attempt(o.raw_serialize)
            back2 = attempt(o.xpub)
            if g2 != node.ser(other[3], False) or back2 != x:
                res.violation(f"C08/codec/xpub-after-calls/{vname}", vc, [g2, back2], [node.ser(other[3], False), x], "xpub()/xpub(version) are not stable across calls (stale memo)")
            elif r1 != r2 or r1 != node.payload(defpub, False):
                res.violation(f"C08/codec/raw_serialize/{vname}", vc, [r1, r2], node.payload(defpub, False), "raw_serialize() is not the 78-byte default-version serialisation or changes between calls")
            else:
                res.ok("xpub/raw stable across calls")
            if case["kind"] == "der":
                rc = R.ckd_pub(node.neuter(), HARD - 1)
                oc = obs_pub(attempt(o.child, HARD - 1))
                w = ref_pub(rc, v)
                for d_ in (oc if isinstance(oc, dict) else {}, w):
                    d_["xpub"] = None
                check(res, "C08/codec/child-of-parsed/pub/2^31-1", vc, oc, w, "child of a parsed extended public key differs from the reference", "child-of-parsed==ref", ("cop", nm, vname))
                hc = attempt(o.child, HARD)
                if isinstance(hc, Rejected) or hc is None:
                    res.ok("hardened-from-parsed-public-refused", ("coph", nm, vname))
                else:
                    res.violation("C08/codec/pub-hardened-accepted", vc, str(obs_pub(hc))[:200], "refusal", "hardened child derived from a parsed extended public key")
            netw = attempt(lambda: o.network)
            if (netw == "mainnet") != (cls == "main"):
                res.violation(f"C08/codec/network-class/{vname}", vc, netw, cls, "parsed key is attributed to the wrong network class")
            else:
                res.ok("network-class")
    # raw_parse with an explicit network (test-class versions are shared by three networks)
    for net in NETWORKS:
        vprv, vpub = R.default_versions(net)
        for is_priv, klass, v in ((True, HDPrivateKey, vprv), (False, HDPublicKey, vpub)):
            raw = node.payload(v, is_priv)
            o = attempt(klass.raw_parse, BytesIO(raw), network=net)
            got = attempt(lambda: (o.network, o.xprv() if is_priv else o.xpub()))
            want = (net, node.ser(v, is_priv))
            if got != want:
                res.violation(f"C08/codec/raw_parse/{net}-{'prv' if is_priv else 'pub'}", vc, got, want, "raw_parse(stream, network) does not reproduce the key / network")
            else:
                res.ok("raw_parse(network)", ("raw", nm, net, is_priv))
    # raw_parse(stream, network) with the SLIP-132 versions: a test-class version keeps its bytes and takes the given
    # test-class network; a main-class version keeps its bytes and is mainnet whatever is passed.  (test-class bytes with
    # network="mainnet" is a contradiction in the input: not asserted.)
    full = case["kind"] == "der" or nm == "base"
    for ti, (vname, cls, is_priv, v) in enumerate(table):
        if vname in ("tpub", "tprv"):
            continue  # the test-class default versions x the three test-class networks: done above
        nets = NETWORKS if full else [NETWORKS[(case.get("j", 0) + ti) % 4]]
        for net in nets:
            if cls == "test" and net == "mainnet":
                continue
            klass = HDPrivateKey if is_priv else HDPublicKey
            o = attempt(klass.raw_parse, BytesIO(node.payload(v, is_priv)), network=net)
            got = attempt(lambda: (o.network, o.xprv() if is_priv else o.xpub()))
            want = ("mainnet" if cls == "main" else net, node.ser(v, is_priv))
            if got != want:
                res.violation(f"C08/codec/raw_parse-slip132/{cls}-class-{'prv' if is_priv else 'pub'}", vc, {"version": vname, "network": net, "got": got}, want, "raw_parse(stream, network) of a SLIP-132 versioned key does not keep the version bytes / network")
            else:
                res.ok("raw_parse(network) slip132", ("raw132", nm, vname, net))
    # constructor direction: default versions per network and explicit SLIP-132 pairs
    slip = [("mainnet" if cls == "main" else "testnet", letter + "prv", letter + "pub") for letter, cls, _, _ in R.SLIP132]
    if case["kind"] == "der" or nm == "base":
        combos = [(net, None, None) for net in NETWORKS] + slip
    else:  # deviation nodes: the default of one network class and one SLIP-132 pair, rotating with the node
        j = case.get("j", 0)
        combos = [(NETWORKS[j % 4], None, None), slip[j % 10]]
    for net, pn, qn in combos:
        dprv, dpub = R.default_versions(net)
        vprv = R.version_bytes(pn) if pn else dprv
        vpub = R.version_bytes(qn) if qn else dpub

        def build():
            return HDPrivateKey(
                PrivateKey(secret=node.k), node.c, depth=node.depth, parent_fingerprint=node.pfp, child_number=node.num, network=net,
                priv_version=R.version_bytes(pn) if pn else None, pub_version=R.version_bytes(qn) if qn else None,
            )

        o = attempt(build)
        check(res, f"C08/codec/construct/{net}-{pn or 'default'}", vc, obs_priv(o), ref_priv(node, vprv, vpub), "constructed key serialises differently from the reference", "construct==ref", ("ctor", nm, net, pn))

        # the public class built directly from its fields (not through HDPrivateKey / parse)
        def build_pub():
            return HDPublicKey(
                point=S256Point.parse(node.sec()), chain_code=node.c, depth=node.depth, parent_fingerprint=node.pfp, child_number=node.num, network=net,
                pub_version=R.version_bytes(qn) if qn else None,
            )

        op = attempt(build_pub)
        if check(res, f"C08/codec/construct-pub/{net}-{qn or 'default'}", vc, obs_pub(op), ref_pub(node, vpub), "HDPublicKey built from its fields serialises differently from the reference", "construct-pub==ref", ("ctorpub", nm, net, qn)):
            check_net(res, "C08/codec/construct-pub/network", vc, op, net, "construct-pub network")
            if node.depth < 255:
                rc = R.ckd_pub(node.neuter(), HARD - 1)
                oc = attempt(op.child, HARD - 1)
                check(res, "C08/codec/construct-pub/child", vc, obs_pub(oc), ref_pub(rc, vpub), "child of an HDPublicKey built from its fields differs from the reference", "construct-pub child==ref")
                check_net(res, "C08/codec/construct-pub/network", vc, oc, net, "construct-pub child network")
            hc = attempt(op.child, HARD)
            if isinstance(hc, Rejected) or hc is None:
                res.ok("hardened-from-constructed-public-refused")
            else:
                res.violation("C08/codec/construct-pub/hardened-accepted", vc, str(obs_pub(hc))[:200], "refusal", "hardened child derived from an HDPublicKey built from its fields")
    return res


# ---------------------------------------------------------------- E1 blind
STARTS = [
    [],
    [HARD + 48],
    [HARD + 48, HARD],
    [HARD - 1, 2**32 - 1, 0],
    [HARD + 48, HARD, HARD, HARD + 2],
]


def gen_blind(tier, seed):
    seeds = dict(seeds_for(tier, seed))
    sec_alpha = [0, 1, HARD - 1] if tier == "quick" else [0, 1, HARD - 2, HARD - 1]
    cases = []

    def add(sn, vname, start, secret, sstyle=("m", "'"), xstyle="m"):
        cases.append({"sn": sn, "seed": seeds[sn].hex(), "version": vname, "start": list(start), "secret": list(secret), "start_style": list(sstyle), "secret_prefix": xstyle})

    for si, start in enumerate(STARTS):
        vname = ["xpub", "tpub", "Zpub", "Vpub", "xpub"][si]
        sn = ["r16", "r32", "r64", "f64", "z16"][si]
        for d in (1, 2, 3, 4):
            for secret in itertools.product(sec_alpha, repeat=d):
                if tier == "quick" and d == 3 and si not in (0, 4):
                    continue
                if tier == "quick" and d == 4 and (len(set(secret)) != 1):
                    continue
                add(sn, vname, start, secret, sstyle=STYLES[(si + d) % len(STYLES)])
        # notations of both paths, one secret path
        for p, m in STYLES:
            for xp in ("m", "M"):
                add(sn, vname, start, [1, HARD - 1], (p, m), xp)
        # hardened component in the secret path: refused
        for secret in ([HARD], [0, HARD], [2**32 - 1, 0], [0, 1, HARD + 1]):
            add(sn, vname, start, secret)
    # all ten public prefixes
    for vname, cls, is_priv, v in R.versions():
        if not is_priv:
            add("r32", vname, STARTS[2], [HARD - 1, 0])
    # bounds: the empty secret path "m" (the starting key and path come back unchanged) for every start, a start at
    # depth 8, secret paths of depth 8 and 31 (the most secure_secret_path hands out)
    for si, start in enumerate(STARTS):
        add(["r16", "r32", "r64", "f64", "z16"][si], ["xpub", "tpub", "Zpub", "Vpub", "xpub"][si], start, [], STYLES[si % len(STYLES)], "mM"[si % 2])
    add("r64", "xpub", DEEP8[0], [], ("m", "h"))
    add("r64", "ypub", DEEP8[0], [HARD - 1] * 8, ("M", "mix"))
    add("r64", "upub", DEEP8[0], list(range(31)), ("m", "'"), "M")
    add("r16", "xpub", [], [HARD - 1 - j for j in range(31)])
    if tier == "thorough":
        for d in (5, 6, 7):
            add("r64", "xpub", DEEP8[0][:d], [0, HARD - 1] * 4, ("m", "H"))
            add("r64", "Ypub", DEEP8[2][:d], [1] * d)
    # dedupe
    seen, out = set(), []
    for c in cases:
        k = repr(sorted(c.items()))
        if k not in seen:
            seen.add(k)
            out.append(c)
    return out


def run_blind(case):
    from buidl.blinding import blind_xpub

    res = Res()
    vc = {"engine": "blind", "case": case}
    v = R.version_bytes(case["version"])
    start, secret = case["start"], case["secret"]
    rroot = R.master(bytes.fromhex(case["seed"]))
    rstart = R.derive_priv(rroot, start) if rroot else None
    hardened = any(i >= HARD for i in secret)
    rfull = R.derive_priv(rstart, [] if hardened else secret) if rstart else None
    if rstart is None or rfull is None:
        res.skip("reference: invalid key")
        return res
    start_xpub = rstart.ser(v, False)
    sp = R.format_path(start, *case["start_style"])
    xp = R.format_path(secret, case["secret_prefix"], "'")
    key = (case["sn"], case["version"], tuple(start), tuple(secret), sp, xp)
    got = attempt(blind_xpub, start_xpub, sp, xp)
    if hardened:
        if isinstance(got, Rejected) or got is None:
            res.ok("hardened-secret-path-refused", key)
        else:
            res.violation("C08/blind/hardened-secret-accepted", vc, got, "refusal", "blind_xpub derived a hardened child from a public key")
        return res
    if isinstance(got, Rejected) or not isinstance(got, dict):
        # name the narrowest responsible input class: the plain notation first, then one notation change at a time
        plain_s, plain_x = R.format_path(start), R.format_path(secret)
        big = idx_name(max(start + secret, default=0))
        if isinstance(attempt(blind_xpub, start_xpub, plain_s, plain_x), (Rejected, type(None))):
            st = f"plain-notation/max-index={big}"
        elif xp != plain_x and isinstance(attempt(blind_xpub, start_xpub, plain_s, xp), (Rejected, type(None))):
            st = f"secret-prefix={case['secret_prefix']}"
        else:
            st = f"start-style={case['start_style'][0]}{case['start_style'][1] if any(i >= HARD for i in start) else ''}"
        res.violation(f"C08/blind/rejected/{st}", vc, {"start_path": sp, "secret_path": xp, "result": repr(got)}, "blinded key", "blind_xpub refuses valid paths")
        return res
    want_x = rfull.ser(v, False)
    gx = got.get("blinded_child_xpub")
    if gx != want_x:
        parsed = R.parse_xkey(gx) if isinstance(gx, str) else None
        if parsed and parsed[1].same(rfull.neuter()):
            res.violation("C08/blind/version-changed", vc, gx, want_x, "blinded xpub carries the right key under different version bytes")
        else:
            res.violation(f"C08/blind/wrong-key/depth{len(start)}+{len(secret)}", vc, gx, want_x, "blinded xpub is not the key found at the combined path from the root")
    else:
        res.ok("blinded==ref-at-combined-path", key, sample={"start": sp, "secret": xp, "xpub": want_x[:20] + "..."} if len(secret) == 2 else None)
    gp = got.get("blinded_full_path")
    if not isinstance(gp, str) or R.parse_path(gp) != start + secret:
        res.violation("C08/blind/wrong-full-path" + ("" if isinstance(gp, str) and R.parse_path(gp) is not None else "/unparseable"), vc, gp, R.format_path(start + secret), "blinded_full_path is not the concatenation of the two paths")
    else:
        res.ok("full-path==concat")
    return res


# ---------------------------------------------------------------- E1 badpaths
BAD_BODIES = ["0", "1", "2147483647", "2147483648", "4294967295", "4294967296", "-1", "-0", "-2147483648", "+1", " 1", "1 ", "1_0", "00", "01", "", "١", "0x1", "1.0", "1e0", "a"]
BAD_MARKERS = ["", "'", "h", "H", "''", "hh", "'h"]
BAD_ROOTS = ["mm", "m0", "m8", "mx", "M1", "m'", "mh", "", " m", "m ", "n", "x", "1"]
BAD_TAILS = ["", "/0", "/1'", "/0/1", "/2147483647h/0"]


def bad_class(s):
    """Coarse class of the first feature that puts a string outside the grammar of R.parse_path."""
    parts = s.split("/")
    if parts[0] not in ("m", "M"):
        return "root-component" if parts[0].strip() not in ("m", "M") else "blank-around-root"
    for comp in parts[1:]:
        if R.parse_path("m/" + comp) is not None:
            continue
        body = comp.strip()
        hard = body[-1:] in R.MARKERS
        if hard:
            body = body[:-1]
        try:
            v = int(body, 10)
        except ValueError:
            return "not-an-integer"
        if v < 0:
            return "negative-number"
        if hard and v >= HARD:
            return "marked-number>=2^31"
        if v >= 2**32:
            return "number>=2^32"
        if v >= HARD:
            return "unmarked-number>=2^31"
        return "lexical-noise"
    return "in-grammar"


def gen_badpaths(tier, seed):
    seeds = dict(seeds_for(tier, seed))
    comps = [b + m for b in BAD_BODIES for m in BAD_MARKERS]
    groups = [("m/X", [f"m/{c}" for c in comps])]
    groups.append(("m/1'/X", [f"m/1'/{c}" for c in comps]))
    groups.append(("m/X/0", [f"m/{c}/0" for c in comps]))
    groups.append(("ROOT/tail", [r + t for r in BAD_ROOTS for t in BAD_TAILS]))
    if tier == "quick":
        groups.append(("M/X", [f"M/{b}{m}" for b in BAD_BODIES for m in ("", "H")]))
    if tier == "thorough":
        groups.append(("M/X", [f"M/{c}" for c in comps]))
        groups.append(("m/0/X", [f"m/0/{c}" for c in comps]))
        groups.append(("m/X/1'", [f"m/{c}/1'" for c in comps]))
        groups.append(("m/X/Y", [f"m/{a}/{b}" for a in comps[:: len(BAD_MARKERS)] + ["-1'", "0''"] for b in comps[:: len(BAD_MARKERS)] + ["-1'", "1h"]]))
        groups.append(("ROOT/X", [f"{r}/{c}" for r in BAD_ROOTS for c in comps[:: len(BAD_MARKERS)]]))
    starts = [("r16", "mainnet", [])] if tier == "quick" else [("r16", "mainnet", []), ("r33", "signet", [HARD + 48, 0])]
    cases = []
    for sn, net, start in starts:
        for gname, strings in groups:
            strings = [x for x in dict.fromkeys(strings) if R.parse_path(x) is None]
            for j in range(0, len(strings), 21):
                cases.append({"sn": sn, "seed": seeds[sn].hex(), "net": net, "start": start, "group": gname, "strings": strings[j : j + 21]})
    return cases


def run_badpaths(case):
    from buidl.hd import HDPrivateKey, is_valid_bip32_path

    res = Res()
    net = case["net"]
    vprv, vpub = R.default_versions(net)
    rroot = R.derive_priv(R.master(bytes.fromhex(case["seed"])), case["start"])
    if rroot is None:
        res.skip("reference: invalid key")
        return res
    root = attempt(HDPrivateKey.from_seed, bytes.fromhex(case["seed"]), network=net)
    for i in case["start"]:
        root = attempt(lambda: root.child(i))
    if isinstance(root, Rejected):
        res.violation("C08/badpaths/root-rejected", {"engine": "badpaths", "case": case}, repr(root), "key", "cannot build the traversing key")
        return res
    memo = {}
    for s in case["strings"]:
        vc = {"engine": "badpaths", "case": dict(case, strings=[s])}
        assert R.parse_path(s) is None
        cl = bad_class(s)
        reading = lenient_read(s)
        rn = None
        if reading is not None:
            rn = memo.get(tuple(reading)) or R.derive_priv(rroot, reading)
            memo[tuple(reading)] = rn
            if rn is None:
                res.skip("reference: invalid key on the path")
                continue
        key = (case["sn"], tuple(case["start"]), s)
        # private side: refused, or the key of the only decimal reading
        t = attempt(root.traverse, s)
        if isinstance(t, Rejected) or t is None:
            res.ok("priv: refused", ("p",) + key)
        elif reading is None:
            ot = obs_priv(t)
            res.violation(f"C08/badpaths/priv-accepts-unreadable/{cl}", vc, {"path": s, "result": {k: ot.get(k) for k in ("num", "depth", "xprv")} if isinstance(ot, dict) else repr(ot)}, "refusal", "HDPrivateKey.traverse returns a key for a string that has no reading as a BIP32 path")
        else:
            d = diff(obs_priv(t), ref_priv(rn, vprv, vpub))
            if d is None:
                res.ok("priv: key of the decimal reading", ("p",) + key)
            else:
                res.violation(f"C08/badpaths/priv-wrong-key/{cl}/{d}", vc, {"path": s, "reading": reading}, "refusal or the key at the reading", "HDPrivateKey.traverse returns a key that is not the one the components denote")
        # public side: refused whenever the reading has a hardened index
        tp = attempt(root.pub.traverse, s)
        if isinstance(tp, Rejected) or tp is None:
            res.ok("pub: refused", ("q",) + key)
        elif reading is None:
            otp = obs_pub(tp)
            res.violation(f"C08/badpaths/pub-accepts-unreadable/{cl}", vc, {"path": s, "result": {k: otp.get(k) for k in ("num", "depth", "xpub")} if isinstance(otp, dict) else repr(otp)}, "refusal", "HDPublicKey.traverse returns a key for a string that has no reading as a BIP32 path")
        elif any(i >= HARD for i in reading):
            res.violation(f"C08/badpaths/pub-hardened-accepted/{cl}", vc, {"path": s, "reading": reading}, "refusal", "HDPublicKey.traverse returns a key for a path with a hardened index")
        else:
            d = diff(obs_pub(tp), ref_pub(rn, vpub))
            if d is None:
                res.ok("pub: key of the decimal reading", ("q",) + key)
            else:
                res.violation(f"C08/badpaths/pub-wrong-key/{cl}/{d}", vc, {"path": s, "reading": reading}, "refusal or the key at the reading", "HDPublicKey.traverse returns a key that is not the one the components denote")
        # the validator must not call an index outside [0, 2^32) or a foreign root valid ("//" and other
        # not-an-integer forgiveness is not judged here: blindneg judges its consequences)
        if cl in ("root-component", "negative-number", "marked-number>=2^31", "number>=2^32"):
            if attempt(is_valid_bip32_path, s) is True:
                res.violation(f"C08/badpaths/is_valid_bip32_path-accepts/{cl}", vc, {"path": s}, False, "is_valid_bip32_path accepts a string with an index outside [0, 2^32) / a foreign root component")
            else:
                res.ok("validator: refused")
    return res


# ---------------------------------------------------------------- E1 blindneg
def gen_blindneg(tier, seed):
    seeds = dict(seeds_for(tier, seed))
    secrets = [[0], [1], [HARD - 1], []]
    styles = [("m", "'"), ("M", "H")] if tier == "quick" else [("m", "'"), ("M", "H"), ("m", "h"), ("M", "mix")]
    cases = []
    for si, start in enumerate(STARTS):
        vname = ["xpub", "tpub", "Zpub", "Vpub", "xpub"][si]
        sn = ["r16", "r32", "r64", "f64", "z16"][si]
        for p, m in styles:
            honest = R.format_path(start, p, m)
            claims = []  # (variant, claimed string)
            for j in range(len(start)):
                removed = R.format_path(start[:j] + start[j + 1 :], p, m)
                claims.append(("component-removed", removed))
                claims.append(("trailing-slash", removed + "/"))
                # as many "/" as the xpub has levels, one component fewer
                parts = removed.split("/")
                for k in range(1, len(parts)):
                    claims.append(("double-slash", "/".join(parts[:k]) + "//" + "/".join(parts[k:])))
            for extra in ("0", "0" + (m if m != "mix" else "h"), str(HARD - 1)):
                claims.append(("component-appended", honest + "/" + extra))
            parts = honest.split("/")
            for k in range(1, len(parts)):  # the honest path written with one doubled slash: refused, or the right answer
                claims.append(("honest-double-slash", "/".join(parts[:k]) + "//" + "/".join(parts[k:])))
            for variant, claimed in dict.fromkeys(claims):
                for secret in secrets:
                    cases.append({"sn": sn, "seed": seeds[sn].hex(), "version": vname, "start": start, "variant": variant, "claimed": claimed, "secret": secret})
    seen, out = set(), []
    for c in cases:
        k = repr(sorted(c.items()))
        if k not in seen:
            seen.add(k)
            out.append(c)
    return out


def run_blindneg(case):
    """The xpub handed over really sits at `start`; the starting path handed over claims something else (or the same
    thing with a doubled slash).  Refusal is always fine.  If a result comes back, it must be the key at start+secret AND
    the path returned with it must read as start+secret: a path of another depth next to that key is a wrong answer."""
    from buidl.blinding import blind_xpub

    res = Res()
    vc = {"engine": "blindneg", "case": case}
    v = R.version_bytes(case["version"])
    start, secret = case["start"], case["secret"]
    rstart = R.derive_priv(R.master(bytes.fromhex(case["seed"])), start)
    rfull = R.derive_priv(rstart, secret) if rstart else None
    if rfull is None:
        res.skip("reference: invalid key")
        return res
    xp = R.format_path(secret)
    got = attempt(blind_xpub, rstart.ser(v, False), case["claimed"], xp)
    key = (case["sn"], tuple(start), case["claimed"], xp)
    if isinstance(got, Rejected) or not isinstance(got, dict):
        res.ok("refused", key)
        return res
    gx, gp = got.get("blinded_child_xpub"), got.get("blinded_full_path")
    reading = lenient_read(gp) if isinstance(gp, str) else None
    parsed = R.parse_xkey(gx) if isinstance(gx, str) else None
    obs = {"claimed_start_path": case["claimed"], "blinded_full_path": gp, "its_depth": len(reading) if reading is not None else None, "key_depth": parsed[1].depth if parsed else None}
    if gx != rfull.ser(v, False):
        res.violation(f"C08/blindneg/wrong-key/{case['variant']}", vc, obs, rfull.ser(v, False), "blind_xpub returns a key that is not the one at the secret path below the given xpub")
    elif reading != start + secret:
        res.violation(f"C08/blindneg/depth-mismatch-accepted/{case['variant']}", vc, obs, {"refusal or blinded_full_path": R.format_path(start + secret, "m", "h")}, "blind_xpub accepts a starting path whose depth is not the xpub's depth: the path it returns is not the path of the key it returns")
    else:
        res.ok("accepted with the right key and path", key)
    return res


# ---------------------------------------------------------------- E1 entry
MNEMONICS = [
    "abandon abandon abandon abandon abandon abandon abandon abandon abandon abandon abandon about",
    "legal winner thank year wave sausage worth useful legal winner thank yellow",
]
BIG = HARD - 1


def bip39_seed(mnemonic, password):
    import hashlib

    return hashlib.pbkdf2_hmac("sha512", mnemonic.encode(), b"mnemonic" + password, 2048, 64)


def gen_entry(tier, seed):
    cases = []
    paths = [[], [0], [HARD], [HARD + 84, HARD, HARD, 0, 5], DEEP8[0]]
    if tier == "thorough":
        paths += [[i] for i in BOUNDARY[1:]] + [DEEP8[2], [HARD - 1, 2**32 - 1]]
    for mi, mn in enumerate(MNEMONICS):
        for pi, pw in enumerate(["", "TREZOR"]):
            if tier == "quick" and mi != pi:
                continue
            for ni, net in enumerate(NETWORKS):
                if tier == "quick" and ni != 2 * mi:  # quick: sentence 0 on mainnet, sentence 1 on signet
                    continue
                for path in paths:  # one case per path; quick: the depth-8 path in 3 notations only
                    cases.append({"kind": "mnemonic", "m": mi, "pw": pw, "net": net, "paths": [path], "slip132": "zZuV"[ni], "styles": [["m", "h"], ["M", "mix"], ["M", "'"]] if tier == "quick" and len(path) == 8 else None})
    purposes = ["44'", "49'", "84'", "86'"]
    for pi, purpose in enumerate(purposes):
        for ni, net in enumerate(NETWORKS):
            if tier == "quick" and ni != pi:
                continue
            vals = [0, BIG] if tier == "quick" else [0, 1, BIG]
            for a in vals:
                cases.append({"kind": "getkey", "m": pi % 2, "net": net, "purpose": purpose, "account": a, "addresses": vals})
    for ni, net in enumerate(NETWORKS):
        rp = [[HARD + 48, HARD + (0 if net == "mainnet" else 1), HARD, HARD + 2], [HARD + 45], [0, HARD - 1, 2**32 - 1]]
        cases.append({"kind": "record", "m": ni % 2, "net": net, "paths": rp if tier == "thorough" or ni % 2 == 0 else rp[:1]})
    return cases


def run_entry(case):
    """Entry points that build a path (or take one) and hand it to traverse.  Seeds come from BIP39 (PBKDF2-HMAC-SHA512 of
    the sentence, hashlib) on the reference side."""
    from buidl.hd import HDPrivateKey

    res = Res()
    vc = {"engine": "entry", "case": case}
    net = case["net"]
    mn = MNEMONICS[case["m"]]
    pw = case.get("pw", "").encode()
    rroot = R.master(bip39_seed(mn, pw))
    vprv, vpub = R.default_versions(net)
    if case["kind"] == "mnemonic":
        sl = case["slip132"]
        for path in case["paths"]:
            rn = R.derive_priv(rroot, path)
            if rn is None:
                res.skip("reference: invalid key")
                continue
            sts = styles_of(path)
            if case.get("styles"):
                allowed = {tuple(x) for x in case["styles"]}
                sts = [x for x in sts if (x[0], x[1]) in allowed]
            for j, (pfx, mk, s) in enumerate(sts):
                o = attempt(HDPrivateKey.from_mnemonic, mn, password=pw, path=s, network=net)
                if check(res, "C08/entry/from_mnemonic(path)", vc, obs_priv(o), ref_priv(rn, vprv, vpub), f"from_mnemonic(path={s!r}) is not the reference key at that path below the BIP39 seed", "from_mnemonic(path)==ref", ("mn", case["m"], case["pw"], net, s)):
                    check_net(res, "C08/entry/from_mnemonic(path)/network", vc, o, net, "from_mnemonic network")
            # the same with an explicit SLIP-132 pair, one notation
            sprv, spub = R.version_bytes(sl + "prv"), R.version_bytes(sl + "pub")
            if (R.NET_CLASS[net] == "main") == (sl in "xyzYZ"):
                s = sts[-1][2]
                o = attempt(HDPrivateKey.from_mnemonic, mn, password=pw, path=s, network=net, priv_version=sprv, pub_version=spub)
                check(res, "C08/entry/from_mnemonic(path,versions)", vc, obs_priv(o), ref_priv(rn, sprv, spub), f"from_mnemonic(path={s!r}, versions {sl}) is not the reference key with those version bytes", "from_mnemonic(path,versions)==ref", ("mnv", case["m"], case["pw"], net, s))
    elif case["kind"] == "getkey":
        root = attempt(HDPrivateKey.from_mnemonic, mn, network=net)
        purpose, a = case["purpose"], case["account"]
        coin = 0 if net == "mainnet" else 1  # BIP44: coin type 0' on mainnet, 1' on every test network
        racc = R.derive_priv(rroot, [HARD + int(purpose[:-1]), HARD + coin, HARD + a])
        for ext in (True, False):
            rch = R.ckd_priv(racc, 0 if ext else 1)
            for n in case["addresses"]:
                rn = R.ckd_priv(rch, n)
                pk = attempt(lambda: root.get_private_key(purpose, account_num=a, is_external=ext, address_num=n))
                got = attempt(lambda: (pk.secret, bytes(pk.point.sec())))
                want = (rn.k, rn.sec())
                if got == want:
                    res.ok("get_private_key==ref", ("gk", net, purpose, a, ext, n))
                else:
                    res.violation("C08/entry/get_private_key", vc, {"external": ext, "address_num": n, "got": got}, want, f"get_private_key is not the reference key at m/{purpose}/{coin}'/{a}'/{0 if ext else 1}/{n}")
    else:
        root = attempt(HDPrivateKey.from_mnemonic, mn, network=net)
        for path in case["paths"]:
            rn = R.derive_priv(rroot, path)
            for pfx, mk, s in styles_of(path) + [(None, None, None)]:
                if s is None and path != case["paths"][0]:
                    continue  # bip32_path=None: the default p2wsh path of the network (= case["paths"][0])
                for flag in (False, True):
                    rec = attempt(lambda: root.generate_p2wsh_key_record(bip32_path=s, use_slip132_version_byte=flag))
                    wv = vpub if not flag else R.version_bytes("Zpub" if net == "mainnet" else "Vpub")
                    ok = False
                    if isinstance(rec, str) and rec.startswith("[") and "]" in rec:
                        origin, xp = rec[1:].split("]", 1)
                        fp, _, tail = origin.partition("/")
                        ok = fp == rroot.fingerprint().hex() and R.parse_path("m/" + tail) == path and xp == rn.ser(wv, False)
                    if ok:
                        res.ok("key record == [root fingerprint/path]xpub at the path", ("rec", net, s, flag))
                    else:
                        res.violation("C08/entry/generate_p2wsh_key_record", vc, {"bip32_path": s, "slip132": flag, "record": rec if isinstance(rec, str) else repr(rec)}, f"[{rroot.fingerprint().hex()}/{R.format_path(path, 'm', 'h')[2:]}]{rn.ser(wv, False)}", "the key record does not name the root fingerprint, the path and the xpub found at that path")
    return res


# ---------------------------------------------------------------- E3 toy
TOY_CCS = ["00" * 32, "ff" * 32]


def toy_indexes(seed):
    return BOUNDARY + [2, HARD - 2, 2**32 - 2] + fillers_idx(seed)


def gen_toy(toy):
    def g(tier, seed):
        p, n = toy
        ccs = TOY_CCS + [filler(seed, "toycc", i).hex() for i in range(2 if tier == "quick" else 6)]
        return [{"toy": list(toy), "k": k, "c": c, "idx": toy_indexes(seed)} for k in range(1, n) for c in ccs]

    return g


def run_toy(case):
    from buidl import pecc
    from buidl.ecc import PrivateKey
    from buidl.hd import HDPrivateKey

    res = Res()
    toy = tuple(case["toy"])
    assert current_toy() == toy and pecc.N == toy[1] and pecc.P == toy[0]
    cv = ec.toy_curve(*toy)
    ename = f"toy{toy[0]}"
    vc = {"engine": ename, "toy": list(toy), "case": case}
    vprv, vpub = R.default_versions("mainnet")
    k, c = case["k"], bytes.fromhex(case["c"])
    depth, pfp, num = k % 5, bytes([k % 256, 1, 2, 3]), (k * 7) % 11
    rpar = R.make_private(cv, k, c, depth, pfp, num)
    par = attempt(lambda: HDPrivateKey(PrivateKey(secret=k), c, depth=depth, parent_fingerprint=pfp, child_number=num))
    if not check(res, f"C08/{ename}/parent", vc, obs_priv(par), ref_priv(rpar, vprv, vpub), "constructed parent differs from the reference", "parent==ref"):
        return res
    for i in case["idx"]:
        nm = idx_name(i)
        key = (toy, k, case["c"], i)
        rc = R.ckd_priv(rpar, i)
        pc = attempt(par.pub.child, i)
        if i >= HARD:
            if isinstance(pc, Rejected) or pc is None:
                res.ok("hardened-from-public-refused", ("hard",) + key)
            else:
                res.violation(f"C08/{ename}/pub-hardened-accepted/{nm}", vc, str(obs_pub(pc))[:300], "refusal", "HDPublicKey.child returned a key for a hardened index")
        if rc is None:
            res.skip("toy: child secret is 0 mod n (invalid key per BIP32): outside the statement")
            continue
        ch = attempt(par.child, i)
        och = obs_priv(ch)
        okc = check(res, f"C08/{ename}/priv-child/{nm}", vc, och, ref_priv(rc, vprv, vpub), "HDPrivateKey.child differs from reference CKDpriv mod n", "priv-child==ref", key)
        if i >= HARD:
            continue
        rp = R.ckd_pub(rpar.neuter(), i)
        opc = obs_pub(pc)
        check(res, f"C08/{ename}/pub-child/{nm}", vc, opc, ref_pub(rp, vpub), "HDPublicKey.child differs from reference CKDpub", "pub-child==ref", ("pub",) + key)
        if okc:
            check(res, f"C08/{ename}/priv-pub-mismatch/{nm}", vc, opc, obs_pub(ch.pub), "public derivation differs from the public half of the private derivation", "pub-child==priv-child.pub")
    return res


def gen_toypaths(toy):
    def g(tier, seed):
        p, n = toy
        roots = [(1, TOY_CCS[0]), (n - 1, TOY_CCS[1]), (filler_int(seed, "toyk", 0, 2, n - 2), filler(seed, "toycc", 9).hex())]
        if tier == "thorough":
            roots += [(filler_int(seed, "toyk", j, 2, n - 2), filler(seed, "toycc", 10 + j).hex()) for j in range(1, 6)]
        alpha = BOUNDARY if tier == "quick" else BOUNDARY + fillers_idx(seed)
        cases = []
        for (k, c), net in zip(roots, itertools.cycle(NETWORKS)):
            for d in (0, 1, 2, 3):
                for pth in itertools.product(alpha, repeat=d):
                    cases.append({"engine": f"toypaths{p}", "toy": list(toy), "k": k, "c": c, "net": net, "path": list(pth)})
            for pth in DEEP8:
                cases.append({"engine": f"toypaths{p}", "toy": list(toy), "k": k, "c": c, "net": net, "path": pth})
        return cases

    return g


def run_toypaths(case):
    from buidl import pecc

    toy = tuple(case["toy"])
    assert current_toy() == toy and pecc.N == toy[1] and pecc.P == toy[0]
    return run_paths(case, toy=toy)


# ---------------------------------------------------------------- engines
def engines(tier, seed):
    toys = QUICK_TOYS if tier == "quick" else THOROUGH_TOYS
    es = [
        Engine(
            "tree",
            gen_tree,
            run_tree,
            kind="E1",
            chunk=1,
            rule="secp256k1. seeds (16/32/64 bytes quick; 16,17,31,32,33,48,63,64 thorough; all-zero, all-ff and seed-dependent fillers) x 4 networks at the root, "
            "x every parent path of depth <= 1 (all seeds), depth 2 (2 seeds quick / 6 thorough) over {0,1,2^31-1,2^31,2^31+1,2^32-1} (+2 filler indexes thorough), "
            "depth 3 over the 6 boundary indexes (2 seeds, thorough); every parent x every child index of that alphabet + 2 fillers. Non-trivial = one (seed, network, parent path, child index) "
            "derivation compared field by field with the reference (private), plus the public derivation / hardened refusal of the same child",
        ),
        Engine(
            "paths",
            gen_paths,
            run_paths,
            kind="E1",
            chunk=1,
            rule="secp256k1. every path of depth <= 2 over the 6 boundary indexes (quick: 1 seed + depth 1 for a second; thorough: 3 seeds, and every depth-3 path for 2 of them), "
            "written in every distinct notation {m,M} x {',h,H,mixed}; quick adds all depth-3 paths over {0,2^31-1,2^31,2^32-1} in 2 notations and 4 depth-8 paths in 3 notations; "
            "thorough adds 6 depth-8 paths and depth 4..7 prefixes for 3 seeds in every notation. "
            "traverse(string) == fold of child() == reference on the private side; public traverse == reference / refused when a component is hardened. "
            "Non-trivial = one (root, path, string) traversal of depth >= 1",
        ),
        Engine(
            "travseq",
            gen_travseq,
            run_travseq,
            kind="E2",
            chunk=1,
            rule="secp256k1. histories in one process: for a seed and a path (3 quick / 5 thorough paths, forward and reverse order) the same key is built for all 4 networks, "
            "with all 10 SLIP-132 version pairs and parsed from all 10 private-version strings, and each guise traverses the same path string in turn; every result must be the "
            "reference key with its own version bytes / network (state shared between keys that look alike would show here)",
        ),
        Engine(
            "codec",
            gen_codec,
            run_codec,
            kind="E1",
            chunk=1,
            rule="nodes = one base key with every single boundary deviation of secret (1, n-1, leading zero bytes), chain code (00.., ff.., leading zeros), depth (0,1,8,255), "
            "parent fingerprint, child number (6 boundary values) [thorough: every pair of deviations] + keys derived from seeds; each x all 20 SLIP-132 prefixes: "
            "parse(x).xprv()/xpub() == x, parsed fields, network class, explicit-version serialisers, raw_serialize memo, raw_parse(network) for 4 networks, "
            "constructor with default and SLIP-132 version pairs, child derivation (2^31-1, 2^31) from the parsed derived keys. Non-trivial = one (node, prefix) round trip",
        ),
        Engine(
            "blind",
            gen_blind,
            run_blind,
            kind="E1",
            chunk=1,
            rule="5 starting keys at depths 0..4 (hardened and boundary components, prefixes xpub/tpub/Zpub/Vpub) x every secret path of depth 1..4 over {0,1,2^31-1} "
            "(quick: depth 3 for two starts, depth 4 constant paths; thorough: all, alphabet + 2^31-2) x path notations of both arguments x all 10 public prefixes; "
            "result compared with the reference private derivation from the root along the concatenated path; secret paths with a hardened component must be refused. "
            "Non-trivial = one (start, secret path, notation) call",
        ),
        Engine(
            "badpaths",
            gen_badpaths,
            run_badpaths,
            kind="E1",
            chunk=1,
            rule="secp256k1. strings OUTSIDE the path grammar, none sampled: component = body x marker with 21 bodies {0,1,2^31-1,2^31,2^32-1,2^32,-1,-0,-2^31,+1,' 1','1 ',1_0,00,01,'',"
            "arabic-indic 1,0x1,1.0,1e0,a} x 7 markers {none,',h,H,'',hh,'h}, placed as m/X, m/1'/X, m/X/0 and M/X (quick: M/X with markers {none,H} only; thorough: all 7 markers, and also m/0/X, m/X/1') (in-grammar results dropped), and 13 damaged root components "
            "{mm,m0,m8,mx,M1,m',mh,'',' m','m ',n,x,1} x 5 tails; thorough adds m/X/Y over 23x23 components, damaged roots x 21 bodies and a second, non-root traversing key. "
            "Oracle (never demands acceptance): each component is read as the decimal integer it denotes (Python int(): blanks, sign, '_', non-ASCII digits are noise), root must be m/M, "
            "marked number < 2^31, unmarked < 2^32, not negative; HDPrivateKey.traverse is refused or returns the reference key at that reading, a string without a reading must be refused; "
            "HDPublicKey.traverse likewise and refused whenever the reading has an index >= 2^31; is_valid_bip32_path must be False for a foreign root or an index outside [0,2^32). "
            "Non-trivial = one (key, string, side) call",
        ),
        Engine(
            "blindneg",
            gen_blindneg,
            run_blindneg,
            kind="E1",
            rule="the 5 starting xpubs of `blind` (depths 0..4) handed to blind_xpub with a starting path of ANOTHER depth: each single component removed, that string with a trailing '/', "
            "that string with one '/' doubled at each position (as many '/' as the xpub has levels), 3 components appended (0, 0 hardened, 2^31-1); plus the honest path with one '/' doubled; "
            "x notations (2 quick / 4 thorough) x secret paths {m/0, m/1, m/2^31-1, m}. Oracle: refused, or the returned key is the reference key at start+secret AND the returned path reads "
            "(decimal reading as in badpaths) as start+secret. Non-trivial = one call",
        ),
        Engine(
            "entry",
            gen_entry,
            run_entry,
            kind="E1",
            chunk=1,
            rule="entry points that take or build a path. Reference seed = PBKDF2-HMAC-SHA512 (hashlib) of 2 published BIP39 sentences x passwords {'', TREZOR}. from_mnemonic(path=s) for 5 paths "
            "(depth 0..8; 12 thorough) x every notation (quick: 3 notations for the depth-8 path) x networks (quick: sentence 0 with '' on mainnet, sentence 1 with TREZOR on signet; thorough: 2 x 2 x 4), once more with a SLIP-132 version pair == reference key at the path with the right "
            "version bytes and network; get_private_key(purpose, account, external, address) for purposes 44',49',84',86' (one network each quick; 4 thorough) x account, address in {0,2^31-1} "
            "(+1 thorough) x external/internal == reference key at m/purpose/coin'/account'/chain/address with coin 0 on mainnet else 1; generate_p2wsh_key_record for the default path and "
            "given paths in every notation x both version choices == [root fingerprint/path]xpub of the reference. Non-trivial = one call",
        ),
    ]
    for t in toys:
        es.append(
            Engine(
                f"toy{t[0]}",
                gen_toy(t),
                run_toy,
                toy=t,
                kind="E3",
                rule=f"toy curve p={t[0]}, n={t[1]}: every parent secret 1..n-1 x chain codes (00.., ff.., fillers) x 11 indexes around the hardened boundary: "
                "HDPrivateKey.child == CKDpriv mod n, .pub == HDPublicKey.child == CKDpub, hardened refused from public. Children with secret 0 mod n are skipped. "
                "Non-trivial = one (secret, chain code, index) derivation",
            )
        )
    tp = toys[-1]
    es.append(
        Engine(
            f"toypaths{tp[0]}",
            gen_toypaths(tp),
            run_toypaths,
            toy=tp,
            kind="E3",
            rule=f"toy curve p={tp[0]}, n={tp[1]}: 3 (8 thorough) roots x every path of depth <= 3 over the 6 (8) index alphabet + 4 depth-8 paths x every notation "
            "{m,M} x {',h,H,mixed}: same comparisons as `paths`. Non-trivial = one (root, path, string) traversal of depth >= 1",
        )
    )
    return es
