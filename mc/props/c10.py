"""C10 — PSBT codec is lossless; the signing workflow is order-independent and exact.

E2 workflow (toy instance and secp256k1): for one wallet configuration the state space is the lattice of signer
   subsets; transitions are sign(i), combine(a <- b) for every ordered pair of reachable PSBTs in every
   built/parsed flavour, and serialize->parse.  Every transition must land on the byte-identical canonical PSBT
   of the target subset; in every state: re-serialisation idempotent, embedded unsigned tx in non-witness
   format with empty scriptSigs (independent BIP174 reader), injected unknown key-values and global xpubs survive,
   finalize+final_tx succeeds and verifies under the reference consensus verifier iff >= m signers, and every
   partial signature replaced by a non-verifying one makes PSBT.parse raise.

E1 forms (toy instance and secp256k1): one input class per case that the workflow engines never build - change outputs (output maps with
   redeem/witness script and derivations, against maps assembled from the BIPs), input maps other software writes (both UTXO records,
   non_witness_utxo only on segwit inputs, sighash-type field), bad partial signatures in maps without UTXO, update histories over all
   subsets of the four lookups, hd_pubs dictionaries with caller-chosen keys, networks x account paths x parse(network=None) x base64
   entry points, sign_with_private_keys, transaction parameters (fee, version, locktime, sequence, segwit-serialised funding tx).  In every
   form a PSBT built in-process must serialise to exactly the bytes its own parse->serialize gives.
"""
import itertools
from io import BytesIO

from mc.core import Engine, Res, attempt, Rejected, filler_int, current_toy
from mc.ref import ec, txref, interp, psbtref

PROP = "C10"
N = ec.SECP.n
STYPES = ["p2pkh", "p2wpkh", "p2sh-p2wpkh", "p2sh", "p2wsh", "p2sh-p2wsh"]
MULTI = ("p2sh", "p2wsh", "p2sh-p2wsh")
UNKNOWN_G = (b"\xfc\x05verif\x01", b"global-unknown")
UNKNOWN_I = (b"\xfc\x05verif\x02", b"input-unknown")
UNKNOWN_O = (b"\xfc\x05verif\x03", b"output-unknown")


def root_secret(i, toy):
    if toy:
        return [3, 5, 7, 11, 13][i]
    return filler_int(0, "c10root", i, 1, N - 1)


class Wallet:
    """Everything derived through the library API (this is the system under test)."""

    def __init__(self, cfg, toy):
        from buidl import pecc
        from buidl.hd import HDPrivateKey
        from buidl.psbt import NamedHDPublicKey
        from buidl.script import P2PKHScriptPubKey, P2WPKHScriptPubKey, RedeemScript, WitnessScript
        from buidl.tx import Tx, TxIn, TxOut

        self.cfg, self.toy = cfg, toy
        st, m, n, nin = cfg["stype"], cfg["m"], cfg["n"], cfg["nin"]
        if toy:
            # harness-side seam, toy instances only: the RFC 6979 rejection loop never terminates for a 8-bit
            # group order; use a deterministic nonce function of (secret, digest) with the same interface
            import hashlib

            def det_k(self_, z):
                # redraw while r == 0 or s == 0 (possible only because the group has 199 elements)
                for ctr in range(1000):
                    h = hashlib.sha256(b"toy-nonce" + bytes([ctr % 256]) + self_.secret.to_bytes(32, "big") + (z % 2**256).to_bytes(32, "big")).digest()
                    k = 1 + int.from_bytes(h, "big") % (pecc.N - 1)
                    r = (k * pecc.G).x.num % pecc.N
                    if r and (z + r * self_.secret) % pecc.N:
                        return k
                raise RuntimeError("no usable toy nonce")

            pecc.PrivateKey.deterministic_k = det_k
        net, acct = cfg.get("net", "mainnet"), cfg.get("acct", "m/45h")
        self.net, self.acct_path = net, acct
        self.roots = [HDPrivateKey(pecc.PrivateKey(root_secret(i, toy)), chain_code=bytes([0x40 + i]) * 32, network=net) for i in range(n)]
        self.acct = [NamedHDPublicKey.from_hd_priv(r, acct) for r in self.roots]
        self.xfps = [txref.h160(r.pub.sec())[:4] for r in self.roots]
        self.pubkey_lookup, self.redeem_lookup, self.witness_lookup = {}, {}, {}
        self.spks, self.scripts = [], []
        # reference description of every wallet script (raw bytes assembled here from the BIPs, nothing taken from
        # buidl.script): {"spk", "redeem", "witness", "keys": [(sec, fingerprint || path)]}; leaf_paths[k] = path of script k
        self.ref_scripts, self.leaf_paths = [], []
        self.change_lookup_keys = {"pubkey": [], "redeem": [], "witness": []}
        amount = 2000000
        nscripts = nin + (1 if cfg.get("change") else 0)
        for k in range(nscripts):
            is_change = k >= nin
            # child index: walk until the n child keys are pairwise distinct (collisions exist only on toy groups)
            j = k * 50
            while True:
                named = [NamedHDPublicKey.from_hd_priv(r, f"{acct}/0/{j}") for r in self.roots]
                if len({x.sec() for x in named}) == n:
                    break
                j += 1
            self.leaf_paths.append(f"{acct}/0/{j}")
            for x in named:
                self.pubkey_lookup[x.sec()] = x
                self.pubkey_lookup[x.hash160()] = x
                if is_change:
                    self.change_lookup_keys["pubkey"] += [x.sec(), x.hash160()]
            secs = sorted(x.sec() for x in named)
            origin = {x.sec(): self.xfps[i] + path_bytes(f"{acct}/0/{j}") for i, x in enumerate(named)}
            ref = {"redeem": None, "witness": None}
            if st == "p2pkh":
                spk = P2PKHScriptPubKey(named[0].hash160())
                ref["spk"] = b"\x76\xa9\x14" + txref.h160(named[0].sec()) + b"\x88\xac"
                ref["keys"] = [(named[0].sec(), origin[named[0].sec()])]
            elif st == "p2wpkh":
                spk = P2WPKHScriptPubKey(named[0].hash160())
                ref["spk"] = b"\x00\x14" + txref.h160(named[0].sec())
                ref["keys"] = [(named[0].sec(), origin[named[0].sec()])]
            elif st == "p2sh-p2wpkh":
                redeem = RedeemScript([0, named[0].hash160()])
                self.redeem_lookup[redeem.hash160()] = redeem
                if is_change:
                    self.change_lookup_keys["redeem"].append(redeem.hash160())
                spk = redeem.script_pubkey()
                ref["redeem"] = b"\x00\x14" + txref.h160(named[0].sec())
                ref["spk"] = b"\xa9\x14" + txref.h160(ref["redeem"]) + b"\x87"
                ref["keys"] = [(named[0].sec(), origin[named[0].sec()])]
            else:
                cmds = [0x50 + m] + secs + [0x50 + n, 174]
                ms = bytes([0x50 + m]) + b"".join(bytes([len(x)]) + x for x in secs) + bytes([0x50 + n, 0xAE])
                ref["keys"] = [(x, origin[x]) for x in secs]
                if st == "p2sh":
                    redeem = RedeemScript(cmds)
                    self.redeem_lookup[redeem.hash160()] = redeem
                    if is_change:
                        self.change_lookup_keys["redeem"].append(redeem.hash160())
                    spk = redeem.script_pubkey()
                    ref["redeem"] = ms
                    ref["spk"] = b"\xa9\x14" + txref.h160(ms) + b"\x87"
                else:
                    ws = WitnessScript(cmds)
                    self.witness_lookup[ws.sha256()] = ws
                    if is_change:
                        self.change_lookup_keys["witness"].append(ws.sha256())
                    ref["witness"] = ms
                    if st == "p2wsh":
                        spk = ws.script_pubkey()
                        ref["spk"] = b"\x00\x20" + txref.sha256(ms)
                    else:
                        redeem = ws.script_pubkey().redeem_script()
                        self.redeem_lookup[redeem.hash160()] = redeem
                        if is_change:
                            self.change_lookup_keys["redeem"].append(redeem.hash160())
                        spk = redeem.script_pubkey()
                        ref["redeem"] = b"\x00\x20" + txref.sha256(ms)
                        ref["spk"] = b"\xa9\x14" + txref.h160(ref["redeem"]) + b"\x87"
            self.ref_scripts.append(ref)
            if is_change:
                self.change_spk = spk
            else:
                self.spks.append(spk)
        self.amount = amount
        self.prev = Tx(1, [TxIn(b"\x77" * 32, 0)], [TxOut(amount, spk) for spk in self.spks], 0, network=net, segwit=False)
        prev_witness = []
        if cfg.get("prevseg"):
            # the funding transaction is itself a segwit transaction: non_witness_utxo then carries witness data
            from buidl.witness import Witness

            prev_witness = [b"\x30" + bytes(range(1, 71)), b"\x02" + b"\x5a" * 32]
            self.prev.tx_ins[0].witness = Witness(list(prev_witness))
            self.prev.segwit = True
        self.tx_lookup = {self.prev.hash(): self.prev}
        self.Tx, self.TxIn, self.TxOut = Tx, TxIn, TxOut
        self.P2WPKH = P2WPKHScriptPubKey
        # the same two transactions in the reference representation (mc.ref.txref), built from the configuration only
        self.ref_prev = {
            "version": 1,
            "ins": [{"prev": b"\x77" * 32, "index": 0, "script": b"", "seq": 0xFFFFFFFF, "witness": prev_witness}],
            "outs": [{"amount": amount, "script": self.ref_scripts[k]["spk"]} for k in range(nin)],
            "locktime": 0,
            "segwit": bool(cfg.get("prevseg")),
        }
        prev_id = txref.dsha(txref.ser_stripped(self.ref_prev))[::-1]
        seq = cfg.get("sequence")
        self.ref_unsigned = {
            "version": cfg.get("version", 2),
            "ins": [{"prev": prev_id, "index": k, "script": b"", "seq": 0xFFFFFFFF if seq is None else seq, "witness": []} for k in range(nin)],
            "outs": self._ref_outs(),
            "locktime": cfg.get("locktime", 0),
            "segwit": False,
        }

    CHANGE_AMOUNT = 700000

    def _ref_outs(self):
        total = self.amount * self.cfg["nin"] - self.cfg.get("fee", 5000)
        foreign = b"\x00\x14" + b"\x31" * 20
        if self.cfg.get("change"):
            return [{"amount": total - self.CHANGE_AMOUNT, "script": foreign}, {"amount": self.CHANGE_AMOUNT, "script": self.ref_scripts[-1]["spk"]}]
        return [{"amount": total, "script": foreign}]

    def expected_maps(self):
        """BIP174 input and output maps an Updater knowing every lookup must produce (as dicts key -> value)."""
        ins, outs = [], []
        legacy = self.cfg["stype"] in ("p2pkh", "p2sh")
        for k in range(self.cfg["nin"]):
            ref = self.ref_scripts[k]
            d = {b"\x00": txref.ser_tx(self.ref_prev)} if legacy else {b"\x01": txref.ser_out(self.ref_prev["outs"][k])}
            if ref["redeem"] is not None:
                d[b"\x04"] = ref["redeem"]
            if ref["witness"] is not None:
                d[b"\x05"] = ref["witness"]
            for sec, org in ref["keys"]:
                d[b"\x06" + sec] = org
            ins.append(d)
        outs.append({})
        if self.cfg.get("change"):
            ref = self.ref_scripts[-1]
            d = {}
            if ref["redeem"] is not None:
                d[b"\x00"] = ref["redeem"]
            if ref["witness"] is not None:
                d[b"\x01"] = ref["witness"]
            for sec, org in ref["keys"]:
                d[b"\x02" + sec] = org
            outs.append(d)
        return ins, outs

    def fresh_tx(self):
        nin = self.cfg["nin"]
        seq = self.cfg.get("sequence")
        tins = [self.TxIn(self.prev.hash(), k, sequence=seq) for k in range(nin)]
        total = self.amount * nin - self.cfg.get("fee", 5000)
        if self.cfg.get("change"):
            touts = [self.TxOut(total - self.CHANGE_AMOUNT, self.P2WPKH(b"\x31" * 20)), self.TxOut(self.CHANGE_AMOUNT, self.change_spk)]
        else:
            touts = [self.TxOut(total, self.P2WPKH(b"\x31" * 20))]
        return self.Tx(self.cfg.get("version", 2), tins, touts, self.cfg.get("locktime", 0), network=self.net, segwit=bool(self.cfg.get("segflag")))

    def hd_pubs(self):
        from buidl.psbt import NamedHDPublicKey

        if self.cfg["stype"] not in MULTI:
            return {}
        accts = [NamedHDPublicKey.from_hd_priv(r, self.acct_path) for r in self.roots]
        style = self.cfg.get("hdkeys", "serialize")
        if style == "serialize":
            return {a.serialize(): a for a in accts}
        if style == "raw":
            return {a.raw_serialize(): a for a in accts}
        if style == "xpubstr":
            return {a.xpub(): a for a in accts}
        # caller-chosen labels whose order is the reverse of the order of the xpubs themselves
        ranked = sorted(accts, key=lambda a: a.raw_serialize())
        return {"signer-%d" % (len(ranked) - 1 - i): a for i, a in enumerate(ranked)}

    def lookups(self, without_change=False):
        pk, rl, wl = dict(self.pubkey_lookup), dict(self.redeem_lookup), dict(self.witness_lookup)
        if without_change:
            for k in self.change_lookup_keys["pubkey"]:
                pk.pop(k, None)
            for k in self.change_lookup_keys["redeem"]:
                rl.pop(k, None)
            for k in self.change_lookup_keys["witness"]:
                wl.pop(k, None)
        return {"tx_lookup": dict(self.tx_lookup), "pubkey_lookup": pk, "redeem_lookup": rl, "witness_lookup": wl}

    def create(self, without_change=False):
        from buidl.psbt import PSBT

        return PSBT.create(self.fresh_tx(), hd_pubs=self.hd_pubs(), **self.lookups(without_change))

    def bare(self):
        from buidl.psbt import PSBT

        return PSBT.create(self.fresh_tx())

    def create_then_update(self):
        from buidl.psbt import PSBT

        p = PSBT.create(self.fresh_tx())
        p.update(self.tx_lookup, self.pubkey_lookup, self.redeem_lookup, self.witness_lookup)
        hp = self.hd_pubs()
        if hp:
            p.hd_pubs = hp
        return p

    def leaf_private_keys(self, i):
        """private keys of signer i for every input script"""
        return [self.roots[i].traverse(self.leaf_paths[k]).private_key for k in range(self.cfg["nin"])]

    def built(self, subset, order=None):
        p = self.create()
        for i in order or sorted(subset):
            if not p.sign(self.roots[i]):
                raise RuntimeError("sign returned False")
        return p


def inject_unknown(raw):
    """Add unknown key-value pairs to the global map, every input map and every output map."""
    p = psbtref.parse(raw)
    p["global"].append(UNKNOWN_G)
    for m in p["ins"]:
        m.append(UNKNOWN_I)
    for m in p["outs"]:
        m.append(UNKNOWN_O)
    return psbtref.serialize(p)


def parse_lib(raw, network="mainnet"):
    from buidl.psbt import PSBT

    return PSBT.parse(BytesIO(raw), network=network)


def path_bytes(path):
    """'m/45h/0/3' -> concatenated little-endian uint32 (BIP174 derivation path encoding)"""
    import struct

    out = b""
    for c in path.split("/")[1:]:
        out += struct.pack("<I", (int(c[:-1]) | 0x80000000) if c[-1] in "h'" else int(c))
    return out


def subsets(n):
    out = []
    for r in range(n + 1):
        out += [frozenset(c) for c in itertools.combinations(range(n), r)]
    return out


def gen_workflow(toy):
    def g(tier, seed):
        cases = []
        if toy:
            nmax = 3 if tier == "quick" else 4
            for st in STYPES:
                if st in MULTI:
                    for n in range(1, nmax + 1):
                        for m in range(1, n + 1):
                            for nin in (1, 2) if tier == "quick" else (1, 2, 3):
                                cases.append({"stype": st, "m": m, "n": n, "nin": nin, "segflag": (m + n + nin) % 2, "shard": [0, 1], "toy": list(toy)})
                else:
                    for nin in (1, 2):
                        cases.append({"stype": st, "m": 1, "n": 1, "nin": nin, "segflag": nin % 2, "shard": [0, 1], "toy": list(toy)})
        else:
            cfgs = [("p2wsh", 2, 3, 1, 1, 8), ("p2sh", 1, 2, 1, 0, 4)] if tier == "quick" else [("p2wsh", 2, 3, 2, 1, 16), ("p2sh", 2, 2, 2, 0, 8), ("p2sh-p2wsh", 1, 2, 1, 1, 8), ("p2pkh", 1, 1, 1, 0, 2), ("p2wpkh", 1, 1, 2, 1, 2), ("p2sh-p2wpkh", 1, 1, 1, 1, 2), ("p2sh", 2, 3, 1, 1, 16), ("p2wsh", 3, 4, 1, 0, 32)]
            for st, m, n, nin, sf, K in cfgs:
                for k in range(K):
                    cases.append({"stype": st, "m": m, "n": n, "nin": nin, "segflag": sf, "shard": [k, K]})
        return cases

    return g


def run_workflow(case):
    res = Res()
    toy = tuple(case["toy"]) if case.get("toy") else None
    if toy:
        from buidl import pecc

        assert current_toy() == toy and pecc.N == toy[1]
    curve = ec.toy_curve(*toy) if toy else ec.SECP
    eng = f"workflow-toy{toy[0]}" if toy else "workflow-real"
    cfg = {k: case[k] for k in ("stype", "m", "n", "nin", "segflag")}
    label = f"{cfg['stype']}-{cfg['m']}of{cfg['n']}-{cfg['nin']}in"
    vc = {"engine": eng, "case": case}
    if toy:
        vc["toy"] = list(toy)
    k, K = case["shard"]
    W = attempt(Wallet, cfg, toy)
    if isinstance(W, Rejected):
        if toy:
            res.ok("degenerate toy wallet (zero child key)")
            return res
        raise RuntimeError("wallet construction failed on the real curve")
    n, m = cfg["n"], cfg["m"]
    counter = [0]

    def mine():
        counter[0] += 1
        return (counter[0] - 1) % K == k

    # ---- canonical state of every subset: created with lookups, signed in ascending order, serialised
    base = attempt(W.create)
    if isinstance(base, Rejected):
        res.violation(f"C10/{eng}/create/{cfg['stype']}", vc, repr(base), "PSBT", f"{label}: PSBT.create with lookups fails")
        return res
    raw0 = attempt(base.serialize)
    try:
        raw0u = inject_unknown(raw0)
    except Exception as e:
        cls = "segwit-flagged-tx-embedded-in-witness-format" if cfg["segflag"] else "unreadable"
        res.violation(f"C10/{eng}/embedded-tx/{cls}", vc, f"reference BIP174 reader: {e}", "non-witness unsigned tx with empty scriptSigs", f"{label}: serialised PSBT is not readable by an independent BIP174 reader")
        return res
    canon = {}
    for S in subsets(n):
        if S:
            p = attempt(W.built, S)
            if isinstance(p, Rejected):
                res.violation(f"C10/{eng}/sign/{cfg['stype']}", vc, repr(p), "signed", f"{label}: signing with subset {sorted(S)} fails")
                return res
            raw = attempt(p.serialize)
        else:
            raw = raw0
        # all states carry the injected unknown pairs: re-parse the canonical bytes with them added
        rawu = inject_unknown(raw)
        pu = attempt(parse_lib, rawu)
        if isinstance(pu, Rejected):
            res.violation(f"C10/{eng}/parse-own/{cfg['stype']}", vc, repr(pu), "parses", f"{label}: PSBT produced by the library (+ unknown pairs) does not parse, subset {sorted(S)}")
            return res
        canon[S] = attempt(pu.serialize)
    res.states += len(canon) if k == 0 else 0

    def obj(S, flavour):
        """A live PSBT object for subset S: 'parsed' from canonical bytes, or 'built' in-process (then unknown
        pairs are absent, which combine must tolerate)."""
        if flavour == "parsed":
            return parse_lib(canon[S])
        return W.built(S)

    def check_target(got_raw, T, what, fp):
        res.transitions += 1
        if got_raw != canon[T]:
            # localise: does it at least re-parse to the canonical form?
            again = attempt(lambda: parse_lib(got_raw).serialize()) if isinstance(got_raw, bytes) else None
            cls = fp + ("/not-idempotent" if again == canon[T] else "/different-psbt")
            res.violation(f"C10/{eng}/{cls}", vc, got_raw if not isinstance(got_raw, bytes) else got_raw[:60].hex() + f"..({len(got_raw)} bytes)", canon[T][:60].hex() + f"..({len(canon[T])} bytes)", f"{label}: {what} does not give the canonical PSBT of subset {sorted(T)}")
            return False
        res.ok(f"{fp.split('/')[0]} -> canonical", nontrivial=(label, what), sample={"config": label, "transition": what, "target_subset": sorted(T)})
        return True

    # ---- create + update == create with lookups
    if mine():
        cu = attempt(lambda: W.create_then_update().serialize())
        if cu != raw0:
            res.violation(f"C10/{eng}/create-update-differs/{cfg['stype']}", vc, cu if not isinstance(cu, bytes) else cu[:80].hex(), raw0[:80].hex(), f"{label}: bare create followed by update(lookups) differs from create(lookups)")
        else:
            res.ok("create+update == create(lookups)", nontrivial=(label, "cu"))
    # ---- per-state invariants
    for S in subsets(n):
        if not mine():
            continue
        raw = canon[S]
        # idempotent re-serialisation
        again = attempt(lambda: parse_lib(raw).serialize())
        if again != raw:
            res.violation(f"C10/{eng}/reserialize-not-idempotent/{cfg['stype']}", vc, repr(again)[:80], "same bytes", f"{label}: parse->serialize changes the PSBT of subset {sorted(S)}")
            continue
        # independent reader: unsigned tx format, unknown pairs and xpubs survive
        try:
            r = psbtref.parse(raw)
        except Exception as e:
            res.violation(f"C10/{eng}/embedded-tx/unreadable", vc, str(e), "readable", f"{label}: canonical PSBT not readable by the reference BIP174 reader")
            continue
        ok = UNKNOWN_G in r["global"] and all(UNKNOWN_I in mm for mm in r["ins"]) and all(UNKNOWN_O in mm for mm in r["outs"])
        nx = sum(1 for kk, _ in r["global"] if kk[:1] == b"\x01")
        if not ok:
            res.violation(f"C10/{eng}/unknown-pairs-lost", vc, "missing", "present", f"{label}: injected unknown key-value pairs do not survive (subset {sorted(S)})")
        elif cfg["stype"] in MULTI and nx != n:
            res.violation(f"C10/{eng}/global-xpubs-lost", vc, nx, n, f"{label}: global xpubs do not survive")
        else:
            res.ok("state: idempotent, non-witness unsigned tx, unknown pairs & xpubs survive", nontrivial=(label, "state", tuple(sorted(S))))
        # finalize + extract
        post = {}

        def fin():
            p = parse_lib(raw)
            p.finalize()
            post["finalized"] = p.serialize()
            tx = p.final_tx()
            # extraction must leave the PSBT itself untouched and serialisable
            post["after_extract"] = p.serialize()
            return tx

        ft = attempt(fin)
        if not isinstance(ft, Rejected):
            bad = None
            if post.get("after_extract") != post.get("finalized"):
                bad = "final_tx() changed the serialisation of the PSBT it was extracted from"
            else:
                try:
                    psbtref.parse(post["finalized"])
                except Exception as e:
                    bad = f"finalized PSBT not readable by the reference BIP174 reader: {e}"
                else:
                    again = attempt(lambda: parse_lib(post["finalized"]).serialize())
                    if again != post["finalized"]:
                        bad = "finalized PSBT does not re-serialise to the same bytes"
            if bad:
                res.violation(f"C10/{eng}/post-extraction/{cfg['stype']}", vc, bad, "unchanged, readable, idempotent", f"{label}: subset {sorted(S)}: {bad}")
            else:
                res.ok("finalized PSBT: unchanged by extraction, readable, idempotent")
        need = m if cfg["stype"] in MULTI else 1
        if len(S) >= need:
            if isinstance(ft, Rejected):
                res.violation(f"C10/{eng}/finalize-fails/{cfg['stype']}", vc, repr(ft), "final tx", f"{label}: {len(S)} >= {need} signers but finalize/final_tx fails")
                continue
            atx = abstract(ft)
            spent = [(W.amount, W.spks[i].raw_serialize()) for i in range(cfg["nin"])]
            bad = [i for i in range(cfg["nin"]) if not interp.verify_input(atx, i, spent, curve)]
            if bad:
                res.violation(f"C10/{eng}/final-tx-invalid/{cfg['stype']}", vc, f"inputs {bad} invalid", "valid", f"{label}: extracted transaction does not verify under the reference consensus verifier")
            else:
                res.ok("finalize+extract: reference-valid", nontrivial=(label, "final", tuple(sorted(S))))
        else:
            if not isinstance(ft, Rejected):
                atx = abstract(ft)
                spent = [(W.amount, W.spks[i].raw_serialize()) for i in range(cfg["nin"])]
                valid = all(interp.verify_input(atx, i, spent, curve) for i in range(cfg["nin"]))
                res.violation(f"C10/{eng}/finalize-below-threshold/{cfg['stype']}", vc, f"final tx extracted (reference valid: {valid})", "failure", f"{label}: only {len(S)} of {need} required signers but a final transaction is extracted")
            else:
                res.ok("below threshold: refused", nontrivial=(label, "refuse", tuple(sorted(S))))
        # every partial signature replaced by one that does not verify -> parse must raise
        try:
            r = psbtref.parse(raw)
        except Exception:
            continue
        for ii, mm in enumerate(r["ins"]):
            for j, (kk, vv) in enumerate(mm):
                if kk[:1] != b"\x02":
                    continue
                for how in ("s+1", "other-msg", "s+1/ht02", "s+1/ht03", "s+1/ht81", "other-msg/ht83", "same-rs/ht02", "same-rs/ht03", "same-rs/ht81"):
                    rs = ec.der_parse_strict(vv[:-1])
                    if rs is None:
                        continue
                    # the altered signature keeps its sighash byte, or carries another standard one
                    htb = bytes([int(how.split("/ht")[1], 16)]) if "/ht" in how else vv[-1:]
                    if how.startswith("same-rs"):
                        # the untouched (r, s) under another sighash byte: it signs the SIGHASH_ALL digest, not the one its byte names
                        nv = vv[:-1] + htb
                    elif how.startswith("s+1"):
                        nv = ec.der_sig(rs[0], (rs[1] % (curve.n - 1)) + 1 if (rs[1] % (curve.n - 1)) + 1 != rs[1] else 1) + htb
                    else:
                        nv = (ec.der_sig(rs[1], rs[0]) if rs[0] != rs[1] else ec.der_sig(rs[0], (rs[1] + 2) % curve.n or 1)) + htb
                    r2 = psbtref.parse(raw)
                    r2["ins"][ii][j] = (kk, nv)
                    # is the altered signature really invalid? (on toy groups it may verify by chance)
                    Q = curve.parse_sec(kk[1:])
                    z = psbt_digest(W, cfg, r2["tx"], ii, htb[0])
                    nrs = ec.der_parse_strict(nv[:-1])
                    if Q is not None and nrs and curve.ecdsa_verify(Q, z, nrs[0], nrs[1]):
                        res.ok("altered partial signature still verifies (toy collision): not asserted")
                        continue
                    got = attempt(parse_lib, psbtref.serialize(r2))
                    if not isinstance(got, Rejected):
                        cls = "bad-partial-sig-accepted" if not how.startswith("same-rs") else "partial-sig-checked-against-SIGHASH_ALL-whatever-its-sighash-byte"
                        res.violation(f"C10/{eng}/{cls}/{cfg['stype']}", vc, "parsed", "rejected", f"{label}: partial signature that does not verify ({how}) is accepted when the PSBT is loaded")
                    else:
                        res.ok("bad partial signature rejected at load", nontrivial=(label, "badsig", tuple(sorted(S)), ii, j, how))
    # ---- transitions
    need_sigs = m if cfg["stype"] in MULTI else 1
    final_canon = {}

    def canon_final(T):
        """serialised final transaction of the canonical PSBT of subset T (parse -> finalize -> final_tx)"""
        if T not in final_canon:

            def f():
                p = parse_lib(canon[T])
                p.finalize()
                return txref.ser_tx(abstract(p.final_tx()))

            final_canon[T] = attempt(f)
        return final_canon[T]

    def check_final(make, T, what, fp):
        def f():
            p = make()
            p.finalize()
            # compared field by field (re-encoded by the reference writer): scriptSigs, witnesses, outputs, ... —
            # not the library's choice of legacy / segwit framing, which follows the segwit flag of the Tx object
            return txref.ser_tx(abstract(p.final_tx()))

        got, want = attempt(f), canon_final(T)
        res.transitions += 1
        if isinstance(want, Rejected):
            return  # reported by the state invariants
        if got != want:
            res.violation(f"C10/{eng}/final-tx-depends-on-order/{fp}/{cfg['stype']}", vc, repr(got)[:120] if isinstance(got, Rejected) else got[:60].hex() + f"..({len(got)} bytes)", want[:60].hex() + f"..({len(want)} bytes)", f"{label}: final transaction of the {what} differs from the final transaction of the canonical PSBT of subset {sorted(T)}")
        else:
            res.ok("final tx independent of order", nontrivial=(label, "final-order", what))

    flavours = ("parsed", "built")
    # on the real curve building an object costs seconds: built<-built is left to the toy engine
    combine_flavours = [(a, b) for a in flavours for b in flavours if toy or (a, b) != ("built", "built")]
    for S in subsets(n):
        # sign(i) from every flavour, every order
        for i in range(n):
            if i in S:
                continue
            for fl in flavours:
                if not mine():
                    continue
                T = S | {i}

                def f():
                    p = obj(S, fl)
                    if not p.sign(W.roots[i]):
                        raise RuntimeError("sign returned False")
                    raw = p.serialize()
                    if fl == "built":
                        raw = parse_lib(inject_unknown(raw)).serialize()
                    return raw

                check_target(attempt(f), T, f"sign({i}) on {fl} PSBT of {sorted(S)}", f"sign/{fl}")
        # signing in every permutation order (built object)
        if len(S) >= 2:
            for order in itertools.permutations(sorted(S)):
                if not mine():
                    continue
                raw = attempt(lambda: parse_lib(inject_unknown(W.built(S, order).serialize())).serialize())
                check_target(raw, S, f"signing order {list(order)}", "sign-order")
                # ... and the FINAL TRANSACTION extracted from the in-memory object signed in that order (no
                # serialise/parse in between, which would re-order the partial signatures) must not depend on the order
                if len(S) >= need_sigs:
                    check_final(lambda: W.built(S, order), S, f"in-memory PSBT signed in order {list(order)}", "sign-order")
        # combine with every reachable PSBT, every flavour pair
        for T in subsets(n):
            for fa, fb in combine_flavours:
                if True:
                    if not mine():
                        continue
                    U = S | T

                    def f():
                        a, b = obj(S, fa), obj(T, fb)
                        a.combine(b)
                        raw = a.serialize()
                        if fa == "built" and fb == "built":
                            raw = parse_lib(inject_unknown(raw)).serialize()
                        return raw

                    check_target(attempt(f), U, f"combine({fa} {sorted(S)} <- {fb} {sorted(T)})", f"combine/{fa}<-{fb}")
                    if toy and len(U) >= need_sigs and S and T and not (S <= T or T <= S):
                        # the final transaction of the in-memory result of a combine (toy instance only: cost)
                        def g():
                            a, b = obj(S, fa), obj(T, fb)
                            a.combine(b)
                            return a

                        check_final(g, U, f"in-memory combine({fa} {sorted(S)} <- {fb} {sorted(T)})", "combine")
    return res


def abstract(ltx):
    ins = [{"prev": bytes(i.prev_tx), "index": i.prev_index, "script": i.script_sig.raw_serialize(), "seq": int(i.sequence), "witness": [bytes(x) for x in i.witness.items]} for i in ltx.tx_ins]
    return {
        "version": ltx.version,
        "locktime": int(ltx.locktime),
        "segwit": any(i["witness"] for i in ins),
        "ins": ins,
        "outs": [{"amount": o.amount, "script": o.script_pubkey.raw_serialize()} for o in ltx.tx_outs],
    }


def psbt_digest(W, cfg, tx, ii, ht=1):
    """Reference digest a partial signature of input ii with sighash byte ht must sign."""
    st = cfg["stype"]
    spk = W.spks[ii].raw_serialize()
    utx = dict(tx, segwit=False)
    if st == "p2pkh":
        return int.from_bytes(txref.sighash_legacy(utx, ii, spk, ht), "big")
    if st == "p2sh":
        sc = [r for r in W.redeem_lookup.values() if r.script_pubkey().raw_serialize() == spk][0].raw_serialize()
        return int.from_bytes(txref.sighash_legacy(utx, ii, sc, ht), "big")
    if st in ("p2wpkh", "p2sh-p2wpkh"):
        h = [x for x in W.pubkey_lookup.values()]
        # script code of P2WPKH: the P2PKH script of the key hash committed to by this input
        if st == "p2wpkh":
            kh = spk[2:]
        else:
            redeem = [r for r in W.redeem_lookup.values() if r.script_pubkey().raw_serialize() == spk][0].raw_serialize()
            kh = redeem[2:]
        sc = b"\x76\xa9\x14" + kh + b"\x88\xac"
    else:
        ws = None
        for w in W.witness_lookup.values():
            prog = b"\x00\x20" + txref.sha256(w.raw_serialize())
            if st == "p2wsh" and prog == spk:
                ws = w
            if st == "p2sh-p2wsh" and b"\xa9\x14" + txref.h160(prog) + b"\x87" == spk:
                ws = w
        sc = ws.raw_serialize()
    return int.from_bytes(txref.sighash_bip143(utx, ii, sc, W.amount, ht), "big")


# ---------------------------------------------------------------------------------------------------------------
# "forms" engines: input classes of the statement the workflow engines never build (one class per case)
# ---------------------------------------------------------------------------------------------------------------
SEGWIT_TYPES = ("p2wpkh", "p2sh-p2wpkh", "p2wsh", "p2sh-p2wsh")
NET_PATHS = ("m/45h", "m/48h/0h/0h/2h", "m/48h/1h/0h/2h")
LOOKUP_NAMES = ("tx_lookup", "pubkey_lookup", "redeem_lookup", "witness_lookup")


FORMS_RULE = (
    "one input class per case, each decided against the reference BIP174 container reader/writer (mc.ref.psbtref), reference tx codec and "
    "consensus verifier; in every form each PSBT built in-process must serialise to exactly the bytes its own parse->serialize gives. "
    "change: the spend pays change back to the wallet - unsigned tx, every input map and every output map of create(lookups) equal the maps "
    "assembled from the BIPs, create+update == create(lookups), the same PSBT with the change output map written by the reference writer "
    "parses to the same bytes, every signing order, combine of every ordered pair of signer subsets in both directions with the other PSBT "
    "as is and with its output maps emptied gives the canonical PSBT of the union, finalize+final_tx reference-valid iff >= m signers. "
    "utxo-both / utxo-nwu-only (segwit types): every state rewritten so that each input carries non_witness_utxo in addition to / instead of "
    "witness_utxo; sighash-field: PSBT_IN_SIGHASH_TYPE=1 added to every state (0x81, 0x83, 0x02 on the unsigned state, codec only) - parse "
    "must accept, keep every key-value pair, produce bytes it can load again idempotently; the remaining signers sign the parsed PSBT, "
    "the result loads and finalises to a reference-valid tx iff >= m; combined with every canonical state in both directions gives one "
    "loadable union. noutxo-badsig: every partial signature of every state replaced by (r, s+1) with the UTXO fields of that input (of all "
    "inputs) removed must make PSBT.parse fail. update: bare create, update(L), update(all) == create(lookups) for every subset L of the "
    "four lookups; on every parsed state update(L) removes no key-value pair, stays loadable and idempotent, twice == once. hdkeys: "
    "hd_pubs dict keyed by raw xpub / xpub string / labels in reverse order. network: wallet on mainnet/testnet x account path m/45h, "
    "m/48h/0h/0h/2h, m/48h/1h/0h/2h x parse network {default None, the wallet's} x {bytes, base64 entry points}: identical bytes. swpk: "
    "sign_with_private_keys with the leaf keys of every signer subset in every order, with and without a foreign key, equals sign(). "
    "txparams: fee {2000, 5000, 123456} x version {1, 2} x locktime {0, 500000} x sequence {0xffffffff, 0xfffffffd} x funding tx "
    "legacy/segwit-serialised: maps equal the reference construction, extracted tx reference-valid with exactly the configured fields."
)


def gen_forms(toy):
    def g(tier, seed):
        cases = []
        thorough = tier == "thorough"

        def add(cfg, form, **kw):
            st, m, n, nin, sf = cfg
            c = {"stype": st, "m": m, "n": n, "nin": nin, "segflag": sf, "form": form}
            c.update(kw)
            if toy:
                c["toy"] = list(toy)
            cases.append(c)

        def txparam_variants(full):
            out = []
            for fee in (2000, 5000, 123456) if full else (5000,):
                for ver in (1, 2):
                    for lt in (0, 500000):
                        for seq in (0xFFFFFFFF, 0xFFFFFFFD):
                            for ps in (0, 1):
                                out.append({"fee": fee, "version": ver, "locktime": lt, "sequence": seq, "prevseg": ps})
            if not full:
                out += [{"fee": f, "version": 2, "locktime": 0, "sequence": 0xFFFFFFFF, "prevseg": 0} for f in (2000, 123456)]
            return out

        if toy:
            cfgs = []
            for st in STYPES:
                if st in MULTI:
                    shapes = [(2, 3, 1), (1, 2, 2)] if not thorough else [(m, n, nin) for n in (1, 2, 3) for m in range(1, n + 1) for nin in (1, 2)] + [(2, 4, 1), (3, 4, 1), (2, 3, 3)]
                else:
                    shapes = [(1, 1, 2)] if not thorough else [(1, 1, 1), (1, 1, 2), (1, 1, 3)]
                for m, n, nin in shapes:
                    cfgs.append((st, m, n, nin, (m + nin) % 2))
            first = {}
            for cfg in cfgs:
                st = cfg[0]
                first.setdefault(st, cfg)
                add(cfg, "change")
                if thorough:
                    add(cfg[:4] + (1 - cfg[4],), "change")
                add(cfg, "update")
                add(cfg, "swpk")
                add(cfg, "noutxo-badsig")
                add(cfg, "sighash-field")
                if st in SEGWIT_TYPES:
                    add(cfg, "utxo-both")
                    add(cfg, "utxo-nwu-only")
                if st in MULTI:
                    for style in ("raw", "xpubstr", "revlabel"):
                        add(cfg, "hdkeys", style=style)
                if st in MULTI or st == "p2wpkh":
                    if thorough or cfg == first[st]:
                        for net in ("mainnet", "testnet"):
                            for acct in NET_PATHS:
                                add(cfg, "network", net=net, acct=acct)
                if thorough or cfg == first[st]:
                    for v in txparam_variants(thorough):
                        add(cfg, "txparams", **v)
        else:
            if not thorough:
                # (the cheapest case first: chunk 0 is the one that is executed twice by the order-perturbed replay)
                plan = [(("p2wsh", 2, 2, 1, 1), ("noutxo-badsig", "utxo-both", "utxo-nwu-only")), (("p2sh-p2wpkh", 1, 1, 1, 0), ("change",))]
            else:
                allf = ("change", "update", "swpk", "noutxo-badsig", "sighash-field", "utxo-both", "utxo-nwu-only", "hdkeys", "network", "txparams")
                plan = [((st, 2, 3, 1, 1) if st in MULTI else (st, 1, 1, 2, 0), allf) for st in STYPES]
            for cfg, forms in plan:
                st = cfg[0]
                for f in forms:
                    if f in ("utxo-both", "utxo-nwu-only") and st not in SEGWIT_TYPES:
                        continue
                    if f == "hdkeys":
                        if st in MULTI:
                            add(cfg, f, style="revlabel")
                    elif f == "network":
                        if st in MULTI:
                            for net, acct in (("testnet", "m/45h"), ("mainnet", "m/48h/1h/0h/2h"), ("testnet", "m/48h/1h/0h/2h")):
                                add(cfg, f, net=net, acct=acct)
                    elif f == "txparams":
                        for v in ({"fee": 2000, "version": 1, "locktime": 500000, "sequence": 0xFFFFFFFD, "prevseg": 1}, {"fee": 123456, "version": 2, "locktime": 0, "sequence": 0xFFFFFFFF, "prevseg": 1}):
                            add(cfg, f, **v)
                    elif not thorough:
                        add(cfg, f, lite=1)
                    else:
                        add(cfg, f)
        return cases

    return g


def kv_lost(before, after):
    """(map name, key) of every key-value pair of PSBT bytes `before` that PSBT bytes `after` does not carry."""
    a, b = psbtref.parse(before), psbtref.parse(after)
    lost = []
    for name, ma, mb in [("global", a["global"], b["global"])] + [(f"in{i}", x, y) for i, (x, y) in enumerate(zip(a["ins"], b["ins"]))] + [(f"out{i}", x, y) for i, (x, y) in enumerate(zip(a["outs"], b["outs"]))]:
        have = set(mb)
        lost += [(name, k) for k, v in ma if (k, v) not in have]
    return lost


def lost_fingerprint(lost, default):
    """one defect, one fingerprint: witness_utxo dropped from an input map (the serialiser writes it only when the input has no
    non_witness_utxo) is the same root cause in every form; anything else keeps the form's own class"""
    if lost and all(name.startswith("in") and k == b"\x01" for name, k in lost):
        return "witness-utxo-dropped-next-to-non-witness-utxo"
    return default


def lost_classes(lost):
    return sorted({f"{name.rstrip('0123456789')}-key-{k[:1].hex()}" for name, k in lost})


def run_forms(case):
    import base64
    import struct

    res = Res()
    toy = tuple(case["toy"]) if case.get("toy") else None
    if toy:
        from buidl import pecc

        assert current_toy() == toy and pecc.N == toy[1]
    curve = ec.toy_curve(*toy) if toy else ec.SECP
    eng = f"forms-toy{toy[0]}" if toy else "forms-real"
    form = case["form"]
    cfg = {k: case[k] for k in ("stype", "m", "n", "nin", "segflag")}
    if form in ("change", "update"):
        cfg["change"] = 1
    if form == "network":
        cfg["net"], cfg["acct"] = case["net"], case["acct"]
    if form == "hdkeys":
        cfg["hdkeys"] = case["style"]
    if form == "txparams":
        for k in ("fee", "version", "locktime", "sequence", "prevseg"):
            cfg[k] = case[k]
    st, m, n, nin = cfg["stype"], cfg["m"], cfg["n"], cfg["nin"]
    need = m if st in MULTI else 1
    net = cfg.get("net", "mainnet")
    label = f"{st}-{m}of{n}-{nin}in/{form}"
    vc = {"engine": eng, "case": case}
    if toy:
        vc["toy"] = list(toy)

    def V(cls, observed, expected, what):
        res.violation(f"C10/{eng}/{cls}", vc, observed, expected, f"{label}: {what}")

    def P(raw, network=net):
        return parse_lib(raw, network)

    W = attempt(Wallet, cfg, toy)
    if isinstance(W, Rejected):
        if toy:
            res.ok("degenerate toy wallet (zero child key)")
            return res
        raise RuntimeError("wallet construction failed on the real curve")
    full = frozenset(range(n))
    all_subsets = subsets(n)
    spent = [(W.amount, W.ref_scripts[i]["spk"]) for i in range(nin)]

    base = attempt(W.create)
    if isinstance(base, Rejected):
        cls = f"change-output/create-rejected/{st}" if cfg.get("change") else f"create/{st}"
        V(cls, repr(base), "PSBT", "PSBT.create with every lookup fails" + (" when the transaction pays change back to the wallet" if cfg.get("change") else ""))
        base = None
    raw0 = attempt(base.serialize) if base is not None else None
    states = {}

    def state(S):
        """serialised PSBT built in-process and signed by S (ascending); first use also checks built == re-parsed"""
        S = frozenset(S)
        if S in states:
            return states[S]
        if base is None:
            states[S] = None
            return None
        raw = raw0 if not S else attempt(lambda: W.built(S).serialize())
        if not isinstance(raw, bytes):
            V(f"sign/{st}", repr(raw), "signed", f"signing with subset {sorted(S)} fails")
            states[S] = None
            return None
        again = attempt(lambda: P(raw).serialize())
        if again != raw:
            kind = "unloadable"
            if isinstance(again, bytes):
                a, b = psbtref.parse(raw), psbtref.parse(again)
                same_content = sorted(a["global"]) == sorted(b["global"]) and a["ins"] == b["ins"] and a["outs"] == b["outs"]
                kind = "global-xpub-order" if same_content else "content"
            V(f"built-reserialize-differs/{kind}", repr(again)[:80] if not isinstance(again, bytes) else again[:60].hex(), "the bytes the built object serialised to", f"a PSBT built in-process (signers {sorted(S)}) serialises to bytes that parse->serialize does not reproduce")
        else:
            res.ok("built PSBT == its own re-parse, byte for byte", nontrivial=(label, "built", tuple(sorted(S))))
        states[S] = raw
        return raw

    def finalize_extract(raw):
        p = P(raw)
        p.finalize()
        return p.final_tx()

    def check_final(raw, nsig, cls, what):
        """finalize + final_tx on parse(raw): must give a reference-valid tx with the configured fields iff nsig >= need"""
        ft = attempt(finalize_extract, raw)
        if nsig < need:
            if not isinstance(ft, Rejected):
                V(f"{cls}/finalize-below-threshold", "final tx extracted", "failure", f"{what}: only {nsig} of {need} required signers but a final transaction is extracted")
            else:
                res.ok("below threshold: refused")
            return
        if isinstance(ft, Rejected):
            V(f"{cls}/finalize-fails", repr(ft), "final tx", f"{what}: {nsig} >= {need} signers but finalize/final_tx fails")
            return
        atx = abstract(ft)
        bad = [i for i in range(nin) if not interp.verify_input(atx, i, spent, curve)]
        exp = W.ref_unsigned
        fields = (atx["version"], atx["locktime"], [i["seq"] for i in atx["ins"]], [(i["prev"], i["index"]) for i in atx["ins"]], atx["outs"])
        want = (exp["version"], exp["locktime"], [i["seq"] for i in exp["ins"]], [(i["prev"], i["index"]) for i in exp["ins"]], exp["outs"])
        if bad:
            V(f"{cls}/final-tx-invalid", f"inputs {bad} invalid", "valid", f"{what}: extracted transaction does not verify under the reference consensus verifier")
        elif fields != want:
            V(f"{cls}/final-tx-fields", fields, want, f"{what}: extracted transaction differs from the configured one (version/locktime/sequence/outpoints/outputs)")
        else:
            res.ok("finalize+extract: reference-valid, configured fields", nontrivial=(label, what))

    def check_maps(raw, cls_out):
        """global unsigned tx, input maps and output maps of a fully updated PSBT against the reference construction"""
        r = psbtref.parse(raw)
        exp_ins, exp_outs = W.expected_maps()
        if txref.ser_stripped(r["tx"]) != txref.ser_stripped(W.ref_unsigned):
            V("create-update/unsigned-tx-differs", txref.ser_stripped(r["tx"]).hex(), txref.ser_stripped(W.ref_unsigned).hex(), "embedded unsigned transaction is not the configured one")
            return
        got_ins = [{k: v for k, v in mm if k[:1] != b"\x02"} for mm in r["ins"]]
        if got_ins != exp_ins:
            i = [a != b for a, b in zip(got_ins, exp_ins)].index(True)
            V(f"create-update/input-map-differs/{st}", sorted(got_ins[i].items()), sorted(exp_ins[i].items()), f"input map {i} of the updated PSBT is not the one BIP174 prescribes")
            return
        got_outs = [dict(mm) for mm in r["outs"]]
        if got_outs != exp_outs:
            i = [a != b for a, b in zip(got_outs, exp_outs)].index(True)
            V(f"{cls_out}/{st}", sorted(got_outs[i].items()), sorted(exp_outs[i].items()), f"output map {i} of the updated PSBT is not the one BIP174 prescribes")
            return
        res.ok("updated PSBT: unsigned tx, input maps, output maps == reference construction", nontrivial=(label, "maps"))

    def nsigs(raw):
        return [sum(1 for k, _ in mm if k[:1] == b"\x02") for mm in psbtref.parse(raw)["ins"]]

    # =========================================================================================== change
    if form == "change":
        if raw0 is not None:
            check_maps(raw0, "change-output/map-differs")
            cu = attempt(lambda: W.create_then_update().serialize())
            if cu != raw0:
                V(f"create-update-differs/{st}", cu if not isinstance(cu, bytes) else cu[:80].hex(), raw0[:80].hex(), "bare create followed by update(lookups) differs from create(lookups)")
            else:
                res.ok("create+update == create(lookups)", nontrivial=(label, "cu"))
        # the same PSBT as another Updater would write it: the change output map filled in through the reference writer
        nochange = attempt(lambda: W.create(without_change=True).serialize())
        if isinstance(nochange, bytes):
            r = psbtref.parse(nochange)
            exp_outs = W.expected_maps()[1]
            r["outs"] = [sorted(d.items()) for d in exp_outs]
            x = psbtref.serialize(r)
            got = attempt(lambda: P(x).serialize())
            if isinstance(got, Rejected):
                V(f"change-output/parse-rejected/{st}", repr(got), "parses", "a PSBT whose change output carries redeem/witness script and BIP32 derivations (written by the reference BIP174 writer) is rejected by PSBT.parse")
            elif raw0 is not None and got != raw0:
                V(f"change-output/parse-differs/{st}", got[:80].hex(), raw0[:80].hex(), "reference-written change output map parses to a different PSBT than create(lookups)")
            else:
                res.ok("reference-written change output map parses", nontrivial=(label, "refchange"))
        else:
            V(f"create/{st}", repr(nochange), "PSBT", "PSBT.create without change metadata fails")
        if raw0 is None:
            return res
        sub = all_subsets if toy else list(dict.fromkeys([frozenset(), frozenset([0]), frozenset([n - 1]), full]))
        canon = {S: state(S) for S in sub}
        if any(v is None for v in canon.values()):
            return res
        for order in itertools.permutations(range(n)):
            if list(order) == sorted(order):
                continue
            raw = attempt(lambda: W.built(full, order).serialize())
            if raw != canon[full]:
                V("change-output/sign-order", repr(raw)[:80], "canonical", f"signing order {list(order)} gives a different PSBT")
            else:
                res.ok("sign order -> canonical", nontrivial=(label, "order", order))
        for S in sub:
            check_final(canon[S], len(S), "change-output", f"subset {sorted(S)}")
            for T in sub:
                U = S | T
                if U not in canon:
                    continue
                # T once as is, once with its output maps emptied (a signer that strips output metadata)
                rT = psbtref.parse(canon[T])
                rT["outs"] = [[] for _ in rT["outs"]]
                for tname, tb in (("full", canon[T]), ("outputs-stripped", psbtref.serialize(rT))):
                    for direction in ("a<-b", "b<-a"):

                        def f():
                            a, b = P(canon[S]), P(tb)
                            if direction == "a<-b":
                                a.combine(b)
                                return a.serialize()
                            b.combine(a)
                            return b.serialize()

                        got = attempt(f)
                        res.transitions += 1
                        if got != canon[U]:
                            V("change-output/combine", repr(got)[:80] if not isinstance(got, bytes) else got[:60].hex(), canon[U][:60].hex(), f"combine {direction} of {sorted(S)} with {tname} {sorted(T)} does not give the canonical PSBT of {sorted(U)}")
                        else:
                            res.ok("combine -> canonical", nontrivial=(label, "comb", tuple(sorted(S)), tuple(sorted(T)), tname, direction))
        return res

    if raw0 is None:
        return res

    # =========================================================================================== hdkeys
    if form == "hdkeys":
        for S in (frozenset(), frozenset([0])):
            raw = state(S)
            if raw is None:
                continue
            nx = sum(1 for kk, _ in psbtref.parse(raw)["global"] if kk[:1] == b"\x01")
            if nx != n:
                V("global-xpubs-lost", nx, n, "global xpubs missing from the built PSBT")
            canonical = attempt(lambda: P(raw).serialize())
            for direction in ("built<-parsed", "parsed<-built"):

                def f():
                    a, b = (W.built(S) if S else W.create()), P(raw)
                    if direction == "built<-parsed":
                        a.combine(b)
                        return a.serialize()
                    b.combine(a)
                    return b.serialize()

                got = attempt(f)
                if isinstance(canonical, bytes) and got != canonical:
                    V(f"hdkeys/combine/{direction}", repr(got)[:80], "canonical", f"combine {direction} with hd_pubs keyed by {case['style']} does not give the re-parsed PSBT")
                else:
                    res.ok("combine with caller-keyed hd_pubs -> canonical", nontrivial=(label, case["style"], direction, tuple(S)))
        return res

    # =========================================================================================== foreign input maps
    if form in ("utxo-both", "utxo-nwu-only", "sighash-field"):
        prev_raw = txref.ser_tx(W.ref_prev)

        def rewrite(raw, value=1):
            r = psbtref.parse(raw)
            for ii, mm in enumerate(r["ins"]):
                if form == "utxo-both":
                    assert any(k == b"\x01" for k, _ in mm) and not any(k == b"\x00" for k, _ in mm)
                    mm.insert(0, (b"\x00", prev_raw))
                elif form == "utxo-nwu-only":
                    assert any(k == b"\x01" for k, _ in mm)
                    r["ins"][ii] = [((b"\x00", prev_raw) if k == b"\x01" else (k, v)) for k, v in mm]
                else:
                    mm.append((b"\x03", struct.pack("<I", value)))
            return psbtref.serialize(r)

        sub = all_subsets if toy else list(dict.fromkeys([frozenset(), full] if case.get("lite") else [frozenset(), frozenset([0]), full]))
        canon = {S: state(S) for S in sub}
        if any(v is None for v in canon.values()):
            return res
        F = f"foreign-input-map/{form}"

        def codec(x, what):
            p = attempt(P, x)
            if isinstance(p, Rejected):
                V(f"{F}/honest-rejected", repr(p), "parses", f"{what}: BIP174-valid PSBT with honest content is rejected by PSBT.parse")
                return False
            s1 = attempt(p.serialize)
            if not isinstance(s1, bytes):
                V(f"{F}/serialize-fails", repr(s1), "bytes", f"{what}: parsed PSBT cannot be serialised")
                return False
            lost = kv_lost(x, s1)
            if lost:
                V(lost_fingerprint(lost, f"{F}/field-lost"), lost_classes(lost), "every key-value pair kept", f"{what}: parse->serialize drops key-value pairs")
            again = attempt(lambda: P(s1).serialize())
            if isinstance(again, Rejected):
                V(f"{F}/own-output-rejected", repr(again), "parses", f"{what}: the library cannot load the PSBT it serialised")
                return False
            if again != s1:
                V(f"{F}/not-idempotent", again[:60].hex(), s1[:60].hex(), f"{what}: re-serialisation changes the bytes")
                return False
            if not lost:
                res.ok("foreign input map: accepted, lossless, own output loadable, idempotent", nontrivial=(label, what))
            return True

        if form == "sighash-field":
            for value in (0x81, 0x83, 0x02):
                codec(rewrite(canon[frozenset()], value), f"unsigned, sighash type {value:#x}")
        for S in sub:
            x = rewrite(canon[S])
            what = f"signers {sorted(S)}"
            if not codec(x, what):
                continue
            # finish the workflow from the foreign form: below threshold refused, then the missing signers sign
            check_final(x, len(S), F, what)

            def complete():
                q = P(x)
                for i in sorted(full - S):
                    if not q.sign(W.roots[i]):
                        raise RuntimeError("sign returned False")
                return q.serialize()

            s2 = attempt(complete)
            if isinstance(s2, Rejected):
                V(f"{F}/sign-fails", repr(s2), "signed", f"{what}: the remaining signers cannot sign the parsed PSBT")
                continue
            if nsigs(s2) != [n if st in MULTI else 1] * nin:
                V(f"{F}/sign-fails", nsigs(s2), [n] * nin, f"{what}: wrong number of partial signatures after the remaining signers signed")
                continue
            back = attempt(lambda: P(s2).serialize())
            if back != s2:
                V(f"{F}/own-output-rejected", repr(back)[:80], "same bytes", f"{what}: after the remaining signers signed, the library cannot load (or does not reproduce) the PSBT it serialised")
                continue
            check_final(s2, n, F, what + " + remaining signers")
            for T in sub:

                def comb(first):
                    a, b = P(x), P(canon[T])
                    if first == "foreign<-canonical":
                        a.combine(b)
                        return a.serialize()
                    b.combine(a)
                    return b.serialize()

                g1, g2 = attempt(comb, "foreign<-canonical"), attempt(comb, "canonical<-foreign")
                res.transitions += 2
                U = S | T
                okc = isinstance(g1, bytes) and g1 == g2 and nsigs(g1) == [(len(U) if st in MULTI else min(1, len(U)))] * nin
                if okc:
                    okc = attempt(lambda: P(g1).serialize()) == g1
                lost = kv_lost(x, g1) + kv_lost(canon[T], g1) if okc else []
                if lost:
                    V(lost_fingerprint(lost, f"{F}/combine"), lost_classes(lost), "every key-value pair of both PSBTs kept", f"{what} combined with canonical {sorted(T)}: the combined PSBT drops key-value pairs")
                if not okc:
                    V(f"{F}/combine", [repr(g1)[:60], repr(g2)[:60]], "same loadable PSBT holding the union", f"{what} combined with canonical {sorted(T)}: result depends on the direction, loses fields or cannot be loaded")
                else:
                    res.ok("foreign form combine: direction-independent union, loadable", nontrivial=(label, "comb", tuple(sorted(S)), tuple(sorted(T))))
                    check_final(g1, len(U), F, f"{what} combined with {sorted(T)}")
        return res

    # =========================================================================================== bad sig, no UTXO
    if form == "noutxo-badsig":
        sub = [S for S in (all_subsets if toy else list(dict.fromkeys([full] if case.get("lite") else [frozenset([0]), full]))) if S]
        for S in sub:
            raw = state(S)
            if raw is None:
                continue
            r = psbtref.parse(raw)
            for ii, mm in enumerate(r["ins"]):
                for j, (kk, vv) in enumerate(mm):
                    if kk[:1] != b"\x02":
                        continue
                    rs = ec.der_parse_strict(vv[:-1])
                    if rs is None:
                        continue
                    s_new = (rs[1] % (curve.n - 1)) + 1
                    nv = ec.der_sig(rs[0], s_new if s_new != rs[1] else 1) + vv[-1:]
                    Q = curve.parse_sec(kk[1:])
                    z = psbt_digest(W, cfg, r["tx"], ii, vv[-1])
                    nrs = ec.der_parse_strict(nv[:-1])
                    if Q is not None and nrs and curve.ecdsa_verify(Q, z, nrs[0], nrs[1]):
                        res.ok("altered partial signature still verifies (toy collision): not asserted")
                        continue
                    for which in ("this-input", "all-inputs"):
                        r2 = psbtref.parse(raw)
                        r2["ins"][ii][j] = (kk, nv)
                        for i2 in range(nin):
                            if which == "all-inputs" or i2 == ii:
                                r2["ins"][i2] = [(k, v) for k, v in r2["ins"][i2] if k not in (b"\x00", b"\x01")]
                        got = attempt(P, psbtref.serialize(r2))
                        if not isinstance(got, Rejected):
                            V("badsig-without-utxo-accepted", "parsed", "rejected", f"signers {sorted(S)}: a partial signature that does not verify is accepted at load when the input map carries no UTXO ({which} stripped)")
                        else:
                            res.ok("bad partial signature without UTXO rejected at load", nontrivial=(label, tuple(sorted(S)), ii, j, which))
        return res

    # =========================================================================================== update histories
    if form == "update":
        lk = W.lookups()
        Ls = [tuple(c) for r_ in range(5) for c in itertools.combinations(LOOKUP_NAMES, r_)]
        if not toy:
            Ls = [L for L in Ls if len(L) in (0, 3, 4)]

        def args(L):
            return {name: (lk[name] if name in L else {}) for name in LOOKUP_NAMES}

        for L in Ls:
            # staged updaters: a first updater knowing only L, then one knowing everything
            def staged():
                p = W.bare()
                p.update(**args(L))
                p.update(**lk)
                hp = W.hd_pubs()
                if hp:
                    p.hd_pubs = hp
                return p.serialize()

            got = attempt(staged)
            if got != raw0:
                V("update/staged-differs", repr(got)[:80] if not isinstance(got, bytes) else lost_classes(kv_lost(raw0, got)) or got[:60].hex(), "create(lookups)", f"update({'+'.join(L) or 'nothing'}) then update(everything) on a bare PSBT differs from create(lookups)")
            else:
                res.ok("staged update == create(lookups)", nontrivial=(label, "staged", L))
        for S in (all_subsets if toy else list(dict.fromkeys([frozenset(), full]))):
            raw = state(S)
            if raw is None:
                continue
            for L in Ls:
                what = f"signers {sorted(S)}, update({'+'.join(L) or 'nothing'})"

                def upd(times):
                    q = P(raw)
                    for _ in range(times):
                        q.update(**args(L))
                    return q.serialize()

                s1 = attempt(upd, 1)
                res.transitions += 1
                if isinstance(s1, Rejected):
                    V("update/raises", repr(s1), "updated", f"{what} on the parsed complete PSBT raises")
                    continue
                lost = kv_lost(raw, s1)
                again = attempt(lambda: P(s1).serialize())
                if lost:
                    V("update/field-erased", lost_classes(lost), "every key-value pair kept", f"{what} removes key-value pairs from the PSBT")
                if isinstance(again, Rejected):
                    V("update/result-not-loadable", repr(again), "parses", f"{what}: the library cannot load the updated PSBT it serialised")
                elif again != s1:
                    V("update/result-not-idempotent", again[:60].hex(), s1[:60].hex(), f"{what}: re-serialisation changes the bytes")
                if lost or again != s1:
                    continue
                s2 = attempt(upd, 2)
                if s2 != s1:
                    V("update/not-idempotent", repr(s2)[:80], "same as one update", f"{what} applied twice differs from once")
                else:
                    res.ok("update on complete PSBT: monotone, loadable, idempotent", nontrivial=(label, tuple(sorted(S)), L))
        return res

    # =========================================================================================== network / base64
    if form == "network":
        from buidl.psbt import PSBT

        for S in (frozenset(), frozenset([0])):
            raw = state(S)
            if raw is None:
                continue
            b64 = attempt(lambda: (W.built(S) if S else W.create()).serialize_base64())
            if b64 != base64.b64encode(raw).decode():
                V("base64/encode", repr(b64)[:80], "RFC 4648 base64 of serialize()", "serialize_base64 is not the base64 of serialize")
            for pn in (None, net):
                cls = "network/default-network-rewrites-psbt" if pn is None else "network/explicit-network-rewrites-psbt"
                for entry in ("bytes", "base64"):
                    if entry == "bytes":
                        got = attempt(lambda: (PSBT.parse(BytesIO(raw)) if pn is None else PSBT.parse(BytesIO(raw), network=pn)).serialize())
                    else:
                        b = base64.b64encode(raw).decode()
                        got = attempt(lambda: base64.b64decode((PSBT.parse_base64(b) if pn is None else PSBT.parse_base64(b, network=pn)).serialize_base64()))
                    if got != raw:
                        lost = lost_classes(kv_lost(raw, got)) if isinstance(got, bytes) else repr(got)
                        V(cls, lost, "identical bytes", f"{net} wallet at {cfg['acct']}, signers {sorted(S)}: parse(network={pn}) via {entry} then serialize does not reproduce the bytes")
                    else:
                        res.ok("network/base64 round trip: identical bytes", nontrivial=(label, net, cfg["acct"], pn, entry, tuple(S)))
        return res

    # =========================================================================================== sign_with_private_keys
    if form == "swpk":
        from buidl import pecc as _pecc

        foreign = _pecc.PrivateKey(root_secret(4, toy))
        if foreign.point.sec() in W.pubkey_lookup:
            res.skip("toy group: the foreign key coincides with a wallet key")
            return res
        for S in (all_subsets if toy else list(dict.fromkeys([frozenset([0]), full]))):
            orders = list(itertools.permutations(sorted(S))) or [()]
            for order in orders:
                for with_foreign in (False, True):
                    if not S and not with_foreign:
                        continue
                    target = state(S)
                    if target is None:
                        continue

                    def f():
                        p = W.create()
                        keys = [k for i in order for k in W.leaf_private_keys(i)]
                        if with_foreign:
                            keys = [foreign] + keys
                        ret = p.sign_with_private_keys(keys)
                        return bool(ret), p.serialize()

                    got = attempt(f)
                    res.transitions += 1
                    what = f"sign_with_private_keys(leaf keys of {list(order)}{' + a foreign key' if with_foreign else ''})"
                    if isinstance(got, Rejected) or got[1] != target:
                        V("sign_with_private_keys/differs", repr(got)[:80], "the PSBT sign() gives for the same signers", f"{what} does not give the canonical PSBT of {sorted(S)}")
                    elif got[0] != bool(S):
                        V("sign_with_private_keys/return-value", got[0], bool(S), f"{what} returns the wrong 'signed something' flag")
                    else:
                        res.ok("sign_with_private_keys == sign", nontrivial=(label, order, with_foreign))
        return res

    # =========================================================================================== tx parameters
    if form == "txparams":
        check_maps(raw0, "create-update/output-map-differs")
        for S in list(dict.fromkeys([frozenset(), frozenset(range(need)), full])):
            raw = state(S)
            if raw is not None:
                check_final(raw, len(S), "txparams", f"signers {sorted(S)} fee={cfg['fee']} v{cfg['version']} lt={cfg['locktime']} seq={cfg['sequence']:#x} prevseg={cfg['prevseg']}")
        return res

    raise RuntimeError(f"unknown form {form}")


def engines(tier, seed):
    toy = (211, 199)
    return [
        Engine(f"workflow-toy{toy[0]}", gen_workflow(toy), run_workflow, toy=toy, kind="E2", rule="toy instance (p=211, n=199): script types {P2PKH, P2WPKH, P2SH-P2WPKH} x 1..2 inputs and {P2SH, P2WSH, P2SH-P2WSH} x every 1<=m<=n<=3 (thorough 4) x 1..2 (3) inputs x tx segwit flag: state space = all signer subsets; transitions = sign(i) on parsed/built objects, every signing permutation, combine(a<-b) for every ordered pair of subsets in all four built/parsed flavours; every transition must give the byte-identical canonical PSBT of the target subset; state invariants: idempotent re-serialisation, reference BIP174 reader sees a non-witness unsigned tx with empty scriptSigs, unknown key-values and global xpubs survive, finalize+final_tx reference-valid iff >= m signers, bad partial signatures rejected at load; the final transaction extracted from the in-memory object after every signing order (and, toy, after every combine of incomparable subsets) equals the final transaction of the canonical PSBT"),
        Engine(
            f"forms-toy{toy[0]}",
            gen_forms(toy),
            run_forms,
            toy=toy,
            kind="E1",
            rule=FORMS_RULE + " Toy instance (p=211, n=199): every script type; quick: single-key x 2 inputs, multisig 2-of-3 x 1 input and 1-of-2 x 2 inputs (txparams/network on the first shape of each type, fee fixed except two extra fee points); thorough: single-key x 1..3 inputs, every 1<=m<=n<=3 x 1..2 inputs plus 2-of-4, 3-of-4, 2-of-3 x 3 inputs, both segwit flags for 'change', full cross of the transaction parameters; every signer subset is a state.",
        ),
        Engine(
            "forms-real",
            gen_forms(None),
            run_forms,
            kind="E1",
            rule=FORMS_RULE + " secp256k1: quick: P2WSH 2-of-2 x {noutxo-badsig, utxo-both, utxo-nwu-only} and P2SH-P2WPKH x {change}, 1 input, states {unsigned, all signers}; thorough, states {unsigned, signer 0, all signers}: all six types (multisig 2-of-3), every form (update with lookup subsets of size 0, 3, 4; two transaction-parameter points; three network points).",
        ),
        Engine("workflow-real", gen_workflow(None), run_workflow, kind="E2", rule="secp256k1: P2WSH 2-of-3 and P2SH 1-of-2 (thorough: 8 configurations incl. single-key types and 3-of-4), same state space / transitions / invariants as the toy engine, sharded 16 ways"),
    ]
