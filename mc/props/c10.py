"""C10 — PSBT codec is lossless; the signing workflow is order-independent and exact.

E2 workflow (toy instance and secp256k1): for one wallet configuration the state space is the lattice of signer
   subsets; transitions are sign(i), combine(a <- b) for every ordered pair of reachable PSBTs in every
   built/parsed flavour, and serialize->parse.  Every transition must land on the byte-identical canonical PSBT
   of the target subset; in every state: re-serialisation idempotent, embedded unsigned tx in non-witness
   format with empty scriptSigs (independent BIP174 reader), injected unknown key-values and global xpubs survive,
   finalize+final_tx succeeds and verifies under the reference consensus verifier iff >= m signers, and every
   partial signature replaced by a non-verifying one makes PSBT.parse raise.
"""
import itertools
from io import BytesIO

from mc.core import Engine, Res, attempt, Rejected, filler_int, current_toy
from mc.ref import ec, txref, interp, psbtref

PROP = "C10"
N = ec.SECP.n
STYPES = ["p2pkh", "p2wpkh", "p2sh-p2wpkh", "p2sh", "p2wsh", "p2sh-p2wsh"]
MULTI = ("p2sh", "p2wsh", "p2sh-p2wsh")
UNKNOWN_G = (b"\xfc\x05verif\x01", b"global-unknown")
UNKNOWN_I = (b"\xfc\x05verif\x02", b"input-unknown")
UNKNOWN_O = (b"\xfc\x05verif\x03", b"output-unknown")


def root_secret(i, toy):
    if toy:
        return [3, 5, 7, 11, 13][i]
    return filler_int(0, "c10root", i, 1, N - 1)


class Wallet:
    """Everything derived through the library API (this is the system under test)."""

    def __init__(self, cfg, toy):
        from buidl import pecc
        from buidl.hd import HDPrivateKey
        from buidl.psbt import NamedHDPublicKey
        from buidl.script import P2PKHScriptPubKey, P2WPKHScriptPubKey, RedeemScript, WitnessScript
        from buidl.tx import Tx, TxIn, TxOut

        self.cfg, self.toy = cfg, toy
        st, m, n, nin = cfg["stype"], cfg["m"], cfg["n"], cfg["nin"]
        if toy:
            # harness-side seam, toy instances only: the RFC 6979 rejection loop never terminates for a 8-bit
            # group order; use a deterministic nonce function of (secret, digest) with the same interface
            import hashlib

            def det_k(self_, z):
                # redraw while r == 0 or s == 0 (possible only because the group has 199 elements)
                for ctr in range(1000):
                    h = hashlib.sha256(b"toy-nonce" + bytes([ctr % 256]) + self_.secret.to_bytes(32, "big") + (z % 2**256).to_bytes(32, "big")).digest()
                    k = 1 + int.from_bytes(h, "big") % (pecc.N - 1)
                    r = (k * pecc.G).x.num % pecc.N
                    if r and (z + r * self_.secret) % pecc.N:
                        return k
                raise RuntimeError("no usable toy nonce")

            pecc.PrivateKey.deterministic_k = det_k
        self.roots = [HDPrivateKey(pecc.PrivateKey(root_secret(i, toy)), chain_code=bytes([0x40 + i]) * 32) for i in range(n)]
        self.acct = [NamedHDPublicKey.from_hd_priv(r, "m/45h") for r in self.roots]
        self.pubkey_lookup, self.redeem_lookup, self.witness_lookup = {}, {}, {}
        self.spks, self.scripts = [], []
        amount = 2000000
        for k in range(nin):
            # child index: walk until the n child keys are pairwise distinct (collisions exist only on toy groups)
            j = k * 50
            while True:
                named = [NamedHDPublicKey.from_hd_priv(r, f"m/45h/0/{j}") for r in self.roots]
                if len({x.sec() for x in named}) == n:
                    break
                j += 1
            for x in named:
                self.pubkey_lookup[x.sec()] = x
                self.pubkey_lookup[x.hash160()] = x
            secs = sorted(x.sec() for x in named)
            if st == "p2pkh":
                spk = P2PKHScriptPubKey(named[0].hash160())
            elif st == "p2wpkh":
                spk = P2WPKHScriptPubKey(named[0].hash160())
            elif st == "p2sh-p2wpkh":
                redeem = RedeemScript([0, named[0].hash160()])
                self.redeem_lookup[redeem.hash160()] = redeem
                spk = redeem.script_pubkey()
            else:
                cmds = [0x50 + m] + secs + [0x50 + n, 174]
                if st == "p2sh":
                    redeem = RedeemScript(cmds)
                    self.redeem_lookup[redeem.hash160()] = redeem
                    spk = redeem.script_pubkey()
                else:
                    ws = WitnessScript(cmds)
                    self.witness_lookup[ws.sha256()] = ws
                    if st == "p2wsh":
                        spk = ws.script_pubkey()
                    else:
                        redeem = ws.script_pubkey().redeem_script()
                        self.redeem_lookup[redeem.hash160()] = redeem
                        spk = redeem.script_pubkey()
            self.spks.append(spk)
        self.amount = amount
        self.prev = Tx(1, [TxIn(b"\x77" * 32, 0)], [TxOut(amount, spk) for spk in self.spks], 0, network="mainnet", segwit=False)
        self.tx_lookup = {self.prev.hash(): self.prev}
        self.Tx, self.TxIn, self.TxOut = Tx, TxIn, TxOut
        self.P2WPKH = P2WPKHScriptPubKey

    def fresh_tx(self):
        nin = self.cfg["nin"]
        tins = [self.TxIn(self.prev.hash(), k) for k in range(nin)]
        touts = [self.TxOut(self.amount * nin - 5000, self.P2WPKH(b"\x31" * 20))]
        return self.Tx(2, tins, touts, 0, network="mainnet", segwit=bool(self.cfg.get("segflag")))

    def hd_pubs(self):
        from buidl.psbt import NamedHDPublicKey

        if self.cfg["stype"] not in MULTI:
            return {}
        accts = [NamedHDPublicKey.from_hd_priv(r, "m/45h") for r in self.roots]
        return {a.serialize(): a for a in accts}

    def create(self):
        from buidl.psbt import PSBT

        return PSBT.create(
            self.fresh_tx(),
            tx_lookup=self.tx_lookup,
            pubkey_lookup=self.pubkey_lookup,
            redeem_lookup=self.redeem_lookup,
            witness_lookup=self.witness_lookup,
            hd_pubs=self.hd_pubs(),
        )

    def create_then_update(self):
        from buidl.psbt import PSBT

        p = PSBT.create(self.fresh_tx())
        p.update(self.tx_lookup, self.pubkey_lookup, self.redeem_lookup, self.witness_lookup)
        hp = self.hd_pubs()
        if hp:
            p.hd_pubs = hp
        return p

    def built(self, subset, order=None):
        p = self.create()
        for i in order or sorted(subset):
            if not p.sign(self.roots[i]):
                raise RuntimeError("sign returned False")
        return p


def inject_unknown(raw):
    """Add unknown key-value pairs to the global map, every input map and every output map."""
    p = psbtref.parse(raw)
    p["global"].append(UNKNOWN_G)
    for m in p["ins"]:
        m.append(UNKNOWN_I)
    for m in p["outs"]:
        m.append(UNKNOWN_O)
    return psbtref.serialize(p)


def parse_lib(raw):
    from buidl.psbt import PSBT

    return PSBT.parse(BytesIO(raw), network="mainnet")


def subsets(n):
    out = []
    for r in range(n + 1):
        out += [frozenset(c) for c in itertools.combinations(range(n), r)]
    return out


def gen_workflow(toy):
    def g(tier, seed):
        cases = []
        if toy:
            nmax = 3 if tier == "quick" else 4
            for st in STYPES:
                if st in MULTI:
                    for n in range(1, nmax + 1):
                        for m in range(1, n + 1):
                            for nin in (1, 2) if tier == "quick" else (1, 2, 3):
                                cases.append({"stype": st, "m": m, "n": n, "nin": nin, "segflag": (m + n + nin) % 2, "shard": [0, 1], "toy": list(toy)})
                else:
                    for nin in (1, 2):
                        cases.append({"stype": st, "m": 1, "n": 1, "nin": nin, "segflag": nin % 2, "shard": [0, 1], "toy": list(toy)})
        else:
            cfgs = [("p2wsh", 2, 3, 1, 1, 8), ("p2sh", 1, 2, 1, 0, 4)] if tier == "quick" else [("p2wsh", 2, 3, 2, 1, 16), ("p2sh", 2, 2, 2, 0, 8), ("p2sh-p2wsh", 1, 2, 1, 1, 8), ("p2pkh", 1, 1, 1, 0, 2), ("p2wpkh", 1, 1, 2, 1, 2), ("p2sh-p2wpkh", 1, 1, 1, 1, 2), ("p2sh", 2, 3, 1, 1, 16), ("p2wsh", 3, 4, 1, 0, 32)]
            for st, m, n, nin, sf, K in cfgs:
                for k in range(K):
                    cases.append({"stype": st, "m": m, "n": n, "nin": nin, "segflag": sf, "shard": [k, K]})
        return cases

    return g


def run_workflow(case):
    res = Res()
    toy = tuple(case["toy"]) if case.get("toy") else None
    if toy:
        from buidl import pecc

        assert current_toy() == toy and pecc.N == toy[1]
    curve = ec.toy_curve(*toy) if toy else ec.SECP
    eng = f"workflow-toy{toy[0]}" if toy else "workflow-real"
    cfg = {k: case[k] for k in ("stype", "m", "n", "nin", "segflag")}
    label = f"{cfg['stype']}-{cfg['m']}of{cfg['n']}-{cfg['nin']}in"
    vc = {"engine": eng, "case": case}
    if toy:
        vc["toy"] = list(toy)
    k, K = case["shard"]
    W = attempt(Wallet, cfg, toy)
    if isinstance(W, Rejected):
        if toy:
            res.ok("degenerate toy wallet (zero child key)")
            return res
        raise RuntimeError("wallet construction failed on the real curve")
    n, m = cfg["n"], cfg["m"]
    counter = [0]

    def mine():
        counter[0] += 1
        return (counter[0] - 1) % K == k

    # ---- canonical state of every subset: created with lookups, signed in ascending order, serialised
    base = attempt(W.create)
    if isinstance(base, Rejected):
        res.violation(f"C10/{eng}/create/{cfg['stype']}", vc, repr(base), "PSBT", f"{label}: PSBT.create with lookups fails")
        return res
    raw0 = attempt(base.serialize)
    try:
        raw0u = inject_unknown(raw0)
    except Exception as e:
        cls = "segwit-flagged-tx-embedded-in-witness-format" if cfg["segflag"] else "unreadable"
        res.violation(f"C10/{eng}/embedded-tx/{cls}", vc, f"reference BIP174 reader: {e}", "non-witness unsigned tx with empty scriptSigs", f"{label}: serialised PSBT is not readable by an independent BIP174 reader")
        return res
    canon = {}
    for S in subsets(n):
        if S:
            p = attempt(W.built, S)
            if isinstance(p, Rejected):
                res.violation(f"C10/{eng}/sign/{cfg['stype']}", vc, repr(p), "signed", f"{label}: signing with subset {sorted(S)} fails")
                return res
            raw = attempt(p.serialize)
        else:
            raw = raw0
        # all states carry the injected unknown pairs: re-parse the canonical bytes with them added
        rawu = inject_unknown(raw)
        pu = attempt(parse_lib, rawu)
        if isinstance(pu, Rejected):
            res.violation(f"C10/{eng}/parse-own/{cfg['stype']}", vc, repr(pu), "parses", f"{label}: PSBT produced by the library (+ unknown pairs) does not parse, subset {sorted(S)}")
            return res
        canon[S] = attempt(pu.serialize)
    res.states += len(canon) if k == 0 else 0

    def obj(S, flavour):
        """A live PSBT object for subset S: 'parsed' from canonical bytes, or 'built' in-process (then unknown
        pairs are absent, which combine must tolerate)."""
        if flavour == "parsed":
            return parse_lib(canon[S])
        return W.built(S)

    def check_target(got_raw, T, what, fp):
        res.transitions += 1
        if got_raw != canon[T]:
            # localise: does it at least re-parse to the canonical form?
            again = attempt(lambda: parse_lib(got_raw).serialize()) if isinstance(got_raw, bytes) else None
            cls = fp + ("/not-idempotent" if again == canon[T] else "/different-psbt")
            res.violation(f"C10/{eng}/{cls}", vc, got_raw if not isinstance(got_raw, bytes) else got_raw[:60].hex() + f"..({len(got_raw)} bytes)", canon[T][:60].hex() + f"..({len(canon[T])} bytes)", f"{label}: {what} does not give the canonical PSBT of subset {sorted(T)}")
            return False
        res.ok(f"{fp.split('/')[0]} -> canonical", nontrivial=(label, what), sample={"config": label, "transition": what, "target_subset": sorted(T)})
        return True

    # ---- create + update == create with lookups
    if mine():
        cu = attempt(lambda: W.create_then_update().serialize())
        if cu != raw0:
            res.violation(f"C10/{eng}/create-update-differs/{cfg['stype']}", vc, cu if not isinstance(cu, bytes) else cu[:80].hex(), raw0[:80].hex(), f"{label}: bare create followed by update(lookups) differs from create(lookups)")
        else:
            res.ok("create+update == create(lookups)", nontrivial=(label, "cu"))
    # ---- per-state invariants
    for S in subsets(n):
        if not mine():
            continue
        raw = canon[S]
        # idempotent re-serialisation
        again = attempt(lambda: parse_lib(raw).serialize())
        if again != raw:
            res.violation(f"C10/{eng}/reserialize-not-idempotent/{cfg['stype']}", vc, repr(again)[:80], "same bytes", f"{label}: parse->serialize changes the PSBT of subset {sorted(S)}")
            continue
        # independent reader: unsigned tx format, unknown pairs and xpubs survive
        try:
            r = psbtref.parse(raw)
        except Exception as e:
            res.violation(f"C10/{eng}/embedded-tx/unreadable", vc, str(e), "readable", f"{label}: canonical PSBT not readable by the reference BIP174 reader")
            continue
        ok = UNKNOWN_G in r["global"] and all(UNKNOWN_I in mm for mm in r["ins"]) and all(UNKNOWN_O in mm for mm in r["outs"])
        nx = sum(1 for kk, _ in r["global"] if kk[:1] == b"\x01")
        if not ok:
            res.violation(f"C10/{eng}/unknown-pairs-lost", vc, "missing", "present", f"{label}: injected unknown key-value pairs do not survive (subset {sorted(S)})")
        elif cfg["stype"] in MULTI and nx != n:
            res.violation(f"C10/{eng}/global-xpubs-lost", vc, nx, n, f"{label}: global xpubs do not survive")
        else:
            res.ok("state: idempotent, non-witness unsigned tx, unknown pairs & xpubs survive", nontrivial=(label, "state", tuple(sorted(S))))
        # finalize + extract
        post = {}

        def fin():
            p = parse_lib(raw)
            p.finalize()
            post["finalized"] = p.serialize()
            tx = p.final_tx()
            # extraction must leave the PSBT itself untouched and serialisable
            post["after_extract"] = p.serialize()
            return tx

        ft = attempt(fin)
        if not isinstance(ft, Rejected):
            bad = None
            if post.get("after_extract") != post.get("finalized"):
                bad = "final_tx() changed the serialisation of the PSBT it was extracted from"
            else:
                try:
                    psbtref.parse(post["finalized"])
                except Exception as e:
                    bad = f"finalized PSBT not readable by the reference BIP174 reader: {e}"
                else:
                    again = attempt(lambda: parse_lib(post["finalized"]).serialize())
                    if again != post["finalized"]:
                        bad = "finalized PSBT does not re-serialise to the same bytes"
            if bad:
                res.violation(f"C10/{eng}/post-extraction/{cfg['stype']}", vc, bad, "unchanged, readable, idempotent", f"{label}: subset {sorted(S)}: {bad}")
            else:
                res.ok("finalized PSBT: unchanged by extraction, readable, idempotent")
        need = m if cfg["stype"] in MULTI else 1
        if len(S) >= need:
            if isinstance(ft, Rejected):
                res.violation(f"C10/{eng}/finalize-fails/{cfg['stype']}", vc, repr(ft), "final tx", f"{label}: {len(S)} >= {need} signers but finalize/final_tx fails")
                continue
            atx = abstract(ft)
            spent = [(W.amount, W.spks[i].raw_serialize()) for i in range(cfg["nin"])]
            bad = [i for i in range(cfg["nin"]) if not interp.verify_input(atx, i, spent, curve)]
            if bad:
                res.violation(f"C10/{eng}/final-tx-invalid/{cfg['stype']}", vc, f"inputs {bad} invalid", "valid", f"{label}: extracted transaction does not verify under the reference consensus verifier")
            else:
                res.ok("finalize+extract: reference-valid", nontrivial=(label, "final", tuple(sorted(S))))
        else:
            if not isinstance(ft, Rejected):
                atx = abstract(ft)
                spent = [(W.amount, W.spks[i].raw_serialize()) for i in range(cfg["nin"])]
                valid = all(interp.verify_input(atx, i, spent, curve) for i in range(cfg["nin"]))
                res.violation(f"C10/{eng}/finalize-below-threshold/{cfg['stype']}", vc, f"final tx extracted (reference valid: {valid})", "failure", f"{label}: only {len(S)} of {need} required signers but a final transaction is extracted")
            else:
                res.ok("below threshold: refused", nontrivial=(label, "refuse", tuple(sorted(S))))
        # every partial signature replaced by one that does not verify -> parse must raise
        try:
            r = psbtref.parse(raw)
        except Exception:
            continue
        for ii, mm in enumerate(r["ins"]):
            for j, (kk, vv) in enumerate(mm):
                if kk[:1] != b"\x02":
                    continue
                for how in ("s+1", "other-msg", "s+1/ht02", "s+1/ht03", "s+1/ht81", "other-msg/ht83", "same-rs/ht02", "same-rs/ht03", "same-rs/ht81"):
                    rs = ec.der_parse_strict(vv[:-1])
                    if rs is None:
                        continue
                    # the altered signature keeps its sighash byte, or carries another standard one
                    htb = bytes([int(how.split("/ht")[1], 16)]) if "/ht" in how else vv[-1:]
                    if how.startswith("same-rs"):
                        # the untouched (r, s) under another sighash byte: it signs the SIGHASH_ALL digest, not the one its byte names
                        nv = vv[:-1] + htb
                    elif how.startswith("s+1"):
                        nv = ec.der_sig(rs[0], (rs[1] % (curve.n - 1)) + 1 if (rs[1] % (curve.n - 1)) + 1 != rs[1] else 1) + htb
                    else:
                        nv = (ec.der_sig(rs[1], rs[0]) if rs[0] != rs[1] else ec.der_sig(rs[0], (rs[1] + 2) % curve.n or 1)) + htb
                    r2 = psbtref.parse(raw)
                    r2["ins"][ii][j] = (kk, nv)
                    # is the altered signature really invalid? (on toy groups it may verify by chance)
                    Q = curve.parse_sec(kk[1:])
                    z = psbt_digest(W, cfg, r2["tx"], ii, htb[0])
                    nrs = ec.der_parse_strict(nv[:-1])
                    if Q is not None and nrs and curve.ecdsa_verify(Q, z, nrs[0], nrs[1]):
                        res.ok("altered partial signature still verifies (toy collision): not asserted")
                        continue
                    got = attempt(parse_lib, psbtref.serialize(r2))
                    if not isinstance(got, Rejected):
                        cls = "bad-partial-sig-accepted" if not how.startswith("same-rs") else "partial-sig-checked-against-SIGHASH_ALL-whatever-its-sighash-byte"
                        res.violation(f"C10/{eng}/{cls}/{cfg['stype']}", vc, "parsed", "rejected", f"{label}: partial signature that does not verify ({how}) is accepted when the PSBT is loaded")
                    else:
                        res.ok("bad partial signature rejected at load", nontrivial=(label, "badsig", tuple(sorted(S)), ii, j, how))
    # ---- transitions
    flavours = ("parsed", "built")
    # on the real curve building an object costs seconds: built<-built is left to the toy engine
    combine_flavours = [(a, b) for a in flavours for b in flavours if toy or (a, b) != ("built", "built")]
    for S in subsets(n):
        # sign(i) from every flavour, every order
        for i in range(n):
            if i in S:
                continue
            for fl in flavours:
                if not mine():
                    continue
                T = S | {i}

                def f():
                    p = obj(S, fl)
                    if not p.sign(W.roots[i]):
                        raise RuntimeError("sign returned False")
                    raw = p.serialize()
                    if fl == "built":
                        raw = parse_lib(inject_unknown(raw)).serialize()
                    return raw

                check_target(attempt(f), T, f"sign({i}) on {fl} PSBT of {sorted(S)}", f"sign/{fl}")
        # signing in every permutation order (built object)
        if len(S) >= 2:
            for order in itertools.permutations(sorted(S)):
                if not mine():
                    continue
                raw = attempt(lambda: parse_lib(inject_unknown(W.built(S, order).serialize())).serialize())
                check_target(raw, S, f"signing order {list(order)}", "sign-order")
        # combine with every reachable PSBT, every flavour pair
        for T in subsets(n):
            for fa, fb in combine_flavours:
                if True:
                    if not mine():
                        continue
                    U = S | T

                    def f():
                        a, b = obj(S, fa), obj(T, fb)
                        a.combine(b)
                        raw = a.serialize()
                        if fa == "built" and fb == "built":
                            raw = parse_lib(inject_unknown(raw)).serialize()
                        return raw

                    check_target(attempt(f), U, f"combine({fa} {sorted(S)} <- {fb} {sorted(T)})", f"combine/{fa}<-{fb}")
    return res


def abstract(ltx):
    ins = [{"prev": bytes(i.prev_tx), "index": i.prev_index, "script": i.script_sig.raw_serialize(), "seq": int(i.sequence), "witness": [bytes(x) for x in i.witness.items]} for i in ltx.tx_ins]
    return {
        "version": ltx.version,
        "locktime": int(ltx.locktime),
        "segwit": any(i["witness"] for i in ins),
        "ins": ins,
        "outs": [{"amount": o.amount, "script": o.script_pubkey.raw_serialize()} for o in ltx.tx_outs],
    }


def psbt_digest(W, cfg, tx, ii, ht=1):
    """Reference digest a partial signature of input ii with sighash byte ht must sign."""
    st = cfg["stype"]
    spk = W.spks[ii].raw_serialize()
    utx = dict(tx, segwit=False)
    if st == "p2pkh":
        return int.from_bytes(txref.sighash_legacy(utx, ii, spk, ht), "big")
    if st == "p2sh":
        sc = [r for r in W.redeem_lookup.values() if r.script_pubkey().raw_serialize() == spk][0].raw_serialize()
        return int.from_bytes(txref.sighash_legacy(utx, ii, sc, ht), "big")
    if st in ("p2wpkh", "p2sh-p2wpkh"):
        h = [x for x in W.pubkey_lookup.values()]
        # script code of P2WPKH: the P2PKH script of the key hash committed to by this input
        if st == "p2wpkh":
            kh = spk[2:]
        else:
            redeem = [r for r in W.redeem_lookup.values() if r.script_pubkey().raw_serialize() == spk][0].raw_serialize()
            kh = redeem[2:]
        sc = b"\x76\xa9\x14" + kh + b"\x88\xac"
    else:
        ws = None
        for w in W.witness_lookup.values():
            prog = b"\x00\x20" + txref.sha256(w.raw_serialize())
            if st == "p2wsh" and prog == spk:
                ws = w
            if st == "p2sh-p2wsh" and b"\xa9\x14" + txref.h160(prog) + b"\x87" == spk:
                ws = w
        sc = ws.raw_serialize()
    return int.from_bytes(txref.sighash_bip143(utx, ii, sc, W.amount, ht), "big")


def engines(tier, seed):
    toy = (211, 199)
    return [
        Engine(f"workflow-toy{toy[0]}", gen_workflow(toy), run_workflow, toy=toy, kind="E2", rule="toy instance (p=211, n=199): script types {P2PKH, P2WPKH, P2SH-P2WPKH} x 1..2 inputs and {P2SH, P2WSH, P2SH-P2WSH} x every 1<=m<=n<=3 (thorough 4) x 1..2 (3) inputs x tx segwit flag: state space = all signer subsets; transitions = sign(i) on parsed/built objects, every signing permutation, combine(a<-b) for every ordered pair of subsets in all four built/parsed flavours; every transition must give the byte-identical canonical PSBT of the target subset; state invariants: idempotent re-serialisation, reference BIP174 reader sees a non-witness unsigned tx with empty scriptSigs, unknown key-values and global xpubs survive, finalize+final_tx reference-valid iff >= m signers, bad partial signatures rejected at load"),
        Engine("workflow-real", gen_workflow(None), run_workflow, kind="E2", rule="secp256k1: P2WSH 2-of-3 and P2SH 1-of-2 (thorough: 8 configurations incl. single-key types and 3-of-4), same state space / transitions / invariants as the toy engine, sharded 16 ways"),
    ]
