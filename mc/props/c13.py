"""C13 — MuSig aggregation yields valid BIP340 signatures; k-of-n trees cover all subsets.

E3 toy-musig: every pair / triple of secrets of the toy group x nonce sets x messages x (with|without merkle
   root): sum of partial signatures -> get_signature valid under the reference BIP340 verifier for the
   (tweaked) aggregate key; all permutations give the same aggregate key; omitted / altered partial
   signatures accepted only if the reference accepts the result.
E1 real-musig: key sets of size 2..3 (thorough ..5) on secp256k1 covering the parity combinations.
E1 real-trees: every (k, n), n <= 4 (thorough 5): leaves <-> k-subsets bijection, every leaf spent by its own
   subset verifies under the library and under the reference consensus verifier; spent by another subset: rejected.
E1 spend-variants: the owning subset's spend under every BIP341 hash type, input position, signature-list order.
E1 composite-trees: single_leaf / musig_and_single_leaf_tree / everything_tree / degrading_multisig_tree: every leaf
   is spendable by its subset (library and reference).
E1 tree-parity-walk: per (k, n, kind) key sets rep = 0, 1, .. until both output-key and both internal-key parities
   were spent.

Nonce vectors whose first / second components cancel (sum = infinity) are part of the toy and the real alphabets: the
session is degenerate only when the final nonce R = S1 + h*S2 itself is infinite.
"""
import itertools

from mc.core import Engine, Res, attempt, Rejected, filler, filler_int, current_toy
from mc.ref import ec, txref, interp

PROP = "C13"
N = ec.SECP.n


def pt(P):
    return None if isinstance(P, Rejected) or P is None or P.x is None else (P.x.num, P.y.num)


WIDE_FAULTS = ("negate", "dup", "wrong-msg", "wrong-root", "wrong-k", "plus-n")


def ref_nonce_coef(c, S1, S2, aggx, msg):
    """BIP327 nonce coefficient b = H_MuSig/noncecoef(cbytes_ext(S1) || cbytes_ext(S2) || xbytes(P) || m) mod n, the
    point at infinity serialised as 33 zero bytes (P: the untweaked aggregate key, which is what the library hashes)."""
    ext = lambda P: b"\x00" * 33 if P is None else bytes([2 + (P[1] & 1)]) + ec.b32(P[0])
    return int.from_bytes(ec.tagged("MuSig/noncecoef", ext(S1) + ext(S2) + ec.b32(aggx) + msg), "big") % c.n


def musig_scenario(res, pecc, taproot, c, toy, secrets, nonces, msg, root, vc, tag, faults=True, shared=None, wide=False):
    """One complete MuSig run through the library API. secrets: list of ints; nonces: list of (k1, k2).
    shared: dict kept by the caller across scenarios of one key set, so that ONE MuSigTapScript object (and one set
    of key objects) serves plain and tweaked sessions in turn — state kept on the object between sessions is exposed."""
    n = c.n
    if shared is not None and "privs" in shared:
        privs = shared["privs"]
    else:
        privs = [pecc.PrivateKey(d) for d in secrets]
        if shared is not None:
            shared["privs"] = privs
    points = [p.point for p in privs]
    xs = [c.mulg(d)[0] for d in secrets]
    if len(set(xs)) != len(xs):
        res.skip("two participants share an x-only key (d and n-d): P and -P are the same BIP340 x-only public key, so this is not a set of distinct keys")
        return
    if shared is not None and "musig" in shared:
        musig = shared["musig"]
    else:
        musig = attempt(taproot.MuSigTapScript, points)
        if shared is not None and not isinstance(musig, Rejected):
            shared["musig"] = musig
    if isinstance(musig, Rejected):
        res.violation(f"C13/{tag}/construct", vc, repr(musig), "MuSigTapScript", "cannot aggregate distinct keys")
        return
    agg = pt(musig.point)
    if agg is None:
        res.ok("degenerate: aggregate key is infinity")
        return
    # order independence
    for perm in itertools.permutations(range(len(points))):
        m2 = attempt(taproot.MuSigTapScript, [points[i] for i in perm])
        if isinstance(m2, Rejected) or pt(m2.point) != agg:
            res.violation(f"C13/{tag}/order-dependent", vc, repr(m2) if isinstance(m2, Rejected) else pt(m2.point), agg, "aggregate key depends on participant order")
            return
    res.ok("aggregate key order-independent")
    # external key by the reference
    if root:
        out = ref_tweak(c, agg[0], root, toy)
        if out is None:
            res.ok("degenerate: tweak undefined")
            return
        Q = out[0]
    else:
        Q = agg
    pk = ec.b32(Q[0])
    G = pecc.G
    nonce_points = [(k1 * G, k2 * G) for k1, k2 in nonces]
    if any(pt(a) is None or pt(b) is None for a, b in nonce_points):
        res.skip("zero nonce")
        return

    other_msg = bytes([msg[0] ^ 1]) + msg[1:]
    other_root = b"" if root else b"\xdd" * 32

    def run(omit=None, alter=None, fault=None):
        """fault = (kind, i): participant i's contribution is wrong in the named way (plus-n: the total is s + n)."""
        sums = musig.nonce_sums(nonce_points)
        r = musig.compute_r(sums, msg)
        s_sum = 0
        for i, (priv, ns) in enumerate(zip(privs, nonces)):
            if i == omit:
                continue
            kind = fault[0] if fault is not None and fault[1] == i else None
            k = musig.compute_k(nonces[(i + 1) % len(nonces)] if kind == "wrong-k" else ns, sums, msg)
            s = musig.sign(priv, k, r, other_msg if kind == "wrong-msg" else msg, other_root if kind == "wrong-root" else root)
            if i == alter:
                s = (s + 1) % n
            if kind == "negate":
                s = (-s) % n
            elif kind == "dup":
                s = 2 * s
            elif kind == "plus-n":
                s = s + n
            s_sum += s
        return musig.get_signature(s_sum, r, msg, root).serialize()

    # reference nonce sums from the scalars: a session is degenerate only if the FINAL nonce R = S1 + h*S2 is infinite
    S1 = c.mulg(sum(k1 for k1, _ in nonces) % n) if sum(k1 for k1, _ in nonces) % n else None
    S2 = c.mulg(sum(k2 for _, k2 in nonces) % n) if sum(k2 for _, k2 in nonces) % n else None
    if S1 is None and S2 is None:
        res.ok("degenerate: both nonce sums at infinity (R is infinite for every coefficient)")
        return
    cancel = "S1=inf" if S1 is None else "S2=inf" if S2 is None else None
    sums = attempt(musig.nonce_sums, nonce_points)
    r = sums if isinstance(sums, Rejected) else attempt(musig.compute_r, sums, msg)
    if isinstance(r, Rejected):
        # the library cannot produce R: acceptable only if R really is infinite (reference coefficient, BIP327)
        h = ref_nonce_coef(c, S1, S2, agg[0], msg)
        R = c.add(S1, c.mul(h, S2))  # None = infinity throughout the reference
        if R is None:
            res.ok("degenerate: aggregate nonce at infinity (reference)")
        elif cancel:
            res.violation(f"C13/{tag}/nonce-sum-at-infinity", vc, repr(r), "valid signature", f"the participants' nonce components cancel ({cancel}) while the final nonce R = S1 + h*S2 is a finite point: the session cannot be run (nonce_sums/compute_r raise)")
        else:
            res.violation(f"C13/{tag}/honest-fails", vc, repr(r), "valid signature", "nonce_sums/compute_r raise although the final nonce is a finite point")
        return
    if pt(r) is None:
        res.ok("degenerate: aggregate nonce at infinity")
        return
    if cancel:
        res.notes["cancelling_nonce_sessions"] = res.notes.get("cancelling_nonce_sessions", 0) + 1
    sig = attempt(run)
    if isinstance(sig, Rejected):
        cls = "honest-fails"
        if shared is not None:
            # does a fresh object succeed? then the failure is state left by an earlier session on the shared object
            fresh_res = Res()
            musig_scenario(fresh_res, pecc, taproot, c, toy, secrets, nonces, msg, root, vc, tag, faults=False, shared=None)
            if not fresh_res.n_violations:
                cls = "honest-fails-on-reused-object"
        res.violation(f"C13/{tag}/{cls}", vc, repr(sig), "valid signature", "sum of all partial signatures is refused by get_signature" + (" on a MuSigTapScript object that served another session (other merkle root) before" if cls != "honest-fails" else ""))
        return
    if not c.schnorr_verify(pk, msg, sig):
        res.violation(f"C13/{tag}/invalid-aggregate", vc, sig, "BIP340-valid under " + pk.hex(), "aggregate signature is not valid under the reference BIP340 verifier")
        return
    P = musig.point
    res.ok("aggregate valid", nontrivial=(tag, tuple(secrets), tuple(nonces), msg, root))
    res.notes.setdefault("parity_classes", {})
    if not faults:
        return
    for i in range(len(secrets)):
        for kind, kw in (("omit", {"omit": i}), ("alter", {"alter": i})):
            bad = attempt(run, **kw)
            if isinstance(bad, Rejected):
                res.ok(f"{kind} rejected")
            elif c.schnorr_verify(pk, msg, bad):
                res.ok(f"{kind} yields a coincidentally valid signature (reference agrees)")
            else:
                res.violation(f"C13/{tag}/{kind}-accepted", vc, bad, "rejection", f"{kind} of participant {i}'s partial signature returned an invalid aggregate as if valid")
    if not wide:
        return
    # wider fault model: the aggregate returned for a wrong contribution must be one the reference accepts
    for i in range(len(secrets)):
        for kind in WIDE_FAULTS:
            if kind == "plus-n" and i:
                continue
            bad = attempt(run, fault=(kind, i))
            if isinstance(bad, Rejected):
                res.ok(f"fault {kind}: rejected")
            elif c.schnorr_verify(pk, msg, bad):
                res.ok(f"fault {kind}: aggregate is valid all the same (reference agrees)", nontrivial=("fault-valid", tag, kind) if kind == "plus-n" else None)
            else:
                res.violation(f"C13/{tag}/fault-accepted/{kind}", vc, bad, "rejection", f"participant {i}'s contribution with fault '{kind}' returned an invalid aggregate as if valid")


def ref_tweak(c, px, root, toy):
    P = c.lift_x(px)
    if P is None:
        return None
    t = int.from_bytes(ec.tagged("TapTweak", ec.b32(px) + root), "big")
    if toy:
        t %= c.n
    elif t >= c.n:
        return None
    Q = c.add(P, c.mulg(t))
    return None if Q is None else (Q, Q[1] & 1)


# ------------------------------------------------------------------ toy
def gen_toy_musig(toy):
    def g(tier, seed):
        n = toy[1]
        cases = []
        for a, b in itertools.combinations(range(1, n), 2):
            cases.append({"toy": list(toy), "secrets": [a, b], "tier": tier})
        step = 1 if tier == "thorough" else 8
        triples = list(itertools.combinations(range(1, n), 3))
        for t in triples[::step]:
            cases.append({"toy": list(toy), "secrets": list(t), "tier": tier})
        return cases

    return g


TOY_NONCE_SET = [(1, 2), (3, 5), (7, 4)]
TOY_MSGS = [b"\x00" * 32, b"\x07" * 32, b"\xff" * 32]
TOY_ROOTS = (b"", b"\xaa" * 32, b"\xbb" * 32)


def cancelling(nn, n):
    """From one nonce vector: the last participant's first / second / both components replaced by the negated sum of
    the others', so that S1 = inf, S2 = inf, both = inf (all values stay in [1, n-1]; a zero would be out of range)."""
    out = []
    a = (-sum(k1 for k1, _ in nn[:-1])) % n
    b = (-sum(k2 for _, k2 in nn[:-1])) % n
    for k1, k2 in ((a, nn[-1][1]), (nn[-1][0], b), (a, b)):
        if k1 and k2:
            out.append(nn[:-1] + [(k1, k2)])
    return out


def run_toy_musig(case):
    from buidl import pecc, taproot

    res = Res()
    toy = tuple(case["toy"])
    assert current_toy() == toy and pecc.N == toy[1]
    c = ec.toy_curve(*toy)
    secrets = case["secrets"]
    vc = {"engine": f"toy-musig-{toy[0]}", "toy": list(toy), "case": case}
    n = c.n
    thorough = case.get("tier") == "thorough"
    # pairs: the full nonce set; triples: two nonce pairs per participant
    per = TOY_NONCE_SET if len(secrets) == 2 else TOY_NONCE_SET[:2]
    msgs = TOY_MSGS if thorough else TOY_MSGS[:2]
    shared = {}
    first = None
    for vi, nonces in enumerate(itertools.product(per, repeat=len(secrets))):
        # distinct participants use distinct nonce pairs shifted by their index
        nn = [((k1 + 5 * i) % n or 1, (k2 + 11 * i) % n or 1) for i, (k1, k2) in enumerate(nonces)]
        first = first or nn
        for mi, msg in enumerate(msgs):
            for root in TOY_ROOTS:
                musig_scenario(res, pecc, taproot, c, toy, secrets, nn, msg, root, dict(vc, case=dict(case, at=[list(map(list, nn)), msg.hex(), root.hex()])), f"toy-musig", shared=shared, wide=vi == 0 and (thorough or mi == 0))
    # nonce vectors whose components cancel (quick: first message, roots none / A)
    for nn in cancelling(first, n):
        for msg in msgs if thorough else msgs[:1]:
            for root in TOY_ROOTS if thorough else TOY_ROOTS[:2]:
                musig_scenario(res, pecc, taproot, c, toy, secrets, nn, msg, root, dict(vc, case=dict(case, at=[list(map(list, nn)), msg.hex(), root.hex()])), f"toy-musig", faults=thorough, shared=shared)
    return res


# ------------------------------------------------------------------ real musig
def gen_real_musig(tier, seed):
    sizes = [2, 3] if tier == "quick" else [2, 3, 4, 5]
    cases = []
    for sz in sizes:
        reps = 4 if tier == "quick" else 6
        for rep in range(reps):
            secrets = [filler_int(seed, f"c13-{sz}-{rep}", i, 1, N - 1) for i in range(sz)]
            cases.append({"secrets": [str(s) for s in secrets], "rep": rep, "roots": ["", "bb" * 32, "cc" * 32, ""]})
    # boundary values of the quantified ranges and nonce vectors whose components cancel (explicit nonces / message)
    a, b, a2, b2, a3, b3 = (filler_int(seed, "c13-bnd", i, 2, N - 2) for i in range(6))
    f2 = [filler_int(seed, "c13-bnd-key", i, 1, N - 1) for i in range(3)]
    two = ["", "bb" * 32]
    bnd = [
        ("message = n", f2[:2], [(a, b), (a2, b2)], "%064x" % N, two, False),
        ("secrets 1, n-2; nonces 1, n-1, 2, n-2; message ff..", [1, N - 2], [(1, N - 1), (2, N - 2)], "ff" * 32, two, True),
        ("secrets n-1, 2, 3; nonces n-1, 1, ..; message 00..", [N - 1, 2, 3], [(N - 1, 1), (N - 2, 2), (a, b)], "00" * 32, two, False),
        ("first nonce components cancel (S1 = inf)", f2[:2], [(a, b), (N - a, b2)], "%064x" % (N - 1), two, True),
        ("second nonce components cancel (S2 = inf)", f2[:2], [(a, b), (a2, N - b)], "ff" * 32, two, False),
        ("both nonce components cancel", f2[:2], [(a, b), (N - a, N - b)], "11" * 32, [""], False),
        ("three participants, S1 = inf", f2, [(a, b), (a2, b2), ((-a - a2) % N, b3)], "22" * 32, two, False),
        ("three participants, S2 = inf", f2, [(a, b), (a2, b2), (a3, (-b - b2) % N)], "33" * 32, ["cc" * 32], False),
    ]
    if tier == "thorough":
        f5 = [filler_int(seed, "c13-bnd-key5", i, 1, N - 1) for i in range(5)]
        fl = [filler_int(seed, "c13-bnd-n5", i, 2, N - 2) for i in range(10)]
        bnd += [
            ("five participants, S1 = inf", f5, [(fl[i], fl[5 + i]) for i in range(4)] + [((-sum(fl[:4])) % N, fl[9])], "44" * 32, two, False),
            ("four participants, S2 = inf", f5[:4], [(fl[i], fl[5 + i]) for i in range(3)] + [(fl[4], (-sum(fl[5:8])) % N)], "55" * 32, two, False),
            ("secrets 2, n-1; nonces n-1, n-2, 2, 3; three roots", [2, N - 1], [(N - 1, N - 2), (2, 3)], "00" * 32, ["", "bb" * 32, "cc" * 32], True),
        ]
    for i, (label, secrets, nonces, msg, roots, faults) in enumerate(bnd):
        cases.append({"secrets": [str(s) for s in secrets], "rep": 100 + i, "roots": roots, "nonces": [[str(k1), str(k2)] for k1, k2 in nonces], "msg": msg, "label": label, "faults": faults})
    return cases


def run_real_musig(case):
    from buidl import pecc, taproot

    res = Res()
    c = ec.SECP
    secrets = [int(s) for s in case["secrets"]]
    if "nonces" in case:
        nonces = [(int(k1), int(k2)) for k1, k2 in case["nonces"]]
        msg = bytes.fromhex(case["msg"])
    else:
        nonces = [(filler_int(case["rep"], "c13k1", i, 1, N - 1), filler_int(case["rep"], "c13k2", i, 1, N - 1)) for i in range(len(secrets))]
        msg = filler(case["rep"], "c13msg", len(secrets))
    shared = {}
    for j, root in enumerate(case["roots"]):
        vc = {"engine": "real-musig", "case": dict(case, roots=case["roots"][: j + 1])}
        faults = len(secrets) <= 3 and j < 2 and case.get("faults", True)
        # the wider fault model (size 3: the tweaked session only): second key set (rep 1) of each size, and the boundary cases that inject faults at all
        musig_scenario(res, pecc, taproot, c, None, secrets, nonces, msg, bytes.fromhex(root), vc, "real-musig", faults=faults, shared=shared, wide=faults and (case["rep"] == 1 or "nonces" in case) and (len(secrets) == 2 or j == 1))
    pars = tuple(c.mulg(d)[1] & 1 for d in secrets)
    res.ok(f"member parities {pars}")
    return res


# ------------------------------------------------------------------ k-of-n trees
def gen_real_trees(tier, seed):
    nmax = 4 if tier == "quick" else 5
    cases = []
    for n in range(1, nmax + 1):
        for k in range(1, n + 1):
            for kind in ("multi", "musig"):
                if kind == "musig" and k < 2:
                    continue
                for li in range(len(list(itertools.combinations(range(n), k)))):
                    cases.append({"n": n, "k": k, "kind": kind, "leaf": li})
    return cases


def gen_tl_trees(tier, seed):
    nmax = 4 if tier == "quick" else 5
    return [{"n": n, "k": k, "kind": kind, "variant": v} for n in range(1, nmax + 1) for k in range(1, n + 1) for kind in ("multi", "musig") if not (kind == "musig" and k < 2) for v in ("locktime", "sequence")]


def run_tl_trees(case):
    """k-of-n trees generated with a timelock: one leaf per k-subset, each leaf = timelock prefix + the leaf the plain
    tree has for that subset (so no leaf is spendable without the timelock, and no subset lost its leaf)."""
    from buidl import pecc, taproot
    from buidl.timelock import Locktime, Sequence

    res = Res()
    n, k, kind, variant = case["n"], case["k"], case["kind"], case["variant"]
    vc = {"engine": "timelock-trees", "case": case}
    points = [pecc.PrivateKey(d).point for d in tree_keys(n)]
    trm = attempt(taproot.TapRootMultiSig, points, k)
    if isinstance(trm, Rejected):
        res.violation(f"C13/timelock-trees/construct/{'n=1' if n == 1 else 'n>1'}", vc, repr(trm), "TapRootMultiSig", f"TapRootMultiSig cannot be constructed for {k}-of-{n}")
        return res
    build = trm.multi_leaf_tree if kind == "multi" else trm.musig_tree
    if variant == "locktime":
        tree = attempt(lambda: build(locktime=Locktime(500)))
        prefix = b"\x02\xf4\x01\xb1\x75"  # <500> OP_CHECKLOCKTIMEVERIFY OP_DROP
    else:
        tree = attempt(lambda: build(sequence=Sequence(5)))
        prefix = b"\x55\xb2\x75"  # OP_5 OP_CHECKSEQUENCEVERIFY OP_DROP
    plain = attempt(build)
    if isinstance(tree, Rejected) or isinstance(plain, Rejected):
        res.violation(f"C13/timelock-trees/build/{kind}", vc, repr(tree), "tree", "tree generation with a timelock fails")
        return res
    plain_scripts = sorted(l.tap_script.raw_serialize() for l in plain.leaves())
    got = sorted(l.tap_script.raw_serialize() for l in tree.leaves())
    want = sorted(prefix + sc for sc in plain_scripts)
    ncomb = len(list(itertools.combinations(range(n), k)))
    if len(plain_scripts) != ncomb or len(set(plain_scripts)) != ncomb:
        res.violation(f"C13/timelock-trees/plain-bijection/{kind}", vc, len(plain_scripts), ncomb, "plain tree: leaves are not in bijection with the k-subsets")
    elif got != want:
        cls = "timelock-dropped" if got == plain_scripts else ("leaf-count" if len(got) != ncomb else "leaf-scripts")
        res.violation(f"C13/timelock-trees/{cls}/{kind}/{'k=n' if k == n else 'k<n'}", vc, [g.hex()[:40] for g in got][:4], [w.hex()[:40] for w in want][:4], f"{k}-of-{n} {kind} tree with {variant}: leaves are not exactly <timelock prefix> + the plain leaf of each k-subset")
    else:
        res.ok("timelocked tree: one prefixed leaf per k-subset", nontrivial=(n, k, kind, variant), sample=case if (n, k) == (3, 2) else None)
    return res


def tree_keys(n, rep=0):
    """Key sets are fixed functions of (n, rep), never of the seed: rep 0 is the set every tree engine uses, rep >= 1
    are the further sets of the parity walk."""
    return [filler_int(n, "c13treekey" if rep == 0 else f"c13treekey-rep{rep}", i, 1, N - 1) for i in range(n)]


def run_real_trees(case):
    from buidl import pecc, taproot
    from buidl.script import P2TRScriptPubKey
    from buidl.tx import Tx, TxIn, TxOut
    from buidl.witness import Witness

    res = Res()
    c = ec.SECP
    n, k, kind, li = case["n"], case["k"], case["kind"], case["leaf"]
    vc = {"engine": "real-trees", "case": case}
    secrets = tree_keys(n)
    privs = [pecc.PrivateKey(d) for d in secrets]
    points = [p.point for p in privs]
    trm = attempt(taproot.TapRootMultiSig, points, k)
    if isinstance(trm, Rejected):
        res.violation(f"C13/real-trees/construct/{'n=1' if n == 1 else 'n>1'}", vc, repr(trm), "TapRootMultiSig", f"TapRootMultiSig cannot be constructed for {k}-of-{n}")
        return res
    tree = trm.multi_leaf_tree() if kind == "multi" else trm.musig_tree()
    leaves = tree.leaves()
    subsets = list(itertools.combinations(range(n), k))
    # bijection leaves <-> k-subsets
    if kind == "multi":
        def keyset(leaf):
            return frozenset(cmd for cmd in leaf.tap_script.commands if isinstance(cmd, bytes) and len(cmd) == 32)

        want = {frozenset(ec.b32(c.mulg(secrets[i])[0]) for i in s): s for s in subsets}
        got = [keyset(l) for l in leaves]
    else:
        want = {}
        for s in subsets:
            m = taproot.MuSigTapScript([points[i] for i in s])
            want[frozenset([m.point.xonly()])] = s
        got = [frozenset(cmd for cmd in l.tap_script.commands if isinstance(cmd, bytes) and len(cmd) == 32) for l in leaves]
    if len(leaves) != len(subsets) or set(got) != set(want) or len(set(got)) != len(got):
        res.violation(f"C13/real-trees/bijection/{kind}", vc, [sorted(x.hex() for x in g) for g in got][:4], f"{len(subsets)} leaves, one per {k}-subset", "leaves are not in bijection with the k-subsets")
        return res
    res.ok("leaves <-> k-subsets bijection", nontrivial=("bij", n, k, kind) if li == 0 else None)
    leaf = leaves[li]
    owner = want[got[li]]
    internal = trm.default_internal_pubkey
    root = tree.hash() if hasattr(tree, "hash") else leaf.hash()
    spk = internal.p2tr_script(root)
    spk_bytes = spk.raw_serialize()
    amount = 100000

    def spend(signers):
        tx_in = TxIn(b"\x42" * 32, li)
        tx_in._value = amount
        tx_in._script_pubkey = spk
        tx = Tx(2, [tx_in], [TxOut(amount - 1000, P2TRScriptPubKey(b"\x33" * 32))], 0, network="mainnet", segwit=True)
        cb = tree.control_block(internal, leaf)
        if kind == "multi":
            tx.initialize_p2tr_multisig(0, cb, leaf.tap_script)
            sigs = []
            for i, priv in enumerate(privs):
                sigs.append(tx.get_sig_taproot(0, priv, ext_flag=1) if i in signers else b"")
            ok = tx.finalize_p2tr_multisig(0, sigs)
        else:
            tx_in.witness = Witness([leaf.tap_script.raw_serialize(), cb.serialize()])
            musig = taproot.MuSigTapScript([points[i] for i in owner])
            msg = tx.sig_hash_bip341(0, ext_flag=1)
            nonces = {i: (filler_int(li, "tk1", i, 1, N - 1), filler_int(li, "tk2", i, 1, N - 1)) for i in owner}
            npts = [(nonces[i][0] * pecc.G, nonces[i][1] * pecc.G) for i in owner]
            sums = musig.nonce_sums(npts)
            r = musig.compute_r(sums, msg)
            s_sum = 0
            for i in owner:
                if i not in signers:
                    continue
                s_sum += musig.sign(privs[i], musig.compute_k(nonces[i], sums, msg), r, msg)
            if set(signers) == set(owner):
                sig = musig.get_signature(s_sum, r, msg).serialize()
            else:
                # a coalition that is not the leaf's subset can only put together a partial sum
                sig = r.xonly() + ec.b32(s_sum % N)
            tx_in.witness.items.insert(0, sig)
            ok = tx.verify_input(0)
        return tx, ok

    def to_abstract(tx):
        i = tx.tx_ins[0]
        return {
            "version": tx.version,
            "locktime": int(tx.locktime),
            "segwit": True,
            "ins": [{"prev": i.prev_tx, "index": i.prev_index, "script": i.script_sig.raw_serialize(), "seq": int(i.sequence), "witness": list(i.witness.items)}],
            "outs": [{"amount": o.amount, "script": o.script_pubkey.raw_serialize()} for o in tx.tx_outs],
        }

    r = attempt(spend, set(owner))
    if isinstance(r, Rejected):
        res.violation(f"C13/real-trees/own-subset-fails/{kind}", vc, repr(r), True, "spending the leaf with its own subset raises")
        return res
    tx, ok = r
    ref_ok = interp.verify_input(to_abstract(tx), 0, [(amount, spk_bytes)])
    if not ok or not attempt(tx.verify_input, 0) is True:
        res.violation(f"C13/real-trees/own-subset-rejected/{kind}", vc, ok, True, "leaf spent by its own subset does not verify")
    elif not ref_ok:
        res.violation(f"C13/real-trees/own-subset-invalid-by-reference/{kind}", vc, ok, ref_ok, "library accepts its own spend but the reference consensus verifier rejects it")
    else:
        res.ok("own subset verifies (library and reference)", nontrivial=("own", n, k, kind, li), sample=case)
    # any other subset of the same size
    others = [s for s in subsets if s != owner]
    if kind == "musig":
        others = others[:2]
    for s in others:
        r = attempt(spend, set(s))
        if isinstance(r, Rejected):
            res.ok("other subset: refused")
            continue
        tx2, ok2 = r
        lib = attempt(tx2.verify_input, 0) is True
        if lib:
            ref2 = interp.verify_input(to_abstract(tx2), 0, [(amount, spk_bytes)])
            if not ref2:
                res.violation(f"C13/real-trees/foreign-subset-accepted/{kind}", vc, True, False, f"leaf of subset {owner} verifies when signed by {s}")
            else:
                res.violation(f"C13/real-trees/foreign-subset-valid/{kind}", vc, True, False, "reference accepts a foreign subset too: leaves are not exclusive")
        else:
            res.ok("other subset: rejected", nontrivial=("other", n, k, kind, li, s))
    return res


# ------------------------------------------------------------------ spends of tree leaves: shared machinery
AMOUNT = 100000
HASH_TYPES = (0, 1, 2, 3, 0x81, 0x82, 0x83)


def keys32(leaf):
    return [cmd for cmd in leaf.tap_script.commands if isinstance(cmd, bytes) and len(cmd) == 32]


def csv_operand(leaf):
    """None, or the operand of a leading <v> OP_CHECKSEQUENCEVERIFY OP_DROP (decoded by the reference number decoder)."""
    cmds = leaf.tap_script.commands
    if len(cmds) >= 3 and cmds[1] == 0xB2 and cmds[2] == 0x75:
        op = cmds[0]
        if isinstance(op, int):
            return op - 0x50 if 0x51 <= op <= 0x60 else 0
        return interp.num_decode(op, 5)
    return None


def abstract_tx(tx):
    return {
        "version": tx.version,
        "locktime": int(tx.locktime),
        "segwit": True,
        "ins": [{"prev": i.prev_tx, "index": i.prev_index, "script": i.script_sig.raw_serialize(), "seq": int(i.sequence), "witness": list(i.witness.items)} for i in tx.tx_ins],
        "outs": [{"amount": o.amount, "script": o.script_pubkey.raw_serialize()} for o in tx.tx_outs],
    }


def tree_ctx(n, k, rep=0):
    from buidl import pecc, taproot

    secrets = tree_keys(n, rep)
    privs = [pecc.PrivateKey(d) for d in secrets]
    points = [p.point for p in privs]
    return secrets, privs, points, attempt(taproot.TapRootMultiSig, points, k)


def leaf_catalog(secrets, points, sizes, with_musig):
    """(kind, key material in the leaf) -> the subset of key indices it belongs to.  Member x-only keys by the reference;
    the aggregate of a subset is the library's own MuSigTapScript key (its validity is what the musig engines decide)."""
    from buidl import taproot

    xs = [ec.b32(ec.SECP.mulg(d)[0]) for d in secrets]
    cat = {}
    for m in sizes:
        for sub in itertools.combinations(range(len(secrets)), m):
            cat[("multi", frozenset(xs[i] for i in sub))] = sub
            if with_musig and m >= 2:
                cat[("musig", taproot.MuSigTapScript([points[i] for i in sub]).point.xonly())] = sub
    return cat


def classify(cat, leaf):
    ks = keys32(leaf)
    if len(ks) == 1 and ("musig", ks[0]) in cat:
        return "musig", cat[("musig", ks[0])]
    return "multi", cat.get(("multi", frozenset(ks)))


def spend_leaf(tree, internal, leaf, kind, privs, points, members, signers, ht=0, nin=1, idx=0, nout=1, seq=0xFFFFFFFF, order=None, salt=0):
    """Spend `leaf` of `tree` (internal key `internal`) in input `idx` of a transaction with nin inputs / nout outputs.
    members: key indices the leaf consists of; signers: key indices that sign; order: permutation applied to the list of
    signatures handed to finalize_p2tr_multisig.  Returns (tx, what the signing API reported, spent outputs)."""
    from buidl import pecc, taproot
    from buidl.script import P2TRScriptPubKey
    from buidl.tx import Tx, TxIn, TxOut
    from buidl.witness import Witness

    spk = internal.p2tr_script(tree.hash())
    ins = []
    for j in range(nin):
        ti = TxIn(bytes([0x42 + j]) * 32, j, sequence=seq)
        ti._value = AMOUNT + j
        ti._script_pubkey = spk
        ins.append(ti)
    outs = [TxOut(AMOUNT - 1000 - o, P2TRScriptPubKey(bytes([0x33 + o]) * 32)) for o in range(nout)]
    tx = Tx(2, ins, outs, 0, network="mainnet", segwit=True)
    cb = tree.control_block(internal, leaf)
    tx_in = tx.tx_ins[idx]
    if kind == "multi":
        tx.initialize_p2tr_multisig(idx, cb, leaf.tap_script)
        # ht may be a list: one hash type per key index (signers of one leaf need not agree on the hash type)
        hts = ht if isinstance(ht, (list, tuple)) else [ht] * len(privs)
        sigs = [tx.get_sig_taproot(idx, priv, ext_flag=1, hash_type=hts[i]) if i in signers else b"" for i, priv in enumerate(privs)]
        if order is not None:
            sigs = [sigs[i] for i in order]
        ok = tx.finalize_p2tr_multisig(idx, sigs)
    else:
        tx_in.witness = Witness([leaf.tap_script.raw_serialize(), cb.serialize()])
        musig = taproot.MuSigTapScript([points[i] for i in members])
        msg = tx.sig_hash_bip341(idx, ext_flag=1, hash_type=ht)
        nonces = {i: (filler_int(salt, "tk1", i, 1, N - 1), filler_int(salt, "tk2", i, 1, N - 1)) for i in members}
        sums = musig.nonce_sums([(nonces[i][0] * pecc.G, nonces[i][1] * pecc.G) for i in members])
        r = musig.compute_r(sums, msg)
        s_sum = sum(musig.sign(privs[i], musig.compute_k(nonces[i], sums, msg), r, msg) for i in members if i in signers)
        if set(members) <= set(signers):
            sig = musig.get_signature(s_sum, r, msg).serialize()
        else:
            sig = r.xonly() + ec.b32(s_sum % N)
        tx_in.witness.items.insert(0, sig + (bytes([ht]) if ht else b""))
        ok = tx.verify_input(idx)
    return tx, ok, [(AMOUNT + j, spk.raw_serialize()) for j in range(nin)]


def judge_own(res, engine, cls, vc, r, idx, what, nontrivial, sample=None):
    """A spend by the owning subset must be produced, verify under the library and under the reference."""
    if isinstance(r, Rejected):
        res.violation(f"C13/{engine}/own-subset-fails/{cls}", vc, repr(r), True, f"{what}: producing the spend raises")
        return False
    tx, ok, spent = r
    lib = attempt(tx.verify_input, idx) is True
    ref_ok = interp.verify_input(abstract_tx(tx), idx, spent)
    if not ok or not lib:
        res.violation(f"C13/{engine}/own-subset-rejected/{cls}", vc, [ok, lib], True, f"{what}: the spend signed by the leaf's own subset does not verify")
    elif not ref_ok:
        res.violation(f"C13/{engine}/own-subset-invalid-by-reference/{cls}", vc, True, False, f"{what}: the library accepts its own spend but the reference consensus verifier rejects it")
    else:
        res.ok("own subset verifies (library and reference)", nontrivial=nontrivial, sample=sample)
        return True
    return False


def judge_must_fail(res, engine, cls, vc, r, idx, what, nontrivial):
    """A spend that must not verify: whatever the library accepts, the reference must accept too."""
    if isinstance(r, Rejected):
        res.ok(f"{cls}: refused")
        return
    tx, ok, spent = r
    lib = attempt(tx.verify_input, idx) is True
    if (ok or lib) and not interp.verify_input(abstract_tx(tx), idx, spent):
        res.violation(f"C13/{engine}/invalid-spend-accepted/{cls}", vc, [ok, lib], False, f"{what}: accepted by the library, invalid under the reference consensus verifier")
    elif ok or lib:
        res.violation(f"C13/{engine}/invalid-spend-valid/{cls}", vc, [ok, lib], False, f"{what}: valid under library and reference, although it must not be")
    else:
        res.ok(f"{cls}: rejected", nontrivial=nontrivial)


# ------------------------------------------------------------------ spend variants
def gen_spend_variants(tier, seed):
    quick = tier == "quick"
    trees = [(3, 2)] if quick else [(n, k) for n in range(2, 5) for k in range(1, n + 1)]
    layouts = [(1, 0, 1), (3, 1, 3)] if quick else [(1, 0, 1), (2, 0, 2), (3, 1, 3), (3, 2, 3)]
    cases = []
    for n, k in trees:
        nleaves = len(list(itertools.combinations(range(n), k)))
        for kind in ("multi", "musig"):
            if kind == "musig" and k < 2:
                continue
            for li, (nin, idx, nout) in enumerate(layouts):
                for leaf in [li % nleaves] if quick else range(nleaves):
                    for ht in HASH_TYPES:
                        cases.append({"n": n, "k": k, "kind": kind, "leaf": leaf, "nin": nin, "idx": idx, "nout": nout, "ht": ht, "dim": "hash-type"})
    if quick:  # a tree that is a single leaf (no merkle path), all hash types
        cases += [{"n": 2, "k": 2, "kind": "multi", "leaf": 0, "nin": 1, "idx": 0, "nout": 1, "ht": ht, "dim": "hash-type"} for ht in HASH_TYPES]
    # SIGHASH_SINGLE without a matching output is invalid (BIP341): input 1 of 2, one output
    for n, k in [(3, 2)]:  # (a MuSig leaf needs k >= 2: not trees[0], which is 1-of-2 in the thorough tier)
        for kind in ("multi", "musig"):
            for ht in (3, 0x83):
                cases.append({"n": n, "k": k, "kind": kind, "leaf": 0, "nin": 2, "idx": 1, "nout": 1, "ht": ht, "dim": "single-no-output"})
    # the signers of one k-of-n multisig leaf use DIFFERENT hash types (each signature is valid for its own type)
    mixed = [(0, 1), (1, 0), (1, 0x81), (0x81, 1), (0, 0x83), (2, 3)] if quick else list(itertools.permutations(HASH_TYPES, 2))
    for a, b in mixed:
        cases.append({"n": 2, "k": 2, "kind": "multi", "leaf": 0, "nin": 2, "idx": 1, "nout": 2, "ht": [a, b], "dim": "mixed-hash-types"})
        cases.append({"n": 3, "k": 2, "kind": "multi", "leaf": 0, "nin": 1, "idx": 0, "nout": 1, "ht": [a, b, a], "dim": "mixed-hash-types"})
    # every order of the list of signatures given to finalize_p2tr_multisig
    for n, k in [(2, 2), (3, 2)] if quick else [(2, 1), (2, 2), (3, 1), (3, 2), (3, 3), (4, 2)]:
        for order in itertools.permutations(range(n)):
            cases.append({"n": n, "k": k, "kind": "multi", "leaf": 0, "nin": 1, "idx": 0, "nout": 1, "ht": 0, "dim": "sig-order", "order": list(order)})
    return cases


def run_spend_variants(case):
    from buidl import taproot

    res = Res()
    n, k, kind, li, dim = case["n"], case["k"], case["kind"], case["leaf"], case["dim"]
    vc = {"engine": "spend-variants", "case": case}
    secrets, privs, points, trm = tree_ctx(n, k)
    if isinstance(trm, Rejected):
        res.violation(f"C13/spend-variants/construct/{'n=1' if n == 1 else 'n>1'}", vc, repr(trm), "TapRootMultiSig", f"TapRootMultiSig cannot be constructed for {k}-of-{n}")
        return res
    tree = trm.multi_leaf_tree() if kind == "multi" else trm.musig_tree()
    leaf = tree.leaves()[li]
    cat = leaf_catalog(secrets, points, [k], kind == "musig")
    got_kind, owner = classify(cat, leaf)
    if owner is None or got_kind != kind:
        res.violation(f"C13/spend-variants/bijection/{kind}", vc, [x.hex() for x in keys32(leaf)], "the leaf of one k-subset", "leaf does not belong to a k-subset")
        return res
    r = attempt(spend_leaf, tree, trm.default_internal_pubkey, leaf, kind, privs, points, owner, set(owner), ht=case["ht"], nin=case["nin"], idx=case["idx"], nout=case["nout"], order=case.get("order"), salt=li)
    what = f"{k}-of-{n} {kind} leaf {li}, hash type {case['ht'] if isinstance(case['ht'], list) else hex(case['ht'])}, input {case['idx']} of {case['nin']}, {case['nout']} outputs" + (f", signatures in order {case['order']}" if "order" in case else "")
    key = (n, k, kind, li, tuple(case["ht"]) if isinstance(case["ht"], list) else case["ht"], case["nin"], case["idx"], case["nout"], tuple(case.get("order", ())))
    if dim == "single-no-output":
        judge_must_fail(res, "spend-variants", f"{kind}/{dim}", vc, r, case["idx"], what, key)
    else:
        judge_own(res, "spend-variants", f"{kind}/{dim}", vc, r, case["idx"], what, key, sample=case if case["ht"] == 0x83 else None)
    return res


# ------------------------------------------------------------------ composite generators
COMPOSITE = ("single_leaf", "musig_and_single_leaf_tree", "everything_tree", "degrading_multisig_tree")
DEGRADE_INTERVAL = 3


def composite_shape(gen, n, k):
    """[(kind, subset size, how many leaves)] a generator must produce: one leaf per subset of each listed size."""
    C = lambda m: len(list(itertools.combinations(range(n), m)))
    if gen == "single_leaf":
        return [("multi", n, 1)]
    if gen == "musig_and_single_leaf_tree":
        return [("multi", n, 1), ("musig", k, C(k))]
    if gen == "everything_tree":
        return [("multi", n, 1), ("multi", k, C(k)), ("musig", k, C(k))]
    return [("multi", m, C(m)) for m in range(k, 0, -1)]


def gen_composite(tier, seed):
    nmax = 3 if tier == "quick" else 4
    cases = []
    for n in range(1, nmax + 1):
        for k in range(1, n + 1):
            for gen in COMPOSITE:
                if "musig" in gen or gen == "everything_tree":
                    if k < 2:
                        continue  # a MuSig leaf of a single key is outside the statement
                nleaves = sum(cnt for _, _, cnt in composite_shape(gen, n, k))
                for li in range(nleaves):
                    cases.append({"n": n, "k": k, "gen": gen, "leaf": li})
    return cases


def run_composite(case):
    res = Res()
    n, k, gen, li = case["n"], case["k"], case["gen"], case["leaf"]
    vc = {"engine": "composite-trees", "case": case}
    secrets, privs, points, trm = tree_ctx(n, k)
    if isinstance(trm, Rejected):
        res.violation(f"C13/composite-trees/construct/{'n=1' if n == 1 else 'n>1'}", vc, repr(trm), "TapRootMultiSig", f"TapRootMultiSig cannot be constructed for {k}-of-{n}")
        return res
    if gen == "degrading_multisig_tree":
        tree = attempt(trm.degrading_multisig_tree, sequence_block_interval=DEGRADE_INTERVAL)
    else:
        tree = attempt(getattr(trm, gen))
    if isinstance(tree, Rejected):
        res.violation(f"C13/composite-trees/build/{gen}", vc, repr(tree), "tree", f"{gen} of {k}-of-{n} raises")
        return res
    shape = composite_shape(gen, n, k)
    leaves = tree.leaves()
    cat = leaf_catalog(secrets, points, sorted({m for _, m, _ in shape}), any(kd == "musig" for kd, _, _ in shape))
    cls = [classify(cat, l) for l in leaves]
    got = sorted((kd, sub) for kd, sub in cls if sub is not None)
    want = sorted((kd, sub) for kd, m, _ in shape for sub in itertools.combinations(range(n), m))
    if len(leaves) != len(want) or got != want:
        res.violation(f"C13/composite-trees/leaf-set/{gen}", vc, [[kd, list(sub) if sub else None] for kd, sub in cls][:8], [[kd, list(sub)] for kd, sub in want][:8], f"{gen} of {k}-of-{n}: the leaves are not exactly one per subset of the sizes the generator stands for")
        return res
    res.ok("composite tree: one leaf per subset", nontrivial=("shape", gen, n, k) if li == 0 else None)
    leaf = leaves[li]
    kind, members = cls[li]
    internal = trm.default_internal_pubkey
    # who signs: all members of the leaf, except on the k-of-n single leaf where a k-subset signs (chosen by the leaf's position)
    need = k if (kind == "multi" and len(members) == n and gen != "degrading_multisig_tree") else len(members)
    subsets = list(itertools.combinations(members, need))
    signer_sets = subsets if gen == "single_leaf" else [subsets[0], subsets[-1]] if len(subsets) > 1 else subsets
    v = csv_operand(leaf)
    seq = 0xFFFFFFFF if v is None else v
    for signers in signer_sets:
        r = attempt(spend_leaf, tree, internal, leaf, kind, privs, points, members, set(signers), seq=seq, salt=li)
        judge_own(res, "composite-trees", f"{gen}/{kind}", vc, r, 0, f"{gen} of {k}-of-{n}, leaf {li} ({kind} of keys {list(members)}) signed by {list(signers)}" + (f" with nSequence {seq}" if v is not None else ""), (gen, n, k, li, signers), sample=case if (n, k, li) == (3, 2, 1) else None)
    if v is not None and v > 0:
        # the relative timelock of a degraded leaf binds: one block earlier the same spend is invalid
        r = attempt(spend_leaf, tree, internal, leaf, kind, privs, points, members, set(signer_sets[0]), seq=v - 1, salt=li)
        judge_must_fail(res, "composite-trees", f"{gen}/early", vc, r, 0, f"{gen} of {k}-of-{n}, leaf {li} spent with nSequence {v - 1} < {v}", (gen, n, k, li, "early"))
    return res


# ------------------------------------------------------------------ parity walk
WALK_CAP = 16


def gen_parity_walk(tier, seed):
    nmax = 3 if tier == "quick" else 5
    return [{"n": n, "k": k, "kind": kind} for n in range(1, nmax + 1) for k in range(1, n + 1) for kind in ("multi", "musig") if not (kind == "musig" and k < 2)]


def run_parity_walk(case):
    """Key sets rep = 0, 1, ... (fixed functions of n and rep) until both parities of the output key (the control block's
    parity bit) and both parities of the internal key have been seen; each rep >= 1 that shows a new parity is spent
    (leaf rep mod #leaves, by its own subset); rep 0 is the key set real-trees spends leaf by leaf."""
    res = Res()
    c = ec.SECP
    n, k, kind = case["n"], case["k"], case["kind"]
    vc = {"engine": "tree-parity-walk", "case": case}
    seen_out, seen_int = set(), set()
    for rep in range(WALK_CAP):
        secrets, privs, points, trm = tree_ctx(n, k, rep)
        if isinstance(trm, Rejected):
            res.violation(f"C13/tree-parity-walk/construct/{'n=1' if n == 1 else 'n>1'}", dict(vc, rep=rep), repr(trm), "TapRootMultiSig", f"TapRootMultiSig cannot be constructed for {k}-of-{n}")
            return res
        tree = trm.multi_leaf_tree() if kind == "multi" else trm.musig_tree()
        internal = trm.default_internal_pubkey
        ip = pt(internal)
        out = ref_tweak(c, ip[0], tree.hash(), None)
        if out is None:
            res.skip("tweak undefined")
            continue
        fresh = out[1] not in seen_out or (ip[1] & 1) not in seen_int
        seen_out.add(out[1])
        seen_int.add(ip[1] & 1)
        if rep == 0:
            res.ok("rep 0: parities of the key set real-trees spends")
        elif fresh:
            leaves = tree.leaves()
            li = rep % len(leaves)
            leaf = leaves[li]
            got_kind, owner = classify(leaf_catalog(secrets, points, [k], kind == "musig"), leaf)
            if owner is None or got_kind != kind:
                res.violation(f"C13/tree-parity-walk/bijection/{kind}", dict(vc, rep=rep), [x.hex() for x in keys32(leaf)], "the leaf of one k-subset", "leaf does not belong to a k-subset")
                return res
            r = attempt(spend_leaf, tree, internal, leaf, kind, privs, points, owner, set(owner), salt=rep)
            judge_own(res, "tree-parity-walk", kind, dict(vc, rep=rep), r, 0, f"{k}-of-{n} {kind} tree of key set rep {rep} (output key parity {out[1]}, internal key parity {ip[1] & 1}), leaf {li}", (n, k, kind, rep))
        if len(seen_out) == 2 and len(seen_int) == 2:
            res.ok(f"both parities of output and internal key reached", nontrivial=("walk", n, k, kind))
            res.notes["parity_walk_max_rep"] = max(res.notes.get("parity_walk_max_rep", 0), rep)
            return res
    res.caps.append(f"tree-parity-walk {k}-of-{n} {kind}: not both parities within {WALK_CAP} key sets")
    return res


def engines(tier, seed):
    toys = [(43, 31)] if tier == "quick" else [(43, 31), (79, 67)]
    es = []
    for toy in toys:
        es.append(Engine(f"toy-musig-{toy[0]}", gen_toy_musig(toy), run_toy_musig, toy=toy, kind="E3", rule=f"toy curve p={toy[0]} n={toy[1]}: every pair of secrets and every 8th triple (thorough: every triple) x nonce-pair products (pairs: 3 nonce pairs per participant; triples: 2) x 2 messages (thorough 3) x (no root | root A | root B), plus per key set the 3 nonce vectors whose first / second / both components cancel (S1 = inf, S2 = inf, both; quick: message 1, no root | root A), all sessions of a key set on ONE MuSigTapScript object: honest aggregate must be valid under the reference BIP340 verifier for the (reference-tweaked) aggregate key; a session is degenerate only if the final nonce R = S1 + h*S2 is infinite (library's R, or the reference's with the BIP327 coefficient when the library raises); all permutations same key; every single omission / alteration, and on the first nonce vector and first message (thorough: every message) every single fault of {{negated, doubled, other message, other root, other participant's nonce, total + n}}, accepted only if the reference accepts; pairs sharing an x-only key (P and -P are one BIP340 key) skipped"))
    es += [
        Engine("real-musig", gen_real_musig, run_real_musig, kind="E1", rule="secp256k1: key sets of size 2..3 (thorough ..5), sessions (no root, root A, root B, no root) in turn on ONE MuSigTapScript object, explicit nonces: same oracle as toy-musig; omission/alteration of each partial signature for sizes <= 3, the six further fault kinds on the second key set of each size; plus explicit boundary cases: secrets {1, 2, 3, n-2, n-1}, nonces {1, 2, n-2, n-1}, messages {00.., ff.., n, n-1}, and nonce vectors of 2 and 3 participants (thorough: 4 and 5) whose first, second or both components cancel (valid aggregate demanded unless the final nonce is infinite)"),
        Engine("timelock-trees", gen_tl_trees, run_tl_trees, kind="E1", rule="every (k, n), 1 <= n <= 4 (thorough 5), multi_leaf_tree / musig_tree generated with locktime=500 and with sequence=5: the leaves are exactly <timelock prefix> + the plain tree's leaf for every k-subset (count C(n,k), no leaf without the timelock)"),
        Engine("real-trees", gen_real_trees, run_real_trees, kind="E1", rule="every (k, n) with 1 <= n <= 4 (thorough 5), multi_leaf_tree for k >= 1 and musig_tree for k >= 2, every leaf: leaves <-> k-subsets bijection; spend by the owning subset verifies under Tx.verify_input and under the reference consensus verifier (script path, control block, CHECKSIG/CHECKSIGADD, BIP341/342 digest); spend by every other k-subset is rejected"),
        Engine("spend-variants", gen_spend_variants, run_spend_variants, kind="E1", rule="2-of-2 and 2-of-3 multisig leaves whose signers use DIFFERENT hash types (6 ordered pairs, thorough all 42); 2-of-3 multi_leaf_tree and musig_tree (thorough: every (k, n), 2 <= n <= 4, every leaf), key set rep 0: the owning subset's spend for every hash type {00, 01, 02, 03, 81, 82, 83} x (inputs, signed input, outputs) in {(1,0,1), (3,1,3)} (thorough + (2,0,2), (3,2,3)), distinct amounts per input, and the single-leaf 2-of-2 tree for every hash type: verifies under finalize_p2tr_multisig / Tx.verify_input and the reference consensus verifier; SIGHASH_SINGLE (03, 83) on input 1 of 2 with one output: accepted only if the reference accepts; every permutation of the signature list handed to finalize_p2tr_multisig for 2-of-2 and 2-of-3 (thorough: 6 trees up to 2-of-4): verifies"),
        Engine("composite-trees", gen_composite, run_composite, kind="E1", rule=f"every (k, n), 1 <= n <= 3 (thorough 4), generators single_leaf, degrading_multisig_tree(sequence_block_interval={DEGRADE_INTERVAL}) for k >= 1 and musig_and_single_leaf_tree, everything_tree for k >= 2, every leaf: the leaves are exactly one per subset of the sizes the generator stands for (n-key k-of-n leaf; k-subsets as multisig and/or MuSig leaves; degrading: every m-subset, 1 <= m <= k); each leaf spent by its own subset (the k-of-n single leaf: by every k-subset for single_leaf, by the first and last k-subset inside composite trees) with nSequence = the leaf's own CSV operand if it has one verifies under the library and the reference consensus verifier; a CSV leaf spent with nSequence one lower: accepted only if the reference accepts"),
        Engine("tree-parity-walk", gen_parity_walk, run_parity_walk, kind="E1", rule=f"every (k, n), 1 <= n <= 3 (thorough 5), multi_leaf_tree and (k >= 2) musig_tree: key sets rep = 0, 1, .. (fixed functions of n and rep, independent of the seed; at most {WALK_CAP}, a cap would be reported) until both parities of the output key (control-block parity bit, by the reference tweak) and both parities of the internal key have occurred; every rep >= 1 showing a new parity: leaf (rep mod #leaves) spent by its own subset verifies under the library and the reference (rep 0 is the key set real-trees spends)"),
    ]
    return es
