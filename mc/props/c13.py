"""C13 — MuSig aggregation yields valid BIP340 signatures; k-of-n trees cover all subsets.

E3 toy-musig: every pair / triple of secrets of the toy group x nonce sets x messages x (with|without merkle
   root): sum of partial signatures -> get_signature valid under the reference BIP340 verifier for the
   (tweaked) aggregate key; all permutations give the same aggregate key; omitted / altered partial
   signatures accepted only if the reference accepts the result.
E1 real-musig: key sets of size 2..3 (thorough ..5) on secp256k1 covering the parity combinations.
E1 real-trees: every (k, n), n <= 4 (thorough 5): leaves <-> k-subsets bijection, every leaf spent by its own
   subset verifies under the library and under the reference consensus verifier; spent by another subset: rejected.
"""
import itertools

from mc.core import Engine, Res, attempt, Rejected, filler, filler_int, current_toy
from mc.ref import ec, txref, interp

PROP = "C13"
N = ec.SECP.n


def pt(P):
    return None if isinstance(P, Rejected) or P is None or P.x is None else (P.x.num, P.y.num)


def musig_scenario(res, pecc, taproot, c, toy, secrets, nonces, msg, root, vc, tag, faults=True, shared=None):
    """One complete MuSig run through the library API. secrets: list of ints; nonces: list of (k1, k2).
    shared: dict kept by the caller across scenarios of one key set, so that ONE MuSigTapScript object (and one set
    of key objects) serves plain and tweaked sessions in turn — state kept on the object between sessions is exposed."""
    n = c.n
    if shared is not None and "privs" in shared:
        privs = shared["privs"]
    else:
        privs = [pecc.PrivateKey(d) for d in secrets]
        if shared is not None:
            shared["privs"] = privs
    points = [p.point for p in privs]
    xs = [c.mulg(d)[0] for d in secrets]
    if len(set(xs)) != len(xs):
        res.skip("two participants share an x-only key (d and n-d): not a set of distinct keys")
        return
    if shared is not None and "musig" in shared:
        musig = shared["musig"]
    else:
        musig = attempt(taproot.MuSigTapScript, points)
        if shared is not None and not isinstance(musig, Rejected):
            shared["musig"] = musig
    if isinstance(musig, Rejected):
        res.violation(f"C13/{tag}/construct", vc, repr(musig), "MuSigTapScript", "cannot aggregate distinct keys")
        return
    agg = pt(musig.point)
    if agg is None:
        res.ok("degenerate: aggregate key is infinity")
        return
    # order independence
    for perm in itertools.permutations(range(len(points))):
        m2 = attempt(taproot.MuSigTapScript, [points[i] for i in perm])
        if isinstance(m2, Rejected) or pt(m2.point) != agg:
            res.violation(f"C13/{tag}/order-dependent", vc, repr(m2) if isinstance(m2, Rejected) else pt(m2.point), agg, "aggregate key depends on participant order")
            return
    res.ok("aggregate key order-independent")
    # external key by the reference
    if root:
        out = ref_tweak(c, agg[0], root, toy)
        if out is None:
            res.ok("degenerate: tweak undefined")
            return
        Q = out[0]
    else:
        Q = agg
    pk = ec.b32(Q[0])
    G = pecc.G
    nonce_points = [(k1 * G, k2 * G) for k1, k2 in nonces]
    if any(pt(a) is None or pt(b) is None for a, b in nonce_points):
        res.skip("zero nonce")
        return

    def run(omit=None, alter=None):
        sums = musig.nonce_sums(nonce_points)
        r = musig.compute_r(sums, msg)
        s_sum = 0
        for i, (priv, ns) in enumerate(zip(privs, nonces)):
            if i == omit:
                continue
            k = musig.compute_k(ns, sums, msg)
            s = musig.sign(priv, k, r, msg, root)
            if i == alter:
                s = (s + 1) % n
            s_sum += s
        return musig.get_signature(s_sum, r, msg, root).serialize()

    sums = attempt(musig.nonce_sums, nonce_points)
    if isinstance(sums, Rejected) or pt(sums[0]) is None or pt(sums[1]) is None:
        res.ok("degenerate: nonce sum at infinity")
        return
    r = attempt(musig.compute_r, sums, msg)
    if isinstance(r, Rejected) or pt(r) is None:
        res.ok("degenerate: aggregate nonce at infinity")
        return
    sig = attempt(run)
    if isinstance(sig, Rejected):
        cls = "honest-fails"
        if shared is not None:
            # does a fresh object succeed? then the failure is state left by an earlier session on the shared object
            fresh_res = Res()
            musig_scenario(fresh_res, pecc, taproot, c, toy, secrets, nonces, msg, root, vc, tag, faults=False, shared=None)
            if not fresh_res.n_violations:
                cls = "honest-fails-on-reused-object"
        res.violation(f"C13/{tag}/{cls}", vc, repr(sig), "valid signature", "sum of all partial signatures is refused by get_signature" + (" on a MuSigTapScript object that served another session (other merkle root) before" if cls != "honest-fails" else ""))
        return
    if not c.schnorr_verify(pk, msg, sig):
        res.violation(f"C13/{tag}/invalid-aggregate", vc, sig, "BIP340-valid under " + pk.hex(), "aggregate signature is not valid under the reference BIP340 verifier")
        return
    P = musig.point
    res.ok("aggregate valid", nontrivial=(tag, tuple(secrets), tuple(nonces), msg, root))
    res.notes.setdefault("parity_classes", {})
    if not faults:
        return
    for i in range(len(secrets)):
        for kind, kw in (("omit", {"omit": i}), ("alter", {"alter": i})):
            bad = attempt(run, **kw)
            if isinstance(bad, Rejected):
                res.ok(f"{kind} rejected")
            elif c.schnorr_verify(pk, msg, bad):
                res.ok(f"{kind} yields a coincidentally valid signature (reference agrees)")
            else:
                res.violation(f"C13/{tag}/{kind}-accepted", vc, bad, "rejection", f"{kind} of participant {i}'s partial signature returned an invalid aggregate as if valid")


def ref_tweak(c, px, root, toy):
    P = c.lift_x(px)
    if P is None:
        return None
    t = int.from_bytes(ec.tagged("TapTweak", ec.b32(px) + root), "big")
    if toy:
        t %= c.n
    elif t >= c.n:
        return None
    Q = c.add(P, c.mulg(t))
    return None if Q is None else (Q, Q[1] & 1)


# ------------------------------------------------------------------ toy
def gen_toy_musig(toy):
    def g(tier, seed):
        n = toy[1]
        cases = []
        for a, b in itertools.combinations(range(1, n), 2):
            cases.append({"toy": list(toy), "secrets": [a, b]})
        step = 1 if tier == "thorough" else 8
        triples = list(itertools.combinations(range(1, n), 3))
        for t in triples[::step]:
            cases.append({"toy": list(toy), "secrets": list(t)})
        return cases

    return g


TOY_NONCE_SET = [(1, 2), (3, 5), (7, 4)]


def run_toy_musig(case):
    from buidl import pecc, taproot

    res = Res()
    toy = tuple(case["toy"])
    assert current_toy() == toy and pecc.N == toy[1]
    c = ec.toy_curve(*toy)
    secrets = case["secrets"]
    vc = {"engine": f"toy-musig-{toy[0]}", "toy": list(toy), "case": case}
    n = c.n
    per = TOY_NONCE_SET[:2]
    shared = {}
    for nonces in itertools.product(per, repeat=len(secrets)):
        # distinct participants use distinct nonce pairs shifted by their index
        nn = [((k1 + 5 * i) % n or 1, (k2 + 11 * i) % n or 1) for i, (k1, k2) in enumerate(nonces)]
        for msg in (b"\x00" * 32, b"\x07" * 32):
            for root in (b"", b"\xaa" * 32, b"\xbb" * 32):
                musig_scenario(res, pecc, taproot, c, toy, secrets, nn, msg, root, dict(vc, case=dict(case, at=[list(map(list, nn)), msg.hex(), root.hex()])), f"toy-musig", shared=shared)
    return res


# ------------------------------------------------------------------ real musig
def gen_real_musig(tier, seed):
    sizes = [2, 3] if tier == "quick" else [2, 3, 4, 5]
    cases = []
    for sz in sizes:
        reps = 4 if tier == "quick" else 6
        for rep in range(reps):
            secrets = [filler_int(seed, f"c13-{sz}-{rep}", i, 1, N - 1) for i in range(sz)]
            cases.append({"secrets": [str(s) for s in secrets], "rep": rep, "roots": ["", "bb" * 32, "cc" * 32, ""]})
    return cases


def run_real_musig(case):
    from buidl import pecc, taproot

    res = Res()
    c = ec.SECP
    secrets = [int(s) for s in case["secrets"]]
    nonces = [(filler_int(case["rep"], "c13k1", i, 1, N - 1), filler_int(case["rep"], "c13k2", i, 1, N - 1)) for i in range(len(secrets))]
    msg = filler(case["rep"], "c13msg", len(secrets))
    shared = {}
    for j, root in enumerate(case["roots"]):
        vc = {"engine": "real-musig", "case": dict(case, roots=case["roots"][: j + 1])}
        musig_scenario(res, pecc, taproot, c, None, secrets, nonces, msg, bytes.fromhex(root), vc, "real-musig", faults=len(secrets) <= 3 and j < 2, shared=shared)
    pars = tuple(c.mulg(d)[1] & 1 for d in secrets)
    res.ok(f"member parities {pars}")
    return res


# ------------------------------------------------------------------ k-of-n trees
def gen_real_trees(tier, seed):
    nmax = 4 if tier == "quick" else 5
    cases = []
    for n in range(2, nmax + 1):
        for k in range(1, n + 1):
            for kind in ("multi", "musig"):
                if kind == "musig" and k < 2:
                    continue
                for li in range(len(list(itertools.combinations(range(n), k)))):
                    cases.append({"n": n, "k": k, "kind": kind, "leaf": li})
    return cases


def gen_tl_trees(tier, seed):
    nmax = 4 if tier == "quick" else 5
    return [{"n": n, "k": k, "kind": kind, "variant": v} for n in range(2, nmax + 1) for k in range(1, n + 1) for kind in ("multi", "musig") if not (kind == "musig" and k < 2) for v in ("locktime", "sequence")]


def run_tl_trees(case):
    """k-of-n trees generated with a timelock: one leaf per k-subset, each leaf = timelock prefix + the leaf the plain
    tree has for that subset (so no leaf is spendable without the timelock, and no subset lost its leaf)."""
    from buidl import pecc, taproot
    from buidl.timelock import Locktime, Sequence

    res = Res()
    n, k, kind, variant = case["n"], case["k"], case["kind"], case["variant"]
    vc = {"engine": "timelock-trees", "case": case}
    points = [pecc.PrivateKey(d).point for d in tree_keys(n)]
    trm = taproot.TapRootMultiSig(points, k)
    build = trm.multi_leaf_tree if kind == "multi" else trm.musig_tree
    if variant == "locktime":
        tree = attempt(lambda: build(locktime=Locktime(500)))
        prefix = b"\x02\xf4\x01\xb1\x75"  # <500> OP_CHECKLOCKTIMEVERIFY OP_DROP
    else:
        tree = attempt(lambda: build(sequence=Sequence(5)))
        prefix = b"\x55\xb2\x75"  # OP_5 OP_CHECKSEQUENCEVERIFY OP_DROP
    plain = attempt(build)
    if isinstance(tree, Rejected) or isinstance(plain, Rejected):
        res.violation(f"C13/timelock-trees/build/{kind}", vc, repr(tree), "tree", "tree generation with a timelock fails")
        return res
    plain_scripts = sorted(l.tap_script.raw_serialize() for l in plain.leaves())
    got = sorted(l.tap_script.raw_serialize() for l in tree.leaves())
    want = sorted(prefix + sc for sc in plain_scripts)
    ncomb = len(list(itertools.combinations(range(n), k)))
    if len(plain_scripts) != ncomb or len(set(plain_scripts)) != ncomb:
        res.violation(f"C13/timelock-trees/plain-bijection/{kind}", vc, len(plain_scripts), ncomb, "plain tree: leaves are not in bijection with the k-subsets")
    elif got != want:
        cls = "timelock-dropped" if got == plain_scripts else ("leaf-count" if len(got) != ncomb else "leaf-scripts")
        res.violation(f"C13/timelock-trees/{cls}/{kind}/{'k=n' if k == n else 'k<n'}", vc, [g.hex()[:40] for g in got][:4], [w.hex()[:40] for w in want][:4], f"{k}-of-{n} {kind} tree with {variant}: leaves are not exactly <timelock prefix> + the plain leaf of each k-subset")
    else:
        res.ok("timelocked tree: one prefixed leaf per k-subset", nontrivial=(n, k, kind, variant), sample=case if (n, k) == (3, 2) else None)
    return res


def tree_keys(n):
    return [filler_int(n, "c13treekey", i, 1, N - 1) for i in range(n)]


def run_real_trees(case):
    from buidl import pecc, taproot
    from buidl.script import P2TRScriptPubKey
    from buidl.tx import Tx, TxIn, TxOut
    from buidl.witness import Witness

    res = Res()
    c = ec.SECP
    n, k, kind, li = case["n"], case["k"], case["kind"], case["leaf"]
    vc = {"engine": "real-trees", "case": case}
    secrets = tree_keys(n)
    privs = [pecc.PrivateKey(d) for d in secrets]
    points = [p.point for p in privs]
    trm = taproot.TapRootMultiSig(points, k)
    tree = trm.multi_leaf_tree() if kind == "multi" else trm.musig_tree()
    leaves = tree.leaves()
    subsets = list(itertools.combinations(range(n), k))
    # bijection leaves <-> k-subsets
    if kind == "multi":
        def keyset(leaf):
            return frozenset(cmd for cmd in leaf.tap_script.commands if isinstance(cmd, bytes) and len(cmd) == 32)

        want = {frozenset(ec.b32(c.mulg(secrets[i])[0]) for i in s): s for s in subsets}
        got = [keyset(l) for l in leaves]
    else:
        want = {}
        for s in subsets:
            m = taproot.MuSigTapScript([points[i] for i in s])
            want[frozenset([m.point.xonly()])] = s
        got = [frozenset(cmd for cmd in l.tap_script.commands if isinstance(cmd, bytes) and len(cmd) == 32) for l in leaves]
    if len(leaves) != len(subsets) or set(got) != set(want) or len(set(got)) != len(got):
        res.violation(f"C13/real-trees/bijection/{kind}", vc, [sorted(x.hex() for x in g) for g in got][:4], f"{len(subsets)} leaves, one per {k}-subset", "leaves are not in bijection with the k-subsets")
        return res
    res.ok("leaves <-> k-subsets bijection", nontrivial=("bij", n, k, kind) if li == 0 else None)
    leaf = leaves[li]
    owner = want[got[li]]
    internal = trm.default_internal_pubkey
    root = tree.hash() if hasattr(tree, "hash") else leaf.hash()
    spk = internal.p2tr_script(root)
    spk_bytes = spk.raw_serialize()
    amount = 100000

    def spend(signers):
        tx_in = TxIn(b"\x42" * 32, li)
        tx_in._value = amount
        tx_in._script_pubkey = spk
        tx = Tx(2, [tx_in], [TxOut(amount - 1000, P2TRScriptPubKey(b"\x33" * 32))], 0, network="mainnet", segwit=True)
        cb = tree.control_block(internal, leaf)
        if kind == "multi":
            tx.initialize_p2tr_multisig(0, cb, leaf.tap_script)
            sigs = []
            for i, priv in enumerate(privs):
                sigs.append(tx.get_sig_taproot(0, priv, ext_flag=1) if i in signers else b"")
            ok = tx.finalize_p2tr_multisig(0, sigs)
        else:
            tx_in.witness = Witness([leaf.tap_script.raw_serialize(), cb.serialize()])
            musig = taproot.MuSigTapScript([points[i] for i in owner])
            msg = tx.sig_hash_bip341(0, ext_flag=1)
            nonces = {i: (filler_int(li, "tk1", i, 1, N - 1), filler_int(li, "tk2", i, 1, N - 1)) for i in owner}
            npts = [(nonces[i][0] * pecc.G, nonces[i][1] * pecc.G) for i in owner]
            sums = musig.nonce_sums(npts)
            r = musig.compute_r(sums, msg)
            s_sum = 0
            for i in owner:
                if i not in signers:
                    continue
                s_sum += musig.sign(privs[i], musig.compute_k(nonces[i], sums, msg), r, msg)
            if set(signers) == set(owner):
                sig = musig.get_signature(s_sum, r, msg).serialize()
            else:
                # a coalition that is not the leaf's subset can only put together a partial sum
                sig = r.xonly() + ec.b32(s_sum % N)
            tx_in.witness.items.insert(0, sig)
            ok = tx.verify_input(0)
        return tx, ok

    def to_abstract(tx):
        i = tx.tx_ins[0]
        return {
            "version": tx.version,
            "locktime": int(tx.locktime),
            "segwit": True,
            "ins": [{"prev": i.prev_tx, "index": i.prev_index, "script": i.script_sig.raw_serialize(), "seq": int(i.sequence), "witness": list(i.witness.items)}],
            "outs": [{"amount": o.amount, "script": o.script_pubkey.raw_serialize()} for o in tx.tx_outs],
        }

    r = attempt(spend, set(owner))
    if isinstance(r, Rejected):
        res.violation(f"C13/real-trees/own-subset-fails/{kind}", vc, repr(r), True, "spending the leaf with its own subset raises")
        return res
    tx, ok = r
    ref_ok = interp.verify_input(to_abstract(tx), 0, [(amount, spk_bytes)])
    if not ok or not attempt(tx.verify_input, 0) is True:
        res.violation(f"C13/real-trees/own-subset-rejected/{kind}", vc, ok, True, "leaf spent by its own subset does not verify")
    elif not ref_ok:
        res.violation(f"C13/real-trees/own-subset-invalid-by-reference/{kind}", vc, ok, ref_ok, "library accepts its own spend but the reference consensus verifier rejects it")
    else:
        res.ok("own subset verifies (library and reference)", nontrivial=("own", n, k, kind, li), sample=case)
    # any other subset of the same size
    others = [s for s in subsets if s != owner]
    if kind == "musig":
        others = others[:2]
    for s in others:
        r = attempt(spend, set(s))
        if isinstance(r, Rejected):
            res.ok("other subset: refused")
            continue
        tx2, ok2 = r
        lib = attempt(tx2.verify_input, 0) is True
        if lib:
            ref2 = interp.verify_input(to_abstract(tx2), 0, [(amount, spk_bytes)])
            if not ref2:
                res.violation(f"C13/real-trees/foreign-subset-accepted/{kind}", vc, True, False, f"leaf of subset {owner} verifies when signed by {s}")
            else:
                res.violation(f"C13/real-trees/foreign-subset-valid/{kind}", vc, True, False, "reference accepts a foreign subset too: leaves are not exclusive")
        else:
            res.ok("other subset: rejected", nontrivial=("other", n, k, kind, li, s))
    return res


def engines(tier, seed):
    toys = [(43, 31)] if tier == "quick" else [(43, 31), (79, 67)]
    es = []
    for toy in toys:
        es.append(Engine(f"toy-musig-{toy[0]}", gen_toy_musig(toy), run_toy_musig, toy=toy, kind="E3", rule=f"toy curve p={toy[0]} n={toy[1]}: every pair of secrets and every 8th triple (thorough: every triple) x nonce-pair products x 2 messages x (no root | root A | root B), all sessions of a key set on ONE MuSigTapScript object: honest aggregate must be valid under the reference BIP340 verifier for the (reference-tweaked) aggregate key; all permutations same key; every single omission / alteration accepted only if the reference accepts; pairs sharing an x-only key skipped"))
    es += [
        Engine("real-musig", gen_real_musig, run_real_musig, kind="E1", rule="secp256k1: key sets of size 2..3 (thorough ..5), sessions (no root, root A, root B, no root) in turn on ONE MuSigTapScript object, explicit nonces: same oracle as toy-musig; omission/alteration of each partial signature for sizes <= 3"),
        Engine("timelock-trees", gen_tl_trees, run_tl_trees, kind="E1", rule="every (k, n), 2 <= n <= 4 (thorough 5), multi_leaf_tree / musig_tree generated with locktime=500 and with sequence=5: the leaves are exactly <timelock prefix> + the plain tree's leaf for every k-subset (count C(n,k), no leaf without the timelock)"),
        Engine("real-trees", gen_real_trees, run_real_trees, kind="E1", rule="every (k, n) with 2 <= n <= 4 (thorough 5), multi_leaf_tree for k >= 1 and musig_tree for k >= 2, every leaf: leaves <-> k-subsets bijection; spend by the owning subset verifies under Tx.verify_input and under the reference consensus verifier (script path, control block, CHECKSIG/CHECKSIGADD, BIP341/342 digest); spend by every other k-subset is rejected"),
    ]
    return es
