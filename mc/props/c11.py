"""C11 — PSBT review summary is faithful: change is only what the wallet can spend.

E1 review: honest multisig PSBTs (P2SH through create_multisig_psbt, P2WSH through PSBT.create + lookups) for several
   m-of-n x inputs x {spend, spend+change, batch+change}; level 0: fee / spend / change sums and the change flag equal an
   independent recomputation; level 1 (thorough: 2): every tampering of a catalogue applied at the byte level through
   the reference BIP174 writer.  Oracle: describe_basic_multisig must raise, or - if it returns - must keep the
   arithmetic identities on the data in the PSBT and must not label as change an output that fails the independent
   rule (scriptPubKey commits by hash to an m-of-n script with the inputs' quorum holding exactly one key derived
   from each cosigner xpub at the stated path).  Tamperings that make attached data contradict the transaction must raise.
"""
import copy
import functools
import itertools
from io import BytesIO

from mc.core import Engine, Res, attempt, Rejected, filler
from mc.ref import ec, txref, psbtref, bip32ref

PROP = "C11"
H = 0x80000000
BASE = [45 + H, 0]
BASE_STR = "m/45'/0"
C = ec.SECP


@functools.lru_cache(maxsize=None)
def cosigner(i):
    root = bip32ref.master(filler(0, "c11seed", i, 32))
    acct = bip32ref.derive_priv(root, BASE)
    xpub = acct.neuter().ser(bip32ref.version_bytes("xpub"), False)
    return {"xfp": root.fingerprint(), "acct": acct.neuter(), "xpub": xpub}


@functools.lru_cache(maxsize=None)
def attacker(i):
    """Another wallet whose key records are LABELLED with the honest cosigners' fingerprints."""
    root = bip32ref.master(filler(0, "c11attacker", i, 32))
    acct = bip32ref.derive_priv(root, BASE)
    return {"xfp": cosigner(i)["xfp"], "acct": acct.neuter(), "xpub": acct.neuter().ser(bip32ref.version_bytes("xpub"), False)}


@functools.lru_cache(maxsize=None)
def attacker_sec(i, branch, idx):
    return bip32ref.derive_pub(attacker(i)["acct"], [branch, idx]).sec()


@functools.lru_cache(maxsize=None)
def child_sec(i, branch, idx):
    return bip32ref.derive_pub(cosigner(i)["acct"], [branch, idx]).sec()


def ms_script(m, secs):
    secs = sorted(secs)
    return bytes([0x50 + m]) + b"".join(txref.push(s) for s in secs) + bytes([0x50 + len(secs), 0xAE])


def spk_for(stype, script):
    if stype == "p2sh":
        return b"\xa9\x14" + txref.h160(script) + b"\x87"
    return b"\x00\x20" + txref.sha256(script)


def path_str(branch, idx):
    return f"{BASE_STR}/{branch}/{idx}"


def path_bytes(xfp, branch, idx):
    return xfp + b"".join(v.to_bytes(4, "little") for v in BASE + [branch, idx])


# ------------------------------------------------------------------ honest PSBT through the library
def build_honest(cfg, who="honest"):
    """-> raw PSBT bytes produced by the library for configuration cfg.
    who="attacker": the same shape built over the attacker's xpubs, labelled with the honest fingerprints."""
    cosigner = globals()["cosigner"] if who == "honest" else attacker
    child_sec = globals()["child_sec"] if who == "honest" else attacker_sec
    from buidl.hd import HDPublicKey
    from buidl.psbt import PSBT, NamedHDPublicKey
    from buidl.psbt_helper import create_multisig_psbt
    from buidl.script import WitnessScript, P2WPKHScriptPubKey, P2PKHScriptPubKey, address_to_script_pubkey
    from buidl.tx import Tx, TxIn, TxOut

    st, m, n, nin, shape = cfg["stype"], cfg["m"], cfg["n"], cfg["nin"], cfg["shape"]
    amt = 3000000
    in_scripts = [ms_script(m, [child_sec(i, 0, k) for i in range(n)]) for k in range(nin)]
    prev = {"version": 1, "locktime": 0, "segwit": False, "ins": [{"prev": b"\x99" * 32, "index": 0, "script": b"", "seq": 0xFFFFFFFF, "witness": []}], "outs": [{"amount": amt + k, "script": spk_for(st, s)} for k, s in enumerate(in_scripts)]}
    prev_raw = txref.ser_tx(prev)
    prev_id = txref.txid(prev)
    total_in = sum(o["amount"] for o in prev["outs"])
    change_script = ms_script(m, [child_sec(i, 1, 7) for i in range(n)])
    spends = [(400000, P2WPKHScriptPubKey(b"\x21" * 20)), (250000, P2PKHScriptPubKey(b"\x22" * 20))]
    outs = []  # (sats, kind, script_pubkey object or change marker)
    if shape == "spend":
        outs = [(total_in - 9000, "spend", spends[0][1])]
    elif shape == "spend+change":
        outs = [(spends[0][0], "spend", spends[0][1]), (total_in - spends[0][0] - 9000, "change", None)]
    else:  # batch+change
        outs = [(spends[0][0], "spend", spends[0][1]), (total_in - spends[0][0] - spends[1][0] - 9000, "change", None), (spends[1][0], "spend", spends[1][1])]
    if st == "p2sh":
        records = [[cosigner(i)["xfp"].hex(), cosigner(i)["xpub"], BASE_STR] for i in range(n)]
        input_dicts = [
            {"quorum_m": m, "path_dict": {cosigner(i)["xfp"].hex(): path_str(0, k) for i in range(n)}, "prev_tx_dict": {"hex": prev_raw.hex(), "hash_hex": prev_id, "output_idx": k, "output_sats": amt + k}}
            for k in range(nin)
        ]
        from buidl.script import RedeemScript

        output_dicts = []
        for sats, kind, spk in outs:
            if kind == "spend":
                output_dicts.append({"sats": sats, "address": spk.address("mainnet")})
            else:
                addr = RedeemScript.convert(change_script).address("mainnet")
                output_dicts.append({"sats": sats, "address": addr, "quorum_m": m, "path_dict": {cosigner(i)["xfp"].hex(): path_str(1, 7) for i in range(n)}})
        p = create_multisig_psbt(records, input_dicts, output_dicts, fee_sats=9000)
        return p.serialize()
    # p2wsh through PSBT.create + lookups
    pubkey_lookup, witness_lookup, hd_pubs = {}, {}, {}
    accts = [HDPublicKey.parse(cosigner(i)["xpub"]) for i in range(n)]
    for i in range(n):
        g = NamedHDPublicKey.from_hd_pub(HDPublicKey.parse(cosigner(i)["xpub"]), cosigner(i)["xfp"].hex(), BASE_STR)
        hd_pubs[g.serialize()] = g
        for branch, idx in [(0, k) for k in range(nin)] + [(1, 7)]:
            ch = accts[i].traverse(f"m/{branch}/{idx}")
            nm = NamedHDPublicKey.from_hd_pub(ch, cosigner(i)["xfp"].hex(), path_str(branch, idx))
            pubkey_lookup[nm.sec()] = nm
    for s in in_scripts + [change_script]:
        ws = WitnessScript.convert(s)
        witness_lookup[ws.sha256()] = ws
    prev_obj = Tx.parse(BytesIO(prev_raw))
    touts = []
    for sats, kind, spk in outs:
        touts.append(TxOut(sats, spk if kind == "spend" else WitnessScript.convert(change_script).script_pubkey()))
    tx = Tx(2, [TxIn(prev_obj.hash(), k) for k in range(nin)], touts, 0, network="mainnet", segwit=False)
    p = PSBT.create(tx, tx_lookup={prev_obj.hash(): prev_obj}, pubkey_lookup=pubkey_lookup, witness_lookup=witness_lookup, hd_pubs=hd_pubs)
    return p.serialize()


_cache = {}


def honest(cfg, who="honest"):
    key = (who,) + tuple(sorted(cfg.items()))
    if key not in _cache:
        _cache[key] = build_honest(cfg, who)
    return _cache[key]


def change_index(cfg):
    return {"spend": None, "spend+change": 1, "batch+change": 1}[cfg["shape"]]


# ------------------------------------------------------------------ the independent rule
def parse_ms(script):
    """-> (m, [33-byte keys]) if script is OP_m <keys> OP_n OP_CHECKMULTISIG else None"""
    try:
        from mc.ref import interp

        ops = interp.parse_script(script)
    except Exception:
        return None
    if len(ops) < 4 or ops[-1][0] != 0xAE:
        return None
    mop, nop = ops[0][0], ops[-2][0]
    if not (0x51 <= mop <= 0x60 and 0x51 <= nop <= 0x60):
        return None
    keys = [d for _, d in ops[1:-2]]
    if any(d is None or len(d) != 33 for d in keys) or len(keys) != nop - 0x50:
        return None
    return mop - 0x50, keys


def map_get(m, key):
    for k, v in m:
        if k == key:
            return v
    return None


def is_real_change(p, oi, cfg):
    """The independent rule, evaluated on the (possibly tampered) reference-parsed PSBT."""
    n, m = cfg["n"], cfg["m"]
    spk = p["tx"]["outs"][oi]["script"]
    omap = p["outs"][oi]
    cands = [v for k, v in omap if k in (b"\x00", b"\x01")]
    script = None
    for s in cands:
        if spk == b"\xa9\x14" + txref.h160(s) + b"\x87" or spk == b"\x00\x20" + txref.sha256(s):
            script = s
        # p2sh-p2wsh: redeem = 0020 sha256(ws)
        for w in cands:
            if s == b"\x00\x20" + txref.sha256(w) and spk == b"\xa9\x14" + txref.h160(s) + b"\x87":
                script = w
    if script is None:
        return False, "scriptPubKey does not commit to the attached script"
    ms = parse_ms(script)
    if ms is None or ms[0] != m or len(ms[1]) != n:
        return False, "attached script is not the inputs' m-of-n"
    used = set()
    for key in ms[1]:
        d = map_get(omap, b"\x02" + key)
        if d is None or len(d) < 4 or (len(d) - 4) % 4:
            return False, "a script key has no derivation"
        fp, path = d[:4], [int.from_bytes(d[4 + 4 * j : 8 + 4 * j], "little") for j in range((len(d) - 4) // 4)]
        who = [i for i in range(n) if cosigner(i)["xfp"] == fp]
        if not who or path[: len(BASE)] != BASE or any(x >= H for x in path[len(BASE) :]):
            return False, "derivation does not belong to a cosigner xpub"
        node = bip32ref.derive_pub(cosigner(who[0])["acct"], path[len(BASE) :])
        if node is None or node.sec() != key:
            return False, "key is not derived from the cosigner xpub at the stated path"
        used.add(who[0])
    if len(used) != n:
        return False, "keys do not come from n distinct cosigners"
    return True, ""


def ref_sums(p):
    """(sum of inputs, sum of outputs) from the data inside the PSBT, or None if some input has no UTXO data."""
    tin = 0
    for i, im in enumerate(p["ins"]):
        nw = map_get(im, b"\x00")
        w = map_get(im, b"\x01")
        if nw is not None:
            try:
                prev = txref.parse_tx(nw)
                tin += prev["outs"][p["tx"]["ins"][i]["index"]]["amount"]
            except Exception:
                return None
        elif w is not None:
            tin += int.from_bytes(w[:8], "little")
        else:
            return None
    return tin, sum(o["amount"] for o in p["tx"]["outs"])


# ------------------------------------------------------------------ tamperings
def set_map(m, key, val):
    for j, (k, v) in enumerate(m):
        if k == key:
            if val is None:
                del m[j]
            else:
                m[j] = (k, val)
            return
    if val is not None:
        m.append((key, val))


def retx(p):
    """re-serialise the (modified) unsigned tx into the global map"""
    set_map(p["global"], b"\x00", txref.ser_stripped(p["tx"]))


def tamperings(cfg):
    """name -> (function(p), must_raise) ; p is the reference-parsed PSBT (deep copy)."""
    st, m, n = cfg["stype"], cfg["m"], cfg["n"]
    ci = change_index(cfg)
    skey = b"\x00" if st == "p2sh" else b"\x01"  # output/input script key type (redeem / witness)
    in_skey = b"\x04" if st == "p2sh" else b"\x05"
    T = {}
    foreign = [bip32ref.master(filler(0, "c11foreign", i, 32)) for i in range(3)]
    fsecs = [bip32ref.derive_pub(bip32ref.derive_priv(f, BASE).neuter(), [1, 7]).sec() for f in foreign]

    def swap_spk(newspk):
        def f(p):
            p["tx"]["outs"][ci]["script"] = newspk
            retx(p)

        return f

    if ci is not None:
        other = ms_script(m, (fsecs * 2)[:n])
        T["out-spk-swapped-to-foreign-p2sh"] = (swap_spk(b"\xa9\x14" + txref.h160(other) + b"\x87"), True)
        T["out-spk-swapped-to-foreign-p2wsh"] = (swap_spk(b"\x00\x20" + txref.sha256(other)), True)
        T["out-spk-swapped-to-p2tr"] = (swap_spk(b"\x51\x20" + b"\x77" * 32), True)
        T["out-spk-swapped-to-p2pkh"] = (swap_spk(b"\x76\xa9\x14" + b"\x78" * 20 + b"\x88\xac"), True)
        T["out-spk-swapped-to-attacker-p2wpkh"] = (swap_spk(b"\x00\x14" + b"\x79" * 20), True)

        def foreign_script(p):
            set_map(p["outs"][ci], skey, other)

        T["out-script-foreign"] = (foreign_script, True)

        def foreign_script_and_spk(p):
            set_map(p["outs"][ci], skey, other)
            p["tx"]["outs"][ci]["script"] = spk_for(st, other)
            retx(p)

        T["out-script-foreign+matching-spk(derivations kept)"] = (foreign_script_and_spk, True)

        def foreign_xfp(p):
            om = p["outs"][ci]
            for j, (k, v) in enumerate(om):
                if k[:1] == b"\x02":
                    om[j] = (k, b"\xde\xad\xbe\xef" + v[4:])
                    return

        T["out-derivation-foreign-fingerprint"] = (foreign_xfp, None)

        def wrong_path(p):
            om = p["outs"][ci]
            for j, (k, v) in enumerate(om):
                if k[:1] == b"\x02":
                    om[j] = (k, v[:-4] + (8).to_bytes(4, "little"))
                    return

        T["out-derivation-wrong-path"] = (wrong_path, None)

        def one_cosigner(p):
            # change script whose n keys all derive from cosigner 0 (different indexes), derivations say so honestly
            secs = [child_sec(0, 1, 20 + j) for j in range(n)]
            sc = ms_script(m, secs)
            om = [(k, v) for k, v in p["outs"][ci] if k[:1] not in (b"\x00", b"\x01", b"\x02")]
            om.insert(0, (skey, sc))
            for j, s in enumerate(secs):
                om.append((b"\x02" + s, path_bytes(cosigner(0)["xfp"], 1, 20 + j)))
            p["outs"][ci] = om
            p["tx"]["outs"][ci]["script"] = spk_for(st, sc)
            retx(p)

        if n >= 2:
            T["out-all-keys-from-one-cosigner"] = (one_cosigner, None)

        def quorum(p):
            keys = [child_sec(i, 1, 7) for i in range(n)]
            newm = 1 if m > 1 else min(n, 2)
            if newm == m:
                return
            sc = ms_script(newm, keys)
            set_map(p["outs"][ci], skey, sc)
            p["tx"]["outs"][ci]["script"] = spk_for(st, sc)
            retx(p)

        if n >= 2:
            T["out-quorum-changed"] = (quorum, None)

        def drop_one_key(p):
            # (n-1) keys in the change script, spk consistent
            if n < 2:
                return
            keys = [child_sec(i, 1, 7) for i in range(n)][: n - 1]
            sc = ms_script(min(m, n - 1), keys)
            om = [(k, v) for k, v in p["outs"][ci] if not (k[:1] == b"\x02" and k[1:] not in keys)]
            p["outs"][ci] = om
            set_map(p["outs"][ci], skey, sc)
            p["tx"]["outs"][ci]["script"] = spk_for(st, sc)
            retx(p)

        if n >= 2:
            T["out-fewer-cosigners"] = (drop_one_key, None)

        def attacker_keys_with_honest_labels(p):
            # change script over the ATTACKER's keys, scriptPubKey consistent, every key's derivation labelled with
            # the honest cosigner's fingerprint and path
            secs = [attacker_sec(i, 1, 7) for i in range(n)]
            sc = ms_script(m, secs)
            om = [(k, v) for k, v in p["outs"][ci] if k[:1] not in (b"\x00", b"\x01", b"\x02")]
            om.insert(0, (skey, sc))
            for i, sk in enumerate(secs):
                om.append((b"\x02" + sk, path_bytes(cosigner(i)["xfp"], 1, 7)))
            p["outs"][ci] = om
            p["tx"]["outs"][ci]["script"] = spk_for(st, sc)
            retx(p)

        T["out-attacker-keys-labelled-with-cosigner-fingerprints"] = (attacker_keys_with_honest_labels, None)

        def both_scripts_foreign_spk(newspk):
            def f(p):
                # metadata of a p2sh-p2wsh change output (redeem script 0020<sha256(ws)> AND the honest witness script)
                # attached to an output that pays somewhere else
                om = [(k, v) for k, v in p["outs"][ci] if k[:1] not in (b"\x00", b"\x01")]
                ws = ms_script(m, [child_sec(i, 1, 7) for i in range(n)])
                om.insert(0, (b"\x01", ws))
                om.insert(0, (b"\x00", b"\x00\x20" + txref.sha256(ws)))
                p["outs"][ci] = om
                p["tx"]["outs"][ci]["script"] = newspk
                retx(p)

            return f

        T["out-both-scripts-attached+spk-foreign-p2wsh"] = (both_scripts_foreign_spk(b"\x00\x20" + b"\x6a" * 32), True)
        T["out-both-scripts-attached+spk-p2tr"] = (both_scripts_foreign_spk(b"\x51\x20" + b"\x6b" * 32), True)
        T["out-both-scripts-attached+spk-attacker-p2wpkh"] = (both_scripts_foreign_spk(b"\x00\x14" + b"\x6c" * 20), True)

        def second_change(p):
            p["tx"]["outs"].append(copy.deepcopy(p["tx"]["outs"][ci]))
            p["tx"]["outs"][-1]["amount"] = 1000
            p["outs"].append(copy.deepcopy(p["outs"][ci]))
            retx(p)

        T["second-change-output"] = (second_change, None)

        def change_amount(p):
            p["tx"]["outs"][ci]["amount"] -= 5000
            retx(p)

        T["out-change-amount-lowered(benign)"] = (change_amount, False)

        def script_type_swapped(p):
            # same script attached under the other key type (redeem <-> witness) without touching the spk
            v = map_get(p["outs"][ci], skey)
            set_map(p["outs"][ci], skey, None)
            p["outs"][ci].insert(0, (b"\x01" if skey == b"\x00" else b"\x00", v))

        T["out-script-under-other-key-type"] = (script_type_swapped, None)

    def spend_amount(p):
        p["tx"]["outs"][0]["amount"] += 3000
        retx(p)

    T["out-spend-amount-raised(benign)"] = (spend_amount, False)

    def utxo_amount(p):
        im = p["ins"][0]
        nw, w = map_get(im, b"\x00"), map_get(im, b"\x01")
        if nw is not None:
            prev = txref.parse_tx(nw)
            prev["outs"][p["tx"]["ins"][0]["index"]]["amount"] += 100000
            set_map(im, b"\x00", txref.ser_tx(prev))
        else:
            set_map(im, b"\x01", (int.from_bytes(w[:8], "little") + 100000).to_bytes(8, "little") + w[8:])

    T["in-utxo-amount-altered"] = (utxo_amount, True if st == "p2sh" else None)

    def utxo_other_tx(p):
        im = p["ins"][0]
        nw = map_get(im, b"\x00")
        if nw is not None:
            prev = txref.parse_tx(nw)
            prev["locktime"] = 5
            set_map(im, b"\x00", txref.ser_tx(prev))
        else:
            w = map_get(im, b"\x01")
            set_map(im, b"\x01", w[:8] + txref.varbytes(b"\x00\x20" + b"\x55" * 32))

    T["in-utxo-other-transaction-or-script"] = (utxo_other_tx, True)

    def in_script(p):
        other = ms_script(m, (fsecs * 2)[:n])
        set_map(p["ins"][0], in_skey, other)

    T["in-script-foreign"] = (in_script, True)

    def in_xfp(p):
        im = p["ins"][0]
        for j, (k, v) in enumerate(im):
            if k[:1] == b"\x06":
                im[j] = (k, b"\xde\xad\xbe\xef" + v[4:])
                return

    T["in-derivation-foreign-fingerprint"] = (in_xfp, True)

    def in_path(p):
        im = p["ins"][0]
        for j, (k, v) in enumerate(im):
            if k[:1] == b"\x06":
                im[j] = (k, v[:-4] + (9).to_bytes(4, "little"))
                return

    T["in-derivation-wrong-path"] = (in_path, True)

    def in_other_child(p):
        # one derivation entry (key AND path) replaced by another valid child of the same cosigner that is
        # not in the input script
        im = p["ins"][0]
        for j, (k, v) in enumerate(im):
            if k[:1] == b"\x06":
                who = [i for i in range(n) if cosigner(i)["xfp"] == v[:4]][0]
                im[j] = (b"\x06" + child_sec(who, 0, 40), path_bytes(cosigner(who)["xfp"], 0, 40))
                return

    T["in-derivation-replaced-by-other-child-of-same-cosigner"] = (in_other_child, True)

    if ci is not None:

        def out_other_child(p):
            om = p["outs"][ci]
            for j, (k, v) in enumerate(om):
                if k[:1] == b"\x02":
                    who = [i for i in range(n) if cosigner(i)["xfp"] == v[:4]][0]
                    om[j] = (b"\x02" + child_sec(who, 1, 41), path_bytes(cosigner(who)["xfp"], 1, 41))
                    return

        T["out-derivation-replaced-by-other-child-of-same-cosigner"] = (out_other_child, None)

    def in_outpoint(p):
        p["tx"]["ins"][0]["index"] ^= 1
        retx(p)

    T["in-outpoint-index-changed"] = (in_outpoint, None)
    return T


# ------------------------------------------------------------------ cases
def configs(tier):
    wallets = [(2, 3), (1, 2)] if tier == "quick" else [(1, 2), (2, 2), (2, 3), (3, 5)]
    out = []
    for m, n in wallets:
        for st in ("p2sh", "p2wsh"):
            for nin in (1, 2):
                for shape in ("spend", "spend+change", "batch+change"):
                    if tier == "quick" and ((nin == 2) != (shape == "batch+change")) and shape != "spend":
                        continue
                    out.append({"stype": st, "m": m, "n": n, "nin": nin, "shape": shape})
    return out


def gen_review(tier, seed):
    cases = []
    for cfg in configs(tier):
        for mode in ("map", "psbt-xpubs"):
            cases.append({"cfg": cfg, "devs": [], "mode": mode})
        names = list(tamperings(cfg))
        for nm in names:
            cases.append({"cfg": cfg, "devs": [nm], "mode": "map"})
        # histories: another wallet's PSBT (attacker's xpubs under the honest fingerprints, summarised with its own
        # global xpubs) is described FIRST in the same process, then the tampered honest PSBT with the trusted map
        if cfg["shape"] == "spend+change":
            for nm in names:
                if nm.startswith("out-attacker") or nm.startswith("out-derivation") or nm.startswith("out-all-keys") or nm.startswith("in-derivation"):
                    cases.append({"cfg": cfg, "devs": [nm], "mode": "map", "prelude": "attacker-wallet"})
            cases.append({"cfg": cfg, "devs": [], "mode": "map", "prelude": "attacker-wallet"})
        if tier == "thorough" and cfg["shape"] == "spend+change" and (cfg["m"], cfg["n"]) in ((2, 3), (1, 2)):
            for a, b in itertools.combinations(names, 2):
                cases.append({"cfg": cfg, "devs": [a, b], "mode": "map"})
    return cases


def run_review(case):
    from buidl.hd import HDPublicKey
    from buidl.psbt import PSBT

    res = Res()
    cfg = case["cfg"]
    vc = {"engine": "review", "case": case}
    label = f"{cfg['stype']}-{cfg['m']}of{cfg['n']}-{cfg['nin']}in-{cfg['shape']}"
    raw = attempt(honest, cfg)
    if isinstance(raw, Rejected):
        res.violation(f"C11/review/honest-build-fails/{cfg['stype']}", vc, repr(raw), "PSBT", f"{label}: the library cannot build the honest PSBT")
        return res
    p = copy.deepcopy(psbtref.parse(raw))
    T = tamperings(cfg)
    must_raise = False
    for nm in case["devs"]:
        f, mr = T[nm]
        try:
            f(p)
        except (IndexError, KeyError, TypeError):
            res.skip("tampering not applicable after the previous one")
            return res
        must_raise = must_raise or bool(mr)
    raw2 = psbtref.serialize(p)
    if case["devs"] and raw2 == raw:
        res.skip("tampering is the identity here")
        return res
    hdmap = {cosigner(i)["xfp"].hex(): HDPublicKey.parse(cosigner(i)["xpub"]) for i in range(cfg["n"])}
    if case.get("prelude") == "attacker-wallet":
        araw = attempt(honest, cfg, "attacker")
        if not isinstance(araw, Rejected):
            # whatever this returns or raises is not judged: it only has to have happened in this process
            attempt(lambda: PSBT.parse(BytesIO(araw), network="mainnet").describe_basic_multisig(hdpubkey_map={}))
            attempt(lambda: PSBT.parse(BytesIO(araw), network="mainnet").describe_basic_multisig(hdpubkey_map={attacker(i)["xfp"].hex(): HDPublicKey.parse(attacker(i)["xpub"]) for i in range(cfg["n"])}))

    def describe():
        obj = PSBT.parse(BytesIO(raw2), network="mainnet")
        return obj.describe_basic_multisig(hdpubkey_map=hdmap if case["mode"] == "map" else {})

    d = attempt(describe)
    devs = ("+".join(case["devs"]) or "honest") + ("/after-attacker-wallet" if case.get("prelude") else "")
    if isinstance(d, Rejected):
        if not case["devs"]:
            res.violation(f"C11/review/honest-rejected/{cfg['stype']}", vc, repr(d), "summary", f"{label}: honest PSBT is not summarised")
        else:
            res.ok("tampered PSBT rejected", nontrivial=(label, devs), sample={"config": label, "tampering": case["devs"], "result": "rejected"})
        return res
    # returned a summary: check it
    sums = ref_sums(p)
    ok = True
    if sums is not None:
        tin, tout = sums
        if d.get("tx_fee_sats") != tin - tout:
            res.violation(f"C11/review/fee-wrong/{devs}", vc, d.get("tx_fee_sats"), tin - tout, f"{label}: fee is not inputs minus outputs")
            ok = False
        elif d.get("spend_sats", 0) + d.get("change_sats", 0) + d.get("tx_fee_sats", 0) != tin:
            res.violation(f"C11/review/sums-wrong/{devs}", vc, (d.get("spend_sats"), d.get("change_sats"), d.get("tx_fee_sats")), tin, f"{label}: spend + change + fee != inputs")
            ok = False
    flagged = [i for i, o in enumerate(d.get("outputs_desc", [])) if o.get("is_change")]
    for oi in flagged:
        good, why = is_real_change(p, oi, cfg)
        if not good:
            res.violation(f"C11/review/fake-change/{cfg['stype']}/{devs}", vc, f"output {oi} labelled change", f"not change: {why}", f"{label}: [{devs}] output labelled change although {why}")
            ok = False
    if sum(d["outputs_desc"][i]["sats"] for i in flagged) != d.get("change_sats", 0):
        res.violation(f"C11/review/change-sum/{devs}", vc, d.get("change_sats"), "sum of flagged outputs", f"{label}: change_sats is not the sum of the outputs labelled change")
        ok = False
    if not case["devs"]:
        want = change_index(cfg)
        if flagged != ([want] if want is not None else []):
            res.violation(f"C11/review/honest-change-flag/{cfg['stype']}", vc, flagged, want, f"{label}: honest change output not (only) labelled change")
            ok = False
    elif must_raise and ok:
        # attached data contradicts the transaction: the statement requires an error, not a summary
        res.violation(f"C11/review/summarised-instead-of-rejected/{cfg['stype']}/{devs}", vc, "summary returned", "error", f"{label}: [{devs}] contradicts the transaction but is summarised")
        ok = False
    if ok:
        res.ok("summary faithful" if not case["devs"] else "tampered PSBT summarised faithfully (benign or change flag withheld)", nontrivial=(label, devs, case["mode"]), sample={"config": label, "tampering": case["devs"], "mode": case["mode"], "fee": d.get("tx_fee_sats"), "change_flags": flagged})
    return res


def engines(tier, seed):
    return [
        Engine(
            "review",
            gen_review,
            run_review,
            kind="E1",
            chunk=6,
            rule="honest PSBTs for wallets {2-of-3, 1-of-2} (thorough {1-of-2, 2-of-2, 2-of-3, 3-of-5}) x {P2SH via create_multisig_psbt, P2WSH via PSBT.create+lookups} x 1..2 inputs x {spend, spend+change, batch+change}, summarised with an explicit cosigner map and with the PSBT's own global xpubs; every single tampering of a ~24-entry byte-level catalogue (thorough: all pairs for two wallets); oracle: raise, or arithmetic identities + every output labelled change satisfies the independent rule recomputed with a reference BIP32; tamperings that contradict the transaction must raise",
        )
    ]
