"""C11 — PSBT review summary is faithful: change is only what the wallet can spend.

E1 review: honest multisig PSBTs (P2SH through create_multisig_psbt, P2WSH through PSBT.create + lookups) for several
   m-of-n x inputs x {spend, spend+change, batch+change}; level 0: fee / spend / change sums and the change flag equal an
   independent recomputation; level 1 (thorough: 2): every tampering of a catalogue applied at the byte level through
   the reference BIP174 writer.  Oracle: describe_basic_multisig must raise, or - if it returns - must keep the
   arithmetic identities on the data in the PSBT and must not label as change an output that fails the independent
   rule (scriptPubKey commits by hash to an m-of-n script with the inputs' quorum holding exactly one key derived
   from each cosigner xpub at the stated path).  Tamperings that make attached data contradict the transaction must raise.
"""
import copy
import functools
import itertools
from io import BytesIO

from mc.core import Engine, Res, attempt, Rejected, filler
from mc.ref import ec, txref, psbtref, bip32ref

PROP = "C11"
H = 0x80000000
BASE = [45 + H, 0]
BASE_STR = "m/45'/0"
C = ec.SECP


@functools.lru_cache(maxsize=None)
def cosigner(i):
    root = bip32ref.master(filler(0, "c11seed", i, 32))
    acct = bip32ref.derive_priv(root, BASE)
    xpub = acct.neuter().ser(bip32ref.version_bytes("xpub"), False)
    return {"xfp": root.fingerprint(), "acct": acct.neuter(), "xpub": xpub}


@functools.lru_cache(maxsize=None)
def attacker(i):
    """Another wallet whose key records are LABELLED with the honest cosigners' fingerprints."""
    root = bip32ref.master(filler(0, "c11attacker", i, 32))
    acct = bip32ref.derive_priv(root, BASE)
    return {"xfp": cosigner(i)["xfp"], "acct": acct.neuter(), "xpub": acct.neuter().ser(bip32ref.version_bytes("xpub"), False)}


@functools.lru_cache(maxsize=None)
def attacker_sec(i, branch, idx):
    return bip32ref.derive_pub(attacker(i)["acct"], [branch, idx]).sec()


@functools.lru_cache(maxsize=None)
def child_sec(i, branch, idx):
    return bip32ref.derive_pub(cosigner(i)["acct"], [branch, idx]).sec()


def ms_script(m, secs):
    secs = sorted(secs)
    return bytes([0x50 + m]) + b"".join(txref.push(s) for s in secs) + bytes([0x50 + len(secs), 0xAE])


def spk_for(stype, script):
    if stype == "p2sh":
        return b"\xa9\x14" + txref.h160(script) + b"\x87"
    return b"\x00\x20" + txref.sha256(script)


def path_str(branch, idx):
    return f"{BASE_STR}/{branch}/{idx}"


def path_bytes(xfp, branch, idx):
    return xfp + b"".join(v.to_bytes(4, "little") for v in BASE + [branch, idx])


# ------------------------------------------------------------------ honest PSBT through the library
def build_honest(cfg, who="honest"):
    """-> raw PSBT bytes produced by the library for configuration cfg.
    who="attacker": the same shape built over the attacker's xpubs, labelled with the honest fingerprints."""
    cosigner = globals()["cosigner"] if who == "honest" else attacker
    child_sec = globals()["child_sec"] if who == "honest" else attacker_sec
    from buidl.hd import HDPublicKey
    from buidl.psbt import PSBT, NamedHDPublicKey
    from buidl.psbt_helper import create_multisig_psbt
    from buidl.script import WitnessScript, P2WPKHScriptPubKey, P2PKHScriptPubKey, address_to_script_pubkey
    from buidl.tx import Tx, TxIn, TxOut

    st, m, n, nin, shape = cfg["stype"], cfg["m"], cfg["n"], cfg["nin"], cfg["shape"]
    amt = 3000000
    in_scripts = [ms_script(m, [child_sec(i, 0, k) for i in range(n)]) for k in range(nin)]
    prev = {"version": 1, "locktime": 0, "segwit": False, "ins": [{"prev": b"\x99" * 32, "index": 0, "script": b"", "seq": 0xFFFFFFFF, "witness": []}], "outs": [{"amount": amt + k, "script": spk_for(st, s)} for k, s in enumerate(in_scripts)]}
    prev_raw = txref.ser_tx(prev)
    prev_id = txref.txid(prev)
    total_in = sum(o["amount"] for o in prev["outs"])
    change_script = ms_script(m, [child_sec(i, 1, 7) for i in range(n)])
    spends = [(400000, P2WPKHScriptPubKey(b"\x21" * 20)), (250000, P2PKHScriptPubKey(b"\x22" * 20))]
    outs = []  # (sats, kind, script_pubkey object or change marker)
    if shape == "spend":
        outs = [(total_in - 9000, "spend", spends[0][1])]
    elif shape == "spend+change":
        outs = [(spends[0][0], "spend", spends[0][1]), (total_in - spends[0][0] - 9000, "change", None)]
    elif shape == "batch-same+change":
        # two of the three spend outputs pay the SAME address (first and last), another one in between
        outs = [(spends[0][0], "spend", spends[0][1]), (total_in - 2 * spends[0][0] - spends[1][0] - 10 - 9000, "change", None), (spends[1][0], "spend", spends[1][1]), (spends[0][0] + 10, "spend", spends[0][1])]
    else:  # batch+change
        outs = [(spends[0][0], "spend", spends[0][1]), (total_in - spends[0][0] - spends[1][0] - 9000, "change", None), (spends[1][0], "spend", spends[1][1])]
    if st == "p2sh":
        records = [[cosigner(i)["xfp"].hex(), cosigner(i)["xpub"], BASE_STR] for i in range(n)]
        input_dicts = [
            {"quorum_m": m, "path_dict": {cosigner(i)["xfp"].hex(): path_str(0, k) for i in range(n)}, "prev_tx_dict": {"hex": prev_raw.hex(), "hash_hex": prev_id, "output_idx": k, "output_sats": amt + k}}
            for k in range(nin)
        ]
        from buidl.script import RedeemScript

        output_dicts = []
        for sats, kind, spk in outs:
            if kind == "spend":
                output_dicts.append({"sats": sats, "address": spk.address("mainnet")})
            else:
                addr = RedeemScript.convert(change_script).address("mainnet")
                output_dicts.append({"sats": sats, "address": addr, "quorum_m": m, "path_dict": {cosigner(i)["xfp"].hex(): path_str(1, 7) for i in range(n)}})
        p = create_multisig_psbt(records, input_dicts, output_dicts, fee_sats=9000)
        return p.serialize()
    # p2wsh through PSBT.create + lookups
    pubkey_lookup, witness_lookup, hd_pubs = {}, {}, {}
    accts = [HDPublicKey.parse(cosigner(i)["xpub"]) for i in range(n)]
    for i in range(n):
        g = NamedHDPublicKey.from_hd_pub(HDPublicKey.parse(cosigner(i)["xpub"]), cosigner(i)["xfp"].hex(), BASE_STR)
        hd_pubs[g.serialize()] = g
        for branch, idx in [(0, k) for k in range(nin)] + [(1, 7)]:
            ch = accts[i].traverse(f"m/{branch}/{idx}")
            nm = NamedHDPublicKey.from_hd_pub(ch, cosigner(i)["xfp"].hex(), path_str(branch, idx))
            pubkey_lookup[nm.sec()] = nm
    for s in in_scripts + [change_script]:
        ws = WitnessScript.convert(s)
        witness_lookup[ws.sha256()] = ws
    prev_obj = Tx.parse(BytesIO(prev_raw))
    touts = []
    for sats, kind, spk in outs:
        touts.append(TxOut(sats, spk if kind == "spend" else WitnessScript.convert(change_script).script_pubkey()))
    tx = Tx(2, [TxIn(prev_obj.hash(), k) for k in range(nin)], touts, 0, network="mainnet", segwit=False)
    p = PSBT.create(tx, tx_lookup={prev_obj.hash(): prev_obj}, pubkey_lookup=pubkey_lookup, witness_lookup=witness_lookup, hd_pubs=hd_pubs)
    return p.serialize()


_cache = {}


def honest(cfg, who="honest"):
    key = (who,) + tuple(sorted(cfg.items()))
    if key not in _cache:
        _cache[key] = build_honest(cfg, who)
    return _cache[key]


def change_index(cfg):
    return {"spend": None, "spend+change": 1, "batch+change": 1, "batch-same+change": 1}[cfg["shape"]]


# ------------------------------------------------------------------ the independent rule
def parse_ms(script):
    """-> (m, [33-byte keys]) if script is OP_m <keys> OP_n OP_CHECKMULTISIG else None"""
    try:
        from mc.ref import interp

        ops = interp.parse_script(script)
    except Exception:
        return None
    if len(ops) < 4 or ops[-1][0] != 0xAE:
        return None
    mop, nop = ops[0][0], ops[-2][0]
    if not (0x51 <= mop <= 0x60 and 0x51 <= nop <= 0x60):
        return None
    keys = [d for _, d in ops[1:-2]]
    if any(d is None or len(d) != 33 for d in keys) or len(keys) != nop - 0x50:
        return None
    return mop - 0x50, keys


def map_get(m, key):
    for k, v in m:
        if k == key:
            return v
    return None


def is_real_change(p, oi, cfg):
    """The independent rule, evaluated on the (possibly tampered) reference-parsed PSBT."""
    n, m = cfg["n"], cfg["m"]
    spk = p["tx"]["outs"][oi]["script"]
    omap = p["outs"][oi]
    cands = [v for k, v in omap if k in (b"\x00", b"\x01")]
    script = None
    for s in cands:
        if spk == b"\xa9\x14" + txref.h160(s) + b"\x87" or spk == b"\x00\x20" + txref.sha256(s):
            script = s
        # p2sh-p2wsh: redeem = 0020 sha256(ws)
        for w in cands:
            if s == b"\x00\x20" + txref.sha256(w) and spk == b"\xa9\x14" + txref.h160(s) + b"\x87":
                script = w
    if script is None:
        return False, "scriptPubKey does not commit to the attached script"
    ms = parse_ms(script)
    if ms is None or ms[0] != m or len(ms[1]) != n:
        return False, "attached script is not the inputs' m-of-n"
    used = set()
    for key in ms[1]:
        d = map_get(omap, b"\x02" + key)
        if d is None or len(d) < 4 or (len(d) - 4) % 4:
            return False, "a script key has no derivation"
        fp, path = d[:4], [int.from_bytes(d[4 + 4 * j : 8 + 4 * j], "little") for j in range((len(d) - 4) // 4)]
        who = [i for i in range(n) if cosigner(i)["xfp"] == fp]
        if not who or path[: len(BASE)] != BASE or any(x >= H for x in path[len(BASE) :]):
            return False, "derivation does not belong to a cosigner xpub"
        if rel_sec(who[0], tuple(path[len(BASE) :])) != key:
            return False, "key is not derived from the cosigner xpub at the stated path"
        used.add(who[0])
    if len(used) != n:
        return False, "keys do not come from n distinct cosigners"
    return True, ""


def ref_sums(p):
    """(sum of inputs, sum of outputs) from the data inside the PSBT, or None if some input has no UTXO data."""
    tin = 0
    for i, im in enumerate(p["ins"]):
        nw = map_get(im, b"\x00")
        w = map_get(im, b"\x01")
        if nw is not None:
            try:
                prev = txref.parse_tx(nw)
                tin += prev["outs"][p["tx"]["ins"][i]["index"]]["amount"]
            except Exception:
                return None
        elif w is not None:
            tin += int.from_bytes(w[:8], "little")
        else:
            return None
    return tin, sum(o["amount"] for o in p["tx"]["outs"])


# ------------------------------------------------------------------ tamperings
def set_map(m, key, val):
    for j, (k, v) in enumerate(m):
        if k == key:
            if val is None:
                del m[j]
            else:
                m[j] = (k, val)
            return
    if val is not None:
        m.append((key, val))


def move_output(p, src, dst):
    """move output src (transaction output and its map) to index dst; every record stays consistent"""
    for lst in (p["tx"]["outs"], p["outs"]):
        lst.insert(dst, lst.pop(src))
    retx(p)


def retx(p):
    """re-serialise the (modified) unsigned tx into the global map"""
    set_map(p["global"], b"\x00", txref.ser_stripped(p["tx"]))


def tamperings(cfg, ii=0, ci=None):
    """name -> (function(p), must_raise) ; p is the reference-parsed PSBT (deep copy).
    ii: index of the input the in-* tamperings act on; ci: index of the change output (default: where the builder puts it)."""
    st, m, n = cfg["stype"], cfg["m"], cfg["n"]
    if ci is None:
        ci = change_index(cfg)
    si = 0 if ci != 0 else 1  # a spend output
    skey = b"\x00" if st == "p2sh" else b"\x01"  # output/input script key type (redeem / witness)
    in_skey = b"\x04" if st == "p2sh" else b"\x05"
    T = {}
    foreign = [bip32ref.master(filler(0, "c11foreign", i, 32)) for i in range(3)]
    fsecs = [bip32ref.derive_pub(bip32ref.derive_priv(f, BASE).neuter(), [1, 7]).sec() for f in foreign]

    def swap_spk(newspk):
        def f(p):
            p["tx"]["outs"][ci]["script"] = newspk
            retx(p)

        return f

    if ci is not None:
        other = ms_script(m, (fsecs * 2)[:n])
        T["out-spk-swapped-to-foreign-p2sh"] = (swap_spk(b"\xa9\x14" + txref.h160(other) + b"\x87"), True)
        T["out-spk-swapped-to-foreign-p2wsh"] = (swap_spk(b"\x00\x20" + txref.sha256(other)), True)
        T["out-spk-swapped-to-p2tr"] = (swap_spk(b"\x51\x20" + b"\x77" * 32), True)
        T["out-spk-swapped-to-p2pkh"] = (swap_spk(b"\x76\xa9\x14" + b"\x78" * 20 + b"\x88\xac"), True)
        T["out-spk-swapped-to-attacker-p2wpkh"] = (swap_spk(b"\x00\x14" + b"\x79" * 20), True)

        def foreign_script(p):
            set_map(p["outs"][ci], skey, other)

        T["out-script-foreign"] = (foreign_script, True)

        def foreign_script_and_spk(p):
            set_map(p["outs"][ci], skey, other)
            p["tx"]["outs"][ci]["script"] = spk_for(st, other)
            retx(p)

        T["out-script-foreign+matching-spk(derivations kept)"] = (foreign_script_and_spk, True)

        def foreign_xfp(p):
            om = p["outs"][ci]
            for j, (k, v) in enumerate(om):
                if k[:1] == b"\x02":
                    om[j] = (k, b"\xde\xad\xbe\xef" + v[4:])
                    return

        T["out-derivation-foreign-fingerprint"] = (foreign_xfp, None)

        def wrong_path(p):
            om = p["outs"][ci]
            for j, (k, v) in enumerate(om):
                if k[:1] == b"\x02":
                    om[j] = (k, v[:-4] + (8).to_bytes(4, "little"))
                    return

        T["out-derivation-wrong-path"] = (wrong_path, None)

        def one_cosigner(p):
            # change script whose n keys all derive from cosigner 0 (different indexes), derivations say so honestly
            secs = [child_sec(0, 1, 20 + j) for j in range(n)]
            sc = ms_script(m, secs)
            om = [(k, v) for k, v in p["outs"][ci] if k[:1] not in (b"\x00", b"\x01", b"\x02")]
            om.insert(0, (skey, sc))
            for j, s in enumerate(secs):
                om.append((b"\x02" + s, path_bytes(cosigner(0)["xfp"], 1, 20 + j)))
            p["outs"][ci] = om
            p["tx"]["outs"][ci]["script"] = spk_for(st, sc)
            retx(p)

        if n >= 2:
            T["out-all-keys-from-one-cosigner"] = (one_cosigner, None)

        def quorum(p):
            keys = [child_sec(i, 1, 7) for i in range(n)]
            newm = 1 if m > 1 else min(n, 2)
            if newm == m:
                return
            sc = ms_script(newm, keys)
            set_map(p["outs"][ci], skey, sc)
            p["tx"]["outs"][ci]["script"] = spk_for(st, sc)
            retx(p)

        if n >= 2:
            T["out-quorum-changed"] = (quorum, None)

        def drop_one_key(p):
            # (n-1) keys in the change script, spk consistent
            if n < 2:
                return
            keys = [child_sec(i, 1, 7) for i in range(n)][: n - 1]
            sc = ms_script(min(m, n - 1), keys)
            om = [(k, v) for k, v in p["outs"][ci] if not (k[:1] == b"\x02" and k[1:] not in keys)]
            p["outs"][ci] = om
            set_map(p["outs"][ci], skey, sc)
            p["tx"]["outs"][ci]["script"] = spk_for(st, sc)
            retx(p)

        if n >= 2:
            T["out-fewer-cosigners"] = (drop_one_key, None)

        def attacker_keys_with_honest_labels(p):
            # change script over the ATTACKER's keys, scriptPubKey consistent, every key's derivation labelled with
            # the honest cosigner's fingerprint and path
            secs = [attacker_sec(i, 1, 7) for i in range(n)]
            sc = ms_script(m, secs)
            om = [(k, v) for k, v in p["outs"][ci] if k[:1] not in (b"\x00", b"\x01", b"\x02")]
            om.insert(0, (skey, sc))
            for i, sk in enumerate(secs):
                om.append((b"\x02" + sk, path_bytes(cosigner(i)["xfp"], 1, 7)))
            p["outs"][ci] = om
            p["tx"]["outs"][ci]["script"] = spk_for(st, sc)
            retx(p)

        T["out-attacker-keys-labelled-with-cosigner-fingerprints"] = (attacker_keys_with_honest_labels, None)

        def both_scripts_foreign_spk(newspk):
            def f(p):
                # metadata of a p2sh-p2wsh change output (redeem script 0020<sha256(ws)> AND the honest witness script)
                # attached to an output that pays somewhere else
                om = [(k, v) for k, v in p["outs"][ci] if k[:1] not in (b"\x00", b"\x01")]
                ws = ms_script(m, [child_sec(i, 1, 7) for i in range(n)])
                om.insert(0, (b"\x01", ws))
                om.insert(0, (b"\x00", b"\x00\x20" + txref.sha256(ws)))
                p["outs"][ci] = om
                p["tx"]["outs"][ci]["script"] = newspk
                retx(p)

            return f

        T["out-both-scripts-attached+spk-foreign-p2wsh"] = (both_scripts_foreign_spk(b"\x00\x20" + b"\x6a" * 32), True)
        T["out-both-scripts-attached+spk-p2tr"] = (both_scripts_foreign_spk(b"\x51\x20" + b"\x6b" * 32), True)
        T["out-both-scripts-attached+spk-attacker-p2wpkh"] = (both_scripts_foreign_spk(b"\x00\x14" + b"\x6c" * 20), True)

        def second_change(p):
            p["tx"]["outs"].append(copy.deepcopy(p["tx"]["outs"][ci]))
            p["tx"]["outs"][-1]["amount"] = 1000
            p["outs"].append(copy.deepcopy(p["outs"][ci]))
            retx(p)

        T["second-change-output"] = (second_change, None)

        def change_amount(p):
            p["tx"]["outs"][ci]["amount"] -= 5000
            retx(p)

        T["out-change-amount-lowered(benign)"] = (change_amount, False)

        def script_type_swapped(p):
            # same script attached under the other key type (redeem <-> witness) without touching the spk
            v = map_get(p["outs"][ci], skey)
            set_map(p["outs"][ci], skey, None)
            p["outs"][ci].insert(0, (b"\x01" if skey == b"\x00" else b"\x00", v))

        T["out-script-under-other-key-type"] = (script_type_swapped, None)

    def spend_amount(p):
        p["tx"]["outs"][si]["amount"] += 3000
        retx(p)

    T["out-spend-amount-raised(benign)"] = (spend_amount, False)

    def utxo_amount(p):
        im = p["ins"][ii]
        nw, w = map_get(im, b"\x00"), map_get(im, b"\x01")
        if nw is not None:
            prev = txref.parse_tx(nw)
            prev["outs"][p["tx"]["ins"][ii]["index"]]["amount"] += 100000
            set_map(im, b"\x00", txref.ser_tx(prev))
        else:
            set_map(im, b"\x01", (int.from_bytes(w[:8], "little") + 100000).to_bytes(8, "little") + w[8:])

    T["in-utxo-amount-altered"] = (utxo_amount, True if st == "p2sh" else None)

    def utxo_other_tx(p):
        im = p["ins"][ii]
        nw = map_get(im, b"\x00")
        if nw is not None:
            prev = txref.parse_tx(nw)
            prev["locktime"] = 5
            set_map(im, b"\x00", txref.ser_tx(prev))
        else:
            w = map_get(im, b"\x01")
            set_map(im, b"\x01", w[:8] + txref.varbytes(b"\x00\x20" + b"\x55" * 32))

    T["in-utxo-other-transaction-or-script"] = (utxo_other_tx, True)

    def in_script(p):
        other = ms_script(m, (fsecs * 2)[:n])
        set_map(p["ins"][ii], in_skey, other)

    T["in-script-foreign"] = (in_script, True)

    def in_xfp(p):
        im = p["ins"][ii]
        for j, (k, v) in enumerate(im):
            if k[:1] == b"\x06":
                im[j] = (k, b"\xde\xad\xbe\xef" + v[4:])
                return

    T["in-derivation-foreign-fingerprint"] = (in_xfp, True)

    def in_path(p):
        im = p["ins"][ii]
        for j, (k, v) in enumerate(im):
            if k[:1] == b"\x06":
                im[j] = (k, v[:-4] + (9).to_bytes(4, "little"))
                return

    T["in-derivation-wrong-path"] = (in_path, True)

    def in_other_child(p):
        # one derivation entry (key AND path) replaced by another valid child of the same cosigner that is
        # not in the input script
        im = p["ins"][ii]
        for j, (k, v) in enumerate(im):
            if k[:1] == b"\x06":
                who = [i for i in range(n) if cosigner(i)["xfp"] == v[:4]][0]
                im[j] = (b"\x06" + child_sec(who, 0, 40), path_bytes(cosigner(who)["xfp"], 0, 40))
                return

    T["in-derivation-replaced-by-other-child-of-same-cosigner"] = (in_other_child, True)

    if ci is not None:

        def out_other_child(p):
            om = p["outs"][ci]
            for j, (k, v) in enumerate(om):
                if k[:1] == b"\x02":
                    who = [i for i in range(n) if cosigner(i)["xfp"] == v[:4]][0]
                    om[j] = (b"\x02" + child_sec(who, 1, 41), path_bytes(cosigner(who)["xfp"], 1, 41))
                    return

        T["out-derivation-replaced-by-other-child-of-same-cosigner"] = (out_other_child, None)

    def in_outpoint(p):
        p["tx"]["ins"][ii]["index"] ^= 1
        retx(p)

    T["in-outpoint-index-changed"] = (in_outpoint, None)
    return T


# ------------------------------------------------------------------ cases
def configs(tier):
    wallets = [(2, 3), (1, 2)] if tier == "quick" else [(1, 2), (2, 2), (2, 3), (3, 5)]
    out = []
    for m, n in wallets:
        for st in ("p2sh", "p2wsh"):
            for nin in (1, 2):
                for shape in ("spend", "spend+change", "batch+change"):
                    if tier == "quick" and ((nin == 2) != (shape == "batch+change")) and shape != "spend":
                        continue
                    out.append({"stype": st, "m": m, "n": n, "nin": nin, "shape": shape})
            if (m, n) == (2, 3) or tier == "thorough":
                out.append({"stype": st, "m": m, "n": n, "nin": 1, "shape": "batch-same+change"})
    return out


def gen_review(tier, seed):
    cases = []
    for cfg in configs(tier):
        for mode in ("map", "psbt-xpubs"):
            cases.append({"cfg": cfg, "devs": [], "mode": mode})
        names = list(tamperings(cfg))
        for nm in names:
            cases.append({"cfg": cfg, "devs": [nm], "mode": "map"})
        # histories: another wallet's PSBT (attacker's xpubs under the honest fingerprints, summarised with its own
        # global xpubs) is described FIRST in the same process, then the tampered honest PSBT with the trusted map
        if cfg["shape"] == "spend+change":
            for nm in names:
                if nm.startswith("out-attacker") or nm.startswith("out-derivation") or nm.startswith("out-all-keys") or nm.startswith("in-derivation"):
                    cases.append({"cfg": cfg, "devs": [nm], "mode": "map", "prelude": "attacker-wallet"})
            cases.append({"cfg": cfg, "devs": [], "mode": "map", "prelude": "attacker-wallet"})
        if tier == "thorough" and cfg["shape"] == "spend+change" and (cfg["m"], cfg["n"]) in ((2, 3), (1, 2)):
            for a, b in itertools.combinations(names, 2):
                cases.append({"cfg": cfg, "devs": [a, b], "mode": "map"})
    return cases


def run_review(case):
    from buidl.hd import HDPublicKey
    from buidl.psbt import PSBT

    res = Res()
    cfg = case["cfg"]
    vc = {"engine": "review", "case": case}
    label = f"{cfg['stype']}-{cfg['m']}of{cfg['n']}-{cfg['nin']}in-{cfg['shape']}"
    raw = attempt(honest, cfg)
    if isinstance(raw, Rejected):
        res.violation(f"C11/review/honest-build-fails/{cfg['stype']}", vc, repr(raw), "PSBT", f"{label}: the library cannot build the honest PSBT")
        return res
    p = copy.deepcopy(psbtref.parse(raw))
    cp = case.get("cp")
    if cp is not None:
        # positions engine: the same honest PSBT with its change output moved to index cp
        move_output(p, change_index(cfg), cp)
        raw = psbtref.serialize(p)
        label += f"-change@{cp}-in@{case.get('ii', 0)}"
    T = tamperings(cfg, ii=case.get("ii", 0), ci=cp)
    must_raise = False
    for nm in case["devs"]:
        f, mr = T[nm]
        try:
            f(p)
        except (IndexError, KeyError, TypeError):
            res.skip("tampering not applicable after the previous one")
            return res
        must_raise = must_raise or bool(mr)
    raw2 = psbtref.serialize(p)
    if case["devs"] and raw2 == raw:
        res.skip("tampering is the identity here")
        return res
    hdmap = {cosigner(i)["xfp"].hex(): HDPublicKey.parse(cosigner(i)["xpub"]) for i in range(cfg["n"])}
    if case.get("prelude") == "attacker-wallet":
        araw = attempt(honest, cfg, "attacker")
        if not isinstance(araw, Rejected):
            # whatever this returns or raises is not judged: it only has to have happened in this process
            attempt(lambda: PSBT.parse(BytesIO(araw), network="mainnet").describe_basic_multisig(hdpubkey_map={}))
            attempt(lambda: PSBT.parse(BytesIO(araw), network="mainnet").describe_basic_multisig(hdpubkey_map={attacker(i)["xfp"].hex(): HDPublicKey.parse(attacker(i)["xpub"]) for i in range(cfg["n"])}))

    def describe():
        obj = PSBT.parse(BytesIO(raw2), network="mainnet")
        return obj.describe_basic_multisig(hdpubkey_map=hdmap if case["mode"] == "map" else {})

    d = attempt(describe)
    devs = ("+".join(case["devs"]) or "honest") + ("/after-attacker-wallet" if case.get("prelude") else "")
    if isinstance(d, Rejected):
        if not case["devs"]:
            res.violation(f"C11/review/honest-rejected/{cfg['stype']}", vc, repr(d), "summary", f"{label}: honest PSBT is not summarised")
        else:
            res.ok("tampered PSBT rejected", nontrivial=(label, devs), sample={"config": label, "tampering": case["devs"], "result": "rejected"})
        return res
    # returned a summary: check it
    sums = ref_sums(p)
    ok = True
    if sums is not None:
        tin, tout = sums
        if d.get("tx_fee_sats") != tin - tout:
            res.violation(f"C11/review/fee-wrong/{devs}", vc, d.get("tx_fee_sats"), tin - tout, f"{label}: fee is not inputs minus outputs")
            ok = False
        elif d.get("spend_sats", 0) + d.get("change_sats", 0) + d.get("tx_fee_sats", 0) != tin:
            res.violation(f"C11/review/sums-wrong/{devs}", vc, (d.get("spend_sats"), d.get("change_sats"), d.get("tx_fee_sats")), tin, f"{label}: spend + change + fee != inputs")
            ok = False
    flagged = [i for i, o in enumerate(d.get("outputs_desc", [])) if o.get("is_change")]
    for oi in flagged:
        good, why = is_real_change(p, oi, cfg)
        if not good:
            res.violation(f"C11/review/fake-change/{cfg['stype']}/{devs}", vc, f"output {oi} labelled change", f"not change: {why}", f"{label}: [{devs}] output labelled change although {why}")
            ok = False
    if sum(d["outputs_desc"][i]["sats"] for i in flagged) != d.get("change_sats", 0):
        res.violation(f"C11/review/change-sum/{devs}", vc, d.get("change_sats"), "sum of flagged outputs", f"{label}: change_sats is not the sum of the outputs labelled change")
        ok = False
    if not case["devs"]:
        want = change_index(cfg) if cp is None else cp
        if flagged != ([want] if want is not None else []):
            res.violation(f"C11/review/honest-change-flag/{cfg['stype']}", vc, flagged, want, f"{label}: honest change output not (only) labelled change")
            ok = False
    elif must_raise and ok:
        # attached data contradicts the transaction: the statement requires an error, not a summary
        res.violation(f"C11/review/summarised-instead-of-rejected/{cfg['stype']}/{devs}", vc, "summary returned", "error", f"{label}: [{devs}] contradicts the transaction but is summarised")
        ok = False
    if ok:
        res.ok("summary faithful" if not case["devs"] else "tampered PSBT summarised faithfully (benign or change flag withheld)", nontrivial=(label, devs, case["mode"]), sample={"config": label, "tampering": case["devs"], "mode": case["mode"], "fee": d.get("tx_fee_sats"), "change_flags": flagged})
    return res


# ================================================================== phase 2: shared helpers of the additional engines
MAX_MONEY = 21 * 10**14
OPN = lambda v: bytes([0x50 + v]) if v else b"\x00"
WHY = {
    "scriptPubKey does not commit to the attached script": "spk-does-not-commit",
    "attached script is not the inputs' m-of-n": "script-not-m-of-n",
    "a script key has no derivation": "key-without-derivation",
    "derivation does not belong to a cosigner xpub": "derivation-not-from-cosigner-xpub",
    "key is not derived from the cosigner xpub at the stated path": "key-not-at-stated-path",
    "keys do not come from n distinct cosigners": "cosigners-not-distinct",
}


@functools.lru_cache(maxsize=None)
def rel_sec(i, rel):
    """SEC key of cosigner i's account xpub at the relative (unhardened) path rel (a tuple); None if underivable"""
    node = bip32ref.derive_pub(cosigner(i)["acct"], list(rel))
    return None if node is None else node.sec()


def strip_xpubs(p):
    p["global"] = [(k, v) for k, v in p["global"] if k[:1] != b"\x01"]


def base(cfg, xpubs=False):
    """Reference parse (deep copy) of the library-built honest PSBT.  xpubs=False drops the optional global xpub
    records: the PSBT stays honest, the library just does not re-derive every key against them at parse time."""
    p = copy.deepcopy(psbtref.parse(honest(cfg)))
    if not xpubs:
        strip_xpubs(p)
    return p


def hd_map(n):
    from buidl.hd import HDPublicKey

    return {cosigner(i)["xfp"].hex(): HDPublicKey.parse(cosigner(i)["xpub"]) for i in range(n)}


def lib_describe(raw, n, mode="map"):
    from buidl.psbt import PSBT

    hdmap = hd_map(n) if mode == "map" else {}
    return attempt(lambda: PSBT.parse(BytesIO(raw), network="mainnet").describe_basic_multisig(hdpubkey_map=hdmap))


def pushes(script):
    """data items pushed by the script, or None if it does not parse"""
    try:
        from mc.ref import interp

        return [d for _, d in interp.parse_script(script) if d]
    except Exception:
        return None


def p2sh(script):
    return b"\xa9\x14" + txref.h160(script) + b"\x87"


def p2wsh(script):
    return b"\x00\x20" + txref.sha256(script)


def derivation_ok(key, d, n):
    """the record d (fingerprint + path) names a cosigner and a path under its xpub that derives key"""
    if d is None or len(d) < 4 or (len(d) - 4) % 4:
        return False
    fp, path = d[:4], [int.from_bytes(d[4 + 4 * j : 8 + 4 * j], "little") for j in range((len(d) - 4) // 4)]
    who = [i for i in range(n) if cosigner(i)["xfp"] == fp]
    if not who or path[: len(BASE)] != BASE or any(x >= H for x in path[len(BASE) :]):
        return False
    return rel_sec(who[0], tuple(path[len(BASE) :])) == key


def input_findings(p, i, cfg):
    """Contradictions (slugs, most basic first) between input i's records, the transaction and the cosigner set:
    the statement wants every one of them rejected."""
    im, txin = p["ins"][i], p["tx"]["ins"][i]
    nw, w = map_get(im, b"\x00"), map_get(im, b"\x01")
    if nw is None and w is None:
        return ["no-utxo"]
    out = []
    amount = spk = None
    if nw is not None:
        try:
            prev = txref.parse_tx(nw)
        except Exception:
            return ["utxo-unparsable"]
        if bytes.fromhex(txref.txid(prev)) != txin["prev"] or txin["index"] >= len(prev["outs"]):
            return ["txid-mismatch"]
        amount, spk = prev["outs"][txin["index"]]["amount"], prev["outs"][txin["index"]]["script"]
    if w is not None:
        try:
            wamount = int.from_bytes(w[:8], "little")
            ln, pos = txref.read_compact(w, 8)
            wspk = w[pos : pos + ln]
            if pos + ln != len(w):
                raise ValueError
        except Exception:
            return ["utxo-unparsable"]
        if nw is None:
            amount, spk = wamount, wspk
        elif (wamount, wspk) != (amount, spk):
            out.append("records-disagree")
    rs, ws = map_get(im, b"\x04"), map_get(im, b"\x05")
    script = None
    if rs is not None and ws is None and spk == p2sh(rs):
        script = rs
    elif ws is not None and rs is None and spk == p2wsh(ws):
        script = ws
    elif rs is not None and ws is not None and rs == p2wsh(ws) and spk == p2sh(rs):
        script = ws
    if script is None:
        return out + ["script-mismatch"]
    keys = pushes(script) or []
    ders = [(k[1:], v) for k, v in im if k[:1] == b"\x06"]
    if any(k not in keys for k, _ in ders):
        out.append("key-not-in-script")
    if any(not derivation_ok(k, v, cfg["n"]) for k, v in ders):
        out.append("bad-derivation")
    return out


def output_findings(p, oi):
    """an attached redeem / witness script that the output's scriptPubKey does not commit to"""
    om, spk = p["outs"][oi], p["tx"]["outs"][oi]["script"]
    rs, ws = map_get(om, b"\x00"), map_get(om, b"\x01")
    if rs is None and ws is None:
        return []
    if rs is not None and ws is None and spk == p2sh(rs):
        return []
    if ws is not None and rs is None and spk == p2wsh(ws):
        return []
    if rs is not None and ws is not None and rs == p2wsh(ws) and spk == p2sh(rs):
        return []
    return ["out-script-mismatch"]


def judge(res, eng, cls, vc, label, p, cfg, d, problems, want_flags=None, key=None):
    """d: what describe_basic_multisig gave for the PSBT whose reference parse is p.  problems: contradictions in p
    (non-empty => the statement wants an error).  Otherwise: arithmetic identities on the data in p, every output
    labelled change satisfies the independent rule, change_sats is the sum of the labelled outputs, and (honest
    PSBTs) exactly want_flags are labelled.  Returns True when nothing was wrong."""
    key = key if key is not None else label
    if isinstance(d, Rejected):
        res.ok("rejected", nontrivial=(eng, key), sample={"case": label, "result": "rejected"})
        return True
    if problems:
        res.violation(f"C11/{eng}/summarised-instead-of-rejected/{cls}/{problems[0]}", vc, "summary returned", "error", f"{label}: {', '.join(problems)} but the PSBT is summarised")
        return False
    ok = True
    sums = ref_sums(p)
    if sums is None:
        res.violation(f"C11/{eng}/summarised-instead-of-rejected/{cls}/no-utxo", vc, "summary returned", "error", f"{label}: an input has no UTXO data but the PSBT is summarised")
        return False
    tin, tout = sums
    if d.get("tx_fee_sats") != tin - tout:
        res.violation(f"C11/{eng}/fee-wrong/{cls}", vc, d.get("tx_fee_sats"), tin - tout, f"{label}: fee is not inputs minus outputs")
        ok = False
    elif d.get("spend_sats", 0) + d.get("change_sats", 0) + d.get("tx_fee_sats", 0) != tin:
        res.violation(f"C11/{eng}/sums-wrong/{cls}", vc, (d.get("spend_sats"), d.get("change_sats"), d.get("tx_fee_sats")), tin, f"{label}: spend + change + fee != inputs")
        ok = False
    flagged = [i for i, o in enumerate(d.get("outputs_desc", [])) if o.get("is_change")]
    for oi in flagged:
        good, why = is_real_change(p, oi, cfg)
        if not good:
            res.violation(f"C11/{eng}/fake-change/{cls}/{WHY.get(why, 'other')}", vc, f"output {oi} labelled change", f"not change: {why}", f"{label}: output labelled change although {why}")
            ok = False
    if sum(d["outputs_desc"][i]["sats"] for i in flagged) != d.get("change_sats", 0):
        res.violation(f"C11/{eng}/change-sum/{cls}", vc, d.get("change_sats"), "sum of flagged outputs", f"{label}: change_sats is not the sum of the outputs labelled change")
        ok = False
    if want_flags is not None and flagged != want_flags:
        res.violation(f"C11/{eng}/honest-change-flag/{cls}", vc, flagged, want_flags, f"{label}: honest change output not (only) labelled change")
        ok = False
    if ok:
        res.ok("summarised faithfully", nontrivial=(eng, key), sample={"case": label, "fee": d.get("tx_fee_sats"), "change_flags": flagged})
    return ok


def all_problems(p, cfg):
    out = []
    for i in range(len(p["ins"])):
        out += input_findings(p, i, cfg)
    for oi in range(len(p["outs"])):
        out += output_findings(p, oi)
    return out


def wallets(tier, quick, thorough):
    return quick if tier == "quick" else thorough


def cfg_of(st, m, n, nin=1, shape="spend+change"):
    return {"stype": st, "m": m, "n": n, "nin": nin, "shape": shape}


def lab(cfg):
    return f"{cfg['stype']}-{cfg['m']}of{cfg['n']}-{cfg['nin']}in-{cfg['shape']}"


# ================================================================== E1 shapes: what is attached as the change script
OUT_KINDS = ("p2sh", "p2wsh", "p2sh-p2wsh")
SHAPE_ALPH = ["OP_0", "OP_1", "OP_2", "OP_3", "OP_n+1", "OP_16", "OP_1NEGATE", "OP_NOP", "OP_DROP", "OP_2DROP", "OP_RETURN", "OP_CHECKSIG", "OP_CHECKMULTISIG", "OP_CHECKMULTISIGVERIFY", "attacker-key", "repeated-cosigner-key", "n-as-1-byte-push"]
PAIR_ALPH = ["OP_n+1", "OP_NOP", "OP_DROP", "OP_2DROP", "OP_CHECKSIG", "OP_CHECKMULTISIG", "attacker-key", "OP_1"]


@functools.lru_cache(maxsize=None)
def att_key(i):
    return bip32ref.derive_pub(attacker(i % 3)["acct"], [0, i]).sec()


def shape_token(name, m, n, keys):
    return {
        "OP_0": b"\x00", "OP_1": b"\x51", "OP_2": b"\x52", "OP_3": b"\x53", "OP_n+1": OPN(n + 1), "OP_16": b"\x60", "OP_1NEGATE": b"\x4f",
        "OP_NOP": b"\x61", "OP_DROP": b"\x75", "OP_2DROP": b"\x6d", "OP_RETURN": b"\x6a", "OP_CHECKSIG": b"\xac", "OP_CHECKMULTISIG": b"\xae",
        "OP_CHECKMULTISIGVERIFY": b"\xaf", "attacker-key": txref.push(att_key(0)), "repeated-cosigner-key": txref.push(keys[0]), "n-as-1-byte-push": bytes([1, n]),
    }[name]


def honest_tokens(m, n, keys):
    return [OPN(m)] + [txref.push(k) for k in keys] + [OPN(n), b"\xae"]


def mutate(toks, mut, m, n, keys):
    """mut = [kind, position, token name]"""
    kind, pos, tok = mut
    t = list(toks)
    if kind == "replace":
        t[pos] = shape_token(tok, m, n, keys)
    elif kind == "insert":
        t.insert(pos, shape_token(tok, m, n, keys))
    else:
        del t[pos]
    return t


def shells(m, n, keys):
    """scripts that keep OP_m <all cosigner keys> at the front and OP_CHECKMULTISIG at the end, or wrap / extend the honest script"""
    hon = b"".join(honest_tokens(m, n, keys))
    front = OPN(m) + b"".join(txref.push(k) for k in keys)
    drops = b"\x6d" * ((n + 1) // 2) + (b"\x75" if (n + 1) % 2 else b"")  # clears OP_m and the n keys from the stack
    out = []
    for j in (1, 2, 3):
        for a in range(1, j + 1):
            for f in sorted({j, n}):
                out.append((f"front+drops+{a}-of-{j}-attacker-keys+OP_{f}", front + drops + OPN(a) + b"".join(txref.push(att_key(x)) for x in range(j)) + OPN(f) + b"\xae"))
    A = txref.push(att_key(0))
    out += [
        ("honest+OP_DROP+attacker-CHECKSIG", hon + b"\x75" + A + b"\xac"),
        ("honest+OP_DROP+1-of-1-attacker", hon + b"\x75\x51" + A + b"\x51\xae"),
        ("honest(VERIFY)+1-of-1-attacker", hon[:-1] + b"\xaf\x51" + A + b"\x51\xae"),
        ("attacker-CHECKSIGVERIFY+honest", A + b"\xad" + hon),
        ("OP_m+OP_DROP+honest", OPN(m) + b"\x75" + hon),
        ("OP_IF-honest-OP_ELSE-attacker", b"\x63" + hon + b"\x67" + A + b"\xac\x68"),
        ("OP_m+OP_IF-keys..-attacker-branch", OPN(m) + b"\x63" + b"".join(txref.push(k) for k in keys) + OPN(n) + b"\xae\x67\x75\x51" + A + b"\x51\xae\x68" + OPN(n) + b"\xae"),
        ("front+OP_n+CHECKMULTISIG+OP_NOT+OP_n+CHECKMULTISIG", hon + b"\x91" + OPN(n) + b"\xae"),
    ]
    return out


def encodings(m, n, keys):
    pd1 = lambda k: b"\x4c" + bytes([len(k)]) + k
    pd2 = lambda k: b"\x4d" + len(k).to_bytes(2, "little") + k
    hon = b"".join(honest_tokens(m, n, keys))
    return [
        ("keys-by-PUSHDATA1", OPN(m) + b"".join(pd1(k) for k in keys) + OPN(n) + b"\xae"),
        ("one-key-by-PUSHDATA2", OPN(m) + pd2(keys[0]) + b"".join(txref.push(k) for k in keys[1:]) + OPN(n) + b"\xae"),
        ("m-as-1-byte-push", bytes([1, m]) + b"".join(txref.push(k) for k in keys) + OPN(n) + b"\xae"),
        ("n-as-1-byte-push", OPN(m) + b"".join(txref.push(k) for k in keys) + bytes([1, n]) + b"\xae"),
        ("trailing-truncated-PUSHDATA1", hon + b"\x4c"),
        ("trailing-truncated-push", hon + b"\x02\xaa"),
        ("keys-in-reverse-order", OPN(m) + b"".join(txref.push(k) for k in reversed(keys)) + OPN(n) + b"\xae"),
        ("honest", hon),
    ]


def shape_scripts(case):
    """the scripts of one case: [(name, script bytes)]"""
    cfg = case["cfg"]
    m, n = cfg["m"], cfg["n"]
    keys = sorted(child_sec(i, 1, 7) for i in range(n))
    toks = honest_tokens(m, n, keys)
    fam = case["family"]
    if fam == "shells":
        return shells(m, n, keys)
    if fam == "encodings":
        return encodings(m, n, keys)
    if fam == "delete":
        return [(f"delete@{i}", b"".join(mutate(toks, ["delete", i, None], m, n, keys))) for i in range(len(toks))]
    if fam in ("replace", "insert"):
        return [(f"{fam}@{case['pos']}:{t}", b"".join(mutate(toks, [fam, case["pos"], t], m, n, keys))) for t in SHAPE_ALPH]
    if fam == "pair":  # first mutation fixed by the case, second one ranges over the rest of the pair space
        out = []
        muts = pair_mutations(n)
        first = muts[case["first"]]
        for second in muts[case["first"] + 1 :]:
            t = mutate(toks, second, m, n, keys)  # the later position first so that indexes stay valid
            out.append((f"{first[0]}@{first[1]}:{first[2]}+{second[0]}@{second[1]}:{second[2]}", b"".join(mutate(t, first, m, n, keys))))
        return out
    raise ValueError(fam)


def pair_mutations(n):
    """single mutations that leave the n key pushes in place (positions of OP_m, OP_n, OP_CHECKMULTISIG; any insertion point), ordered by position"""
    muts = [["replace", pos, t] for pos in (0, n + 1, n + 2) for t in PAIR_ALPH] + [["insert", pos, t] for pos in range(n + 4) for t in PAIR_ALPH]
    return sorted(muts, key=lambda x: (x[1], x[0], x[2]))


def gen_shapes(tier, seed):
    combos = [("p2sh", "p2sh"), ("p2wsh", "p2wsh"), ("p2sh", "p2wsh"), ("p2wsh", "p2sh-p2wsh")] if tier == "quick" else [(a, b) for a in ("p2sh", "p2wsh") for b in OUT_KINDS]
    cases = []
    for m, n in wallets(tier, [(2, 3)], [(2, 3), (1, 2), (1, 1)]):
        for ist, ok in combos:
            cfg = cfg_of(ist, m, n)
            for fam in ("shells", "encodings", "delete"):
                cases.append({"cfg": cfg, "out": ok, "family": fam})
            if tier == "quick" and ok != ist:
                continue  # quick: single-token replacements / insertions only where the change output has the inputs' type
            for pos in range(n + 3):
                cases.append({"cfg": cfg, "out": ok, "family": "replace", "pos": pos})
            for pos in range(n + 4):
                cases.append({"cfg": cfg, "out": ok, "family": "insert", "pos": pos})
    if tier == "thorough":
        for ist, ok in (("p2sh", "p2sh"), ("p2wsh", "p2wsh")):
            for first in range(len(pair_mutations(3)) - 1):
                cases.append({"cfg": cfg_of(ist, 2, 3), "out": ok, "family": "pair", "first": first})
    return cases


def attach_change(p, ci, kind, script, spk=None):
    """attach script to output ci the way an output of the given kind carries it; derivation records stay"""
    om = [(k, v) for k, v in p["outs"][ci] if k[:1] not in (b"\x00", b"\x01")]
    if kind == "p2sh":
        om.insert(0, (b"\x00", script))
        want = p2sh(script)
    elif kind == "p2wsh":
        om.insert(0, (b"\x01", script))
        want = p2wsh(script)
    else:
        om.insert(0, (b"\x01", script))
        om.insert(0, (b"\x00", p2wsh(script)))
        want = p2sh(p2wsh(script))
    p["outs"][ci] = om
    p["tx"]["outs"][ci]["script"] = want if spk is None else spk
    retx(p)


def run_shapes(case):
    res = Res()
    cfg, kind = case["cfg"], case["out"]
    vc = {"engine": "shapes", "case": case}
    p0 = attempt(base, cfg)
    if isinstance(p0, Rejected):
        res.violation(f"C11/shapes/honest-build-fails/{cfg['stype']}", vc, repr(p0), "PSBT", f"{lab(cfg)}: the library cannot build the honest PSBT")
        return res
    ci = change_index(cfg)
    seen = set()
    for name, script in shape_scripts(case):
        if script in seen or len(script) > 520:
            continue
        seen.add(script)
        p = copy.deepcopy(p0)
        attach_change(p, ci, kind, script)
        d = lib_describe(psbtref.serialize(p), cfg["n"])
        honest_same_type = name == "honest" and kind == cfg["stype"]
        label = f"{lab(cfg)}: change output {kind} over script [{name}]"
        if honest_same_type and isinstance(d, Rejected):
            res.violation(f"C11/shapes/honest-rejected/{kind}", vc, repr(d), "summary", f"{label}: honest PSBT is not summarised")
            continue
        judge(res, "shapes", kind, vc, label, p, cfg, d, [], want_flags=[ci] if honest_same_type else None, key=(lab(cfg), kind, name))
    return res


# ================================================================== E1 spkforms: what the change scriptPubKey is
def spk_forms(script, family):
    h32, h20s = txref.sha256(script), txref.h160(script)
    rs = p2wsh(script)
    h20r = txref.h160(rs)
    if family in ("OP_k+sha256(script)", "OP_k+hash160(script)", "OP_k+hash160(0020sha256)"):
        h = {"OP_k+sha256(script)": h32, "OP_k+hash160(script)": h20s, "OP_k+hash160(0020sha256)": h20r}[family]
        return [(f"OP_{k} <{family[5:]}>", OPN(k) + txref.push(h)) for k in range(17)]
    out = []
    for nm, h in (("hash160(script)", h20s), ("hash160(0020sha256)", h20r)):
        out += [
            (f"OP_HASH160 <{nm}> OP_EQUAL", b"\xa9\x14" + h + b"\x87"),
            (f"OP_HASH160 <{nm}> OP_EQUALVERIFY", b"\xa9\x14" + h + b"\x88"),
            (f"OP_HASH160 <{nm}> OP_EQUAL OP_1", b"\xa9\x14" + h + b"\x87\x51"),
            (f"OP_HASH160 PUSHDATA1 <{nm}> OP_EQUAL", b"\xa9\x4c\x14" + h + b"\x87"),
            (f"p2pkh <{nm}>", b"\x76\xa9\x14" + h + b"\x88\xac"),
            (f"OP_0 PUSHDATA1 <{nm}>", b"\x00\x4c\x14" + h),
            (f"OP_RETURN <{nm}>", b"\x6a\x14" + h),
            (f"OP_RIPEMD160 <{nm}> OP_EQUAL", b"\xa6\x14" + h + b"\x87"),
        ]
    out += [
        ("OP_HASH160 <sha256(script)> OP_EQUAL", b"\xa9\x20" + h32 + b"\x87"),
        ("OP_SHA256 <sha256(script)> OP_EQUAL", b"\xa8\x20" + h32 + b"\x87"),
        ("OP_HASH256 <sha256(script)> OP_EQUAL", b"\xaa\x20" + h32 + b"\x87"),
        ("OP_0 PUSHDATA1 <sha256(script)>", b"\x00\x4c\x20" + h32),
        ("OP_0 <sha256(script)> OP_1", b"\x00\x20" + h32 + b"\x51"),
        ("OP_RETURN <sha256(script)>", b"\x6a\x20" + h32),
        ("OP_DUP <sha256(script)>", b"\x76\x20" + h32),
        ("<sha256(script)> <sha256(script)>", b"\x20" + h32 + b"\x20" + h32),
        ("<sha256(script)> alone", b"\x20" + h32),
        ("the script itself (bare multisig)", script),
        ("empty", b""),
    ]
    return out


SPK_FAMILIES = ("OP_k+sha256(script)", "OP_k+hash160(script)", "OP_k+hash160(0020sha256)", "other")
ATTACHED = ("redeem", "witness", "both", "none(derivations only)", "script-without-derivations")


def gen_spkforms(tier, seed):
    cases = []
    for m, n in wallets(tier, [(2, 3)], [(2, 3), (1, 2)]):
        for ist in ("p2sh", "p2wsh"):
            for att in ATTACHED:
                for fam in SPK_FAMILIES:
                    cases.append({"cfg": cfg_of(ist, m, n), "attached": att, "family": fam})
    return cases


def run_spkforms(case):
    res = Res()
    cfg, att = case["cfg"], case["attached"]
    vc = {"engine": "spkforms", "case": case}
    p0 = attempt(base, cfg)
    if isinstance(p0, Rejected):
        res.violation(f"C11/spkforms/honest-build-fails/{cfg['stype']}", vc, repr(p0), "PSBT", f"{lab(cfg)}: the library cannot build the honest PSBT")
        return res
    ci = change_index(cfg)
    script = ms_script(cfg["m"], [child_sec(i, 1, 7) for i in range(cfg["n"])])
    cls = att.split("(")[0]
    for name, spk in spk_forms(script, case["family"]):
        p = copy.deepcopy(p0)
        kind = {"redeem": "p2sh", "witness": "p2wsh", "both": "p2sh-p2wsh"}.get(att)
        if kind:
            attach_change(p, ci, kind, script, spk=spk)
        elif att.startswith("none"):
            p["outs"][ci] = [(k, v) for k, v in p["outs"][ci] if k[:1] not in (b"\x00", b"\x01")]
            p["tx"]["outs"][ci]["script"] = spk
            retx(p)
        else:
            attach_change(p, ci, "p2sh" if cfg["stype"] == "p2sh" else "p2wsh", script, spk=spk)
            p["outs"][ci] = [(k, v) for k, v in p["outs"][ci] if k[:1] != b"\x02"]
        d = lib_describe(psbtref.serialize(p), cfg["n"])
        label = f"{lab(cfg)}: change metadata [{att}] on scriptPubKey [{name}]"
        judge(res, "spkforms", cls, vc, label, p, cfg, d, output_findings(p, ci), key=(lab(cfg), att, name))
    return res


# ================================================================== E1 utxo: which UTXO records an input carries
RECORDS = ("nw", "w", "nw+w", "w+nw", "none")
WMODS = ("same", "amount+", "amount-", "spk-foreign")
NWMODS = ("same", "amount+", "other-tx")
IN_TAMPER = ("honest", "in-script-foreign", "in-derivation-replaced-by-other-child-of-same-cosigner", "in-derivation-wrong-path", "in-derivation-foreign-fingerprint")


def utxo_records(p, i):
    """(non-witness record, witness record) for input i, each built from whichever record the honest PSBT has"""
    im, txin = p["ins"][i], p["tx"]["ins"][i]
    nw, w = map_get(im, b"\x00"), map_get(im, b"\x01")
    if nw is not None:
        o = txref.parse_tx(nw)["outs"][txin["index"]]
        return nw, o["amount"].to_bytes(8, "little") + txref.varbytes(o["script"])
    amount = int.from_bytes(w[:8], "little")
    ln, pos = txref.read_compact(w, 8)
    prev = {"version": 1, "locktime": 0, "segwit": False, "ins": [{"prev": b"\x99" * 32, "index": 0, "script": b"", "seq": 0xFFFFFFFF, "witness": []}], "outs": [{"amount": amount - txin["index"] + k, "script": w[pos : pos + ln] if k == txin["index"] else b"\x51"} for k in range(txin["index"] + 1)]}
    return txref.ser_tx(prev), w


def gen_utxo(tier, seed):
    cases = []
    for m, n in wallets(tier, [(1, 2)], [(1, 2), (2, 3)]):
        for st in ("p2sh", "p2wsh"):
            for rec in RECORDS:
                for wm in WMODS if "w" in rec.replace("nw", "") else ("same",):
                    for nm in NWMODS if "nw" in rec else ("same",):
                        cases.append({"cfg": cfg_of(st, m, n), "records": rec, "wmod": wm, "nwmod": nm})
    return cases


def run_utxo(case):
    res = Res()
    cfg, rec, wm, nm = case["cfg"], case["records"], case["wmod"], case["nwmod"]
    st = cfg["stype"]
    vc = {"engine": "utxo", "case": case}
    p0 = attempt(base, cfg)
    if isinstance(p0, Rejected):
        res.violation(f"C11/utxo/honest-build-fails/{st}", vc, repr(p0), "PSBT", f"{lab(cfg)}: the library cannot build the honest PSBT")
        return res
    nw, w = utxo_records(p0, 0)
    if bytes.fromhex(txref.txid(txref.parse_tx(nw))) != p0["tx"]["ins"][0]["prev"]:
        res.skip("previous transaction of the honest PSBT cannot be reconstructed")
        return res
    amount = int.from_bytes(w[:8], "little")
    if wm == "amount+":
        w = (amount + 2_000_000).to_bytes(8, "little") + w[8:]
    elif wm == "amount-":
        w = (amount - 2_000_000).to_bytes(8, "little") + w[8:]
    elif wm == "spk-foreign":
        w = w[:8] + txref.varbytes(p2sh(b"\x51") if st == "p2sh" else p2wsh(b"\x51"))
    if nm != "same":
        prev = txref.parse_tx(nw)
        if nm == "amount+":
            prev["outs"][p0["tx"]["ins"][0]["index"]]["amount"] += 2_000_000
        else:
            prev["locktime"] = 5
        nw = txref.ser_tx(prev)
    T = tamperings(cfg)
    for tam in IN_TAMPER:
        p = copy.deepcopy(p0)
        im = [(k, v) for k, v in p["ins"][0] if k not in (b"\x00", b"\x01")]
        for r in reversed(rec.split("+")) if rec != "none" else []:
            im.insert(0, (b"\x00", nw) if r == "nw" else (b"\x01", w))
        p["ins"][0] = im
        if tam != "honest":
            T[tam][0](p)
        probs = input_findings(p, 0, cfg)
        if st == "p2sh" and rec == "w" and wm in ("amount+", "amount-") and not probs:
            # a legacy input whose amount is claimed by a witness-UTXO record alone: the altered amount can only be
            # refused by insisting on the previous transaction (BIP174 signer rule for non-witness inputs)
            probs = ["legacy-witness-only-amount"]
        label = f"{lab(cfg)}: input records [{rec}] witness-utxo {wm}, non-witness-utxo {nm}, {tam}"
        d = lib_describe(psbtref.serialize(p), cfg["n"])
        plain = rec == ("nw" if st == "p2sh" else "w") and wm == "same" and nm == "same" and tam == "honest"
        if plain and isinstance(d, Rejected):
            res.violation(f"C11/utxo/honest-rejected/{st}", vc, repr(d), "summary", f"{label}: honest PSBT is not summarised")
            continue
        judge(res, "utxo", st, vc, label, p, cfg, d, probs, want_flags=[change_index(cfg)] if plain else None, key=(lab(cfg), rec, wm, nm, tam))
    return res


# ================================================================== E1 paths: what a derivation record says
PATH_VARIANTS = {
    # name: (function(base path list) -> stated path, key stays the honest one, every changed component is encoded in the xpub itself)
    "purpose-wrong": (lambda b, i: [99 + H, 0, b, i], True, False),
    "purpose-unhardened": (lambda b, i: [45, 0, b, i], True, False),
    "account-wrong": (lambda b, i: [45 + H, 5, b, i], True, True),
    "purpose-and-account-wrong": (lambda b, i: [99 + H, 5, b, i], True, True),
    "prefix-dropped": (lambda b, i: [b, i], True, True),
    "prefix-only": (lambda b, i: [45 + H, 0], True, True),
    "one-component": (lambda b, i: [45 + H], True, True),
    "empty-path": (lambda b, i: [], True, True),
    "branch-hardened": (lambda b, i: [45 + H, 0, b + H, i], True, True),
    "index-hardened": (lambda b, i: [45 + H, 0, b, i + H], True, True),
    "extra-level": (lambda b, i: [45 + H, 0, b, i, 0], True, True),
    "index-off-by-one": (lambda b, i: [45 + H, 0, b, i + 1], True, True),
    "extra-level-and-its-key": (lambda b, i: [45 + H, 0, b, i, 3], False, True),
    "prefix-only-and-xpub-key": (lambda b, i: [45 + H, 0], False, True),
    "other-branch-and-its-key": (lambda b, i: [45 + H, 0, 5, i], False, True),
}


def gen_paths(tier, seed):
    cases = []
    for m, n in wallets(tier, [(1, 2)], [(1, 2), (2, 3)]):
        for st in ("p2sh", "p2wsh"):
            for mode in ("map", "psbt-xpubs"):
                for side in ("out", "in"):
                    for which in ("one", "all") if tier == "thorough" else ("one",):
                        for name in PATH_VARIANTS:
                            cases.append({"cfg": cfg_of(st, m, n), "mode": mode, "side": side, "which": which, "variant": name})
    return cases


def run_paths(case):
    res = Res()
    cfg, mode, side, which = case["cfg"], case["mode"], case["side"], case["which"]
    st, m, n = cfg["stype"], cfg["m"], cfg["n"]
    vc = {"engine": "paths", "case": case}
    p0 = attempt(base, cfg, mode == "psbt-xpubs")
    if isinstance(p0, Rejected):
        res.violation(f"C11/paths/honest-build-fails/{st}", vc, repr(p0), "PSBT", f"{lab(cfg)}: the library cannot build the honest PSBT")
        return res
    ci = change_index(cfg)
    branch, idx = (1, 7) if side == "out" else (0, 0)
    kt = b"\x02" if side == "out" else b"\x06"
    for name, (fn, key_kept, knowable) in [(case["variant"], PATH_VARIANTS[case["variant"]])]:
        if not knowable and mode == "map":
            res.skip("the changed path component is not encoded in an xpub handed over without its path")
            continue
        if not key_kept and side == "in":
            res.skip("re-keying an input changes the UTXO (covered on the output side)")
            continue
        who = [0] if which == "one" else list(range(n))
        path = fn(branch, idx)
        p = copy.deepcopy(p0)
        mp = p["outs"][ci] if side == "out" else p["ins"][0]
        new_keys = {}
        for j, (k, v) in enumerate(mp):
            if k[:1] != kt:
                continue
            i = [x for x in range(n) if cosigner(x)["xfp"] == v[:4]][0]
            if i not in who:
                continue
            key = k[1:]
            if not key_kept:
                key = rel_sec(i, tuple(path[2:]))
                new_keys[k[1:]] = key
            mp[j] = (kt + key, v[:4] + b"".join(x.to_bytes(4, "little") for x in path))
        if new_keys:  # the change script is rebuilt over the new keys, scriptPubKey consistent
            keys = [new_keys.get(child_sec(i, 1, 7), child_sec(i, 1, 7)) for i in range(n)]
            attach_change(p, ci, st, ms_script(m, keys))
        label = f"{lab(cfg)}: {side} derivation(s) of {which} cosigner(s) state {name} ({mode})"
        probs = all_problems(p, cfg) if side == "in" else []
        if probs:
            probs = ["in-path-" + ("prefix" if name in ("purpose-wrong", "purpose-unhardened", "account-wrong", "purpose-and-account-wrong", "prefix-dropped") else "other")]
        d = lib_describe(psbtref.serialize(p), n, mode)
        judge(res, "paths", mode, vc, label, p, cfg, d, probs, key=(lab(cfg), mode, side, which, name))
    return res


# ================================================================== E1 xpubs: the catalogue and the global xpub records, PSBT's own xpubs as the wallet
def gx_tamperings(cfg):
    n = cfg["n"]

    def recs(p):
        return [j for j, (k, v) in enumerate(p["global"]) if k[:1] == b"\x01"]

    def rec_of(p, i):
        return [j for j in recs(p) if p["global"][j][1][:4] == cosigner(i)["xfp"]][0]

    att_raw = attacker(0)["acct"].payload(bip32ref.version_bytes("xpub"), False)
    T = {}

    def swap(p):
        j = rec_of(p, 0)
        p["global"][j] = (b"\x01" + att_raw, p["global"][j][1])

    def dup_last(p):
        p["global"].append((b"\x01" + att_raw, p["global"][rec_of(p, 0)][1]))

    def dup_first(p):
        p["global"].insert(recs(p)[0], (b"\x01" + att_raw, p["global"][rec_of(p, 0)][1]))

    def drop(p):
        del p["global"][rec_of(p, 0)]

    def path_changed(p):
        j = rec_of(p, 0)
        k, v = p["global"][j]
        p["global"][j] = (k, v[:-4] + (5).to_bytes(4, "little"))

    def fp_changed(p):
        j = rec_of(p, 0)
        k, v = p["global"][j]
        p["global"][j] = (k, b"\xde\xad\xbe\xef" + v[4:])

    def longer(p):
        j = rec_of(p, 0)
        k, v = p["global"][j]
        p["global"][j] = (k, v + (0).to_bytes(4, "little"))

    def all_dropped(p):
        strip_xpubs(p)

    T["gx-xpub-swapped-to-attacker(fingerprint kept)"] = swap
    T["gx-attacker-xpub-added-under-cosigner-fingerprint(last)"] = dup_last
    T["gx-attacker-xpub-added-under-cosigner-fingerprint(first)"] = dup_first
    T["gx-one-xpub-dropped"] = drop
    T["gx-all-xpubs-dropped"] = all_dropped
    T["gx-path-last-component-changed"] = path_changed
    T["gx-fingerprint-changed"] = fp_changed
    T["gx-path-longer-than-depth"] = longer
    return T


def gen_xpubs(tier, seed):
    cases = []
    cfgs = [cfg_of(st, 1, 2) for st in ("p2sh", "p2wsh")] if tier == "quick" else [c for c in configs(tier) if (c["m"], c["n"]) in ((1, 2), (2, 3))]
    for cfg in cfgs:
        for nm in tamperings(cfg):
            cases.append({"cfg": cfg, "devs": [nm], "mode": "psbt-xpubs"})
    for cfg in [cfg_of(st, m, n) for m, n in wallets(tier, [(1, 2)], [(1, 2), (2, 3)]) for st in ("p2sh", "p2wsh")]:
        for nm in gx_tamperings(cfg):
            for mode in ("psbt-xpubs", "map"):
                cases.append({"cfg": cfg, "gx": nm, "mode": mode})
    return cases


def run_xpubs(case):
    if "gx" not in case:
        return run_review(case)  # same descriptor, same oracle, the PSBT's own global xpubs instead of the map
    res = Res()
    cfg = case["cfg"]
    vc = {"engine": "xpubs", "case": case}
    p = attempt(base, cfg, True)
    if isinstance(p, Rejected):
        res.violation(f"C11/xpubs/honest-build-fails/{cfg['stype']}", vc, repr(p), "PSBT", f"{lab(cfg)}: the library cannot build the honest PSBT")
        return res
    gx_tamperings(cfg)[case["gx"]](p)
    d = lib_describe(psbtref.serialize(p), cfg["n"], case["mode"])
    judge(res, "xpubs", case["mode"], vc, f"{lab(cfg)}: {case['gx']} ({case['mode']})", p, cfg, d, all_problems(p, cfg))
    return res


# ================================================================== E1 positions: the same catalogue at other input / output indexes
def gen_positions(tier, seed):
    cases = []
    for m, n in wallets(tier, [(1, 2)], [(1, 2), (2, 3)]):
        for st in ("p2sh", "p2wsh"):
            cfg = cfg_of(st, m, n, nin=2, shape="batch+change")
            for cp in (0, 2) if tier == "thorough" else ((2,) if st == "p2sh" else (0,)):
                cases.append({"cfg": cfg, "devs": [], "mode": "map", "cp": cp, "ii": 0})
                for nm in tamperings(cfg, ci=cp):
                    if not nm.startswith("in-"):
                        cases.append({"cfg": cfg, "devs": [nm], "mode": "map", "cp": cp, "ii": 0})
            for nm in tamperings(cfg):
                if nm.startswith("in-"):
                    cases.append({"cfg": cfg, "devs": [nm], "mode": "map", "cp": 1, "ii": 1})
    return cases


# ================================================================== E1 amounts: the arithmetic over an amount alphabet
def amount_alphabet(tier):
    return [0, 1, 2**32, MAX_MONEY] if tier == "quick" else [0, 1, 546, 2**32 - 1, 2**32, MAX_MONEY, 2**63 - 1, 2**63, 2**64 - 1]


def set_amounts(p, tin, outs):
    """every input gets amount tin (records stay consistent: the previous transaction is rebuilt and the outpoint follows), outputs get outs"""
    for i, im in enumerate(p["ins"]):
        nw, w = map_get(im, b"\x00"), map_get(im, b"\x01")
        if nw is not None:
            prev = txref.parse_tx(nw)
            prev["outs"][p["tx"]["ins"][i]["index"]]["amount"] = tin
            prev["locktime"] = i  # distinct previous transactions
            set_map(im, b"\x00", txref.ser_tx(prev))
            p["tx"]["ins"][i]["prev"] = bytes.fromhex(txref.txid(prev))
        else:
            set_map(im, b"\x01", tin.to_bytes(8, "little") + w[8:])
    for o, a in zip(p["tx"]["outs"], outs):
        o["amount"] = a
    retx(p)


def gen_amounts(tier, seed):
    A = amount_alphabet(tier)
    cases = []
    for st in ("p2sh", "p2wsh"):
        for nin in (1,) if tier == "quick" else (1, 2):
            for tin in A:
                for spend in A if tier == "thorough" else (0, 2**32):
                    cases.append({"cfg": cfg_of(st, 1, 2, nin=nin), "tin": tin, "spend": spend, "family": "spend+change", "alphabet": A})
            for a in A:
                cases.append({"cfg": cfg_of(st, 1, 2, nin=nin), "tin": MAX_MONEY, "spend": 1000, "first": a, "family": "two-change-outputs", "alphabet": A})
    return cases


def run_amounts(case):
    res = Res()
    cfg = case["cfg"]
    st = cfg["stype"]
    vc = {"engine": "amounts", "case": case}
    case = {k: (int(v) if k in ("tin", "spend", "first") else v) for k, v in case.items()}  # replay files carry big integers as strings
    p0 = attempt(base, cfg)
    if isinstance(p0, Rejected):
        res.violation(f"C11/amounts/honest-build-fails/{st}", vc, repr(p0), "PSBT", f"{lab(cfg)}: the library cannot build the honest PSBT")
        return res
    ci = change_index(cfg)
    for other in map(int, case["alphabet"]):
        p = copy.deepcopy(p0)
        if case["family"] == "spend+change":
            outs = [case["spend"], other]
            set_amounts(p, case["tin"], outs)
            tin = case["tin"] * cfg["nin"]
            sane = 0 < tin and case["tin"] <= MAX_MONEY and all(a <= MAX_MONEY for a in outs) and sum(outs) <= tin <= MAX_MONEY
            label = f"{lab(cfg)}: honest PSBT, each input {case['tin']}, spend {case['spend']}, change {other}"
            d = lib_describe(psbtref.serialize(p), cfg["n"])
            if sane and isinstance(d, Rejected):
                res.violation(f"C11/amounts/honest-rejected/{st}", vc, repr(d), "summary", f"{label}: honest PSBT with valid amounts is not summarised")
                continue
            if judge(res, "amounts", st, vc, label, p, cfg, d, [], want_flags=[ci] if sane else None, key=(lab(cfg), case["tin"], case["spend"], other)) and not isinstance(d, Rejected):
                if (d.get("spend_sats"), d.get("change_sats"), d.get("total_input_sats")) != (case["spend"], other, tin):
                    res.violation(f"C11/amounts/amounts-wrong/{st}", vc, (d.get("spend_sats"), d.get("change_sats"), d.get("total_input_sats")), (case["spend"], other, tin), f"{label}: spend / change / input totals are not the amounts in the PSBT")
        else:
            # two outputs to the wallet's own change script, amounts (first, other): an error, or both are really change and the sums hold
            set_amounts(p, case["tin"], [case["spend"], case["first"]])
            p["tx"]["outs"].append({"amount": other, "script": p["tx"]["outs"][ci]["script"]})
            p["outs"].append(copy.deepcopy(p["outs"][ci]))
            retx(p)
            label = f"{lab(cfg)}: two change outputs with amounts {case['first']} and {other}"
            d = lib_describe(psbtref.serialize(p), cfg["n"])
            judge(res, "amounts", st + "/two-change", vc, label, p, cfg, d, [], key=(lab(cfg), "two", case["first"], other))
    return res


# ================================================================== E2 histories: describe twice, combine then describe
HIST_VARIANTS = ("honest", "utxo-other-record-added-amount+", "utxo-other-record-added-honest", "utxo-kind-swapped+in-script-foreign", "in-script-foreign", "in-derivation-replaced-by-other-child-of-same-cosigner",
                 "in-derivation-wrong-path", "out-script-foreign", "out-derivation-wrong-path", "out-derivation-foreign-fingerprint", "out-script-under-other-key-type", "out-derivation-replaced-by-other-child-of-same-cosigner")
HISTORIES = ("describe-twice", "honest.combine(variant)-describe", "variant.combine(honest)-describe", "describe-honest.combine(variant)-describe")


def hist_variant(cfg, name):
    p = base(cfg)
    if name == "honest":
        return p
    if name.startswith("utxo-"):
        nw, w = utxo_records(p, 0)
        have_nw = map_get(p["ins"][0], b"\x00") is not None
        if name == "utxo-other-record-added-amount+":
            if have_nw:
                p["ins"][0].insert(1, (b"\x01", (int.from_bytes(w[:8], "little") + 2_000_000).to_bytes(8, "little") + w[8:]))
            else:
                set_map(p["ins"][0], b"\x01", (int.from_bytes(w[:8], "little") + 2_000_000).to_bytes(8, "little") + w[8:])
                p["ins"][0].insert(0, (b"\x00", nw))
        elif name == "utxo-other-record-added-honest":
            p["ins"][0].insert(1, (b"\x01", w)) if have_nw else p["ins"][0].insert(0, (b"\x00", nw))
        else:
            p["ins"][0] = [(b"\x01", w) if have_nw else (b"\x00", nw)] + [(k, v) for k, v in p["ins"][0] if k not in (b"\x00", b"\x01")]
            tamperings(cfg)["in-script-foreign"][0](p)
        return p
    tamperings(cfg)[name][0](p)
    return p


def ref_combine(a, b):
    """BIP174 combiner on the reference maps: a's records, plus b's records under keys a does not have"""
    def merge(ma, mb):
        have = {k for k, _ in ma}
        return list(ma) + [(k, v) for k, v in mb if k not in have]

    return {"global": merge(a["global"], b["global"]), "ins": [merge(x, y) for x, y in zip(a["ins"], b["ins"])], "outs": [merge(x, y) for x, y in zip(a["outs"], b["outs"])], "tx": copy.deepcopy(a["tx"])}


def gen_histories(tier, seed):
    cases = []
    for m, n in wallets(tier, [(1, 2)], [(1, 2), (2, 3)]):
        for st in ("p2sh", "p2wsh"):
            for v in HIST_VARIANTS:
                for h in HISTORIES:
                    if v == "honest" and h != "describe-twice":
                        continue
                    cases.append({"cfg": cfg_of(st, m, n), "variant": v, "history": h})
    return cases


def same_result(a, b):
    if isinstance(a, Rejected) or isinstance(b, Rejected):
        return isinstance(a, Rejected) and isinstance(b, Rejected)
    keys = ("tx_fee_sats", "total_input_sats", "total_output_sats", "spend_sats", "change_sats", "change_addr", "spend_addr", "is_batch_tx")
    return all(a.get(k) == b.get(k) for k in keys) and [o.get("is_change") for o in a["outputs_desc"]] == [o.get("is_change") for o in b["outputs_desc"]]


def run_histories(case):
    from buidl.psbt import PSBT

    res = Res()
    cfg, var, hist = case["cfg"], case["variant"], case["history"]
    st, n = cfg["stype"], cfg["n"]
    vc = {"engine": "histories", "case": case}
    ph = attempt(base, cfg)
    if isinstance(ph, Rejected):
        res.violation(f"C11/histories/honest-build-fails/{st}", vc, repr(ph), "PSBT", f"{lab(cfg)}: the library cannot build the honest PSBT")
        return res
    pv = hist_variant(cfg, var)
    hdmap = hd_map(n)
    parse = lambda p: attempt(lambda: PSBT.parse(BytesIO(psbtref.serialize(p)), network="mainnet"))
    desc = lambda o: attempt(lambda: o.describe_basic_multisig(hdpubkey_map=hdmap))
    label = f"{lab(cfg)}: {hist} with variant {var}"
    res.states += 1
    if hist == "describe-twice":
        o = parse(pv)
        if isinstance(o, Rejected):
            judge(res, "histories", st, vc, label, pv, cfg, o, all_problems(pv, cfg), key=(lab(cfg), var, hist))
            return res
        d1 = desc(o)
        d2 = desc(o)
        d3 = desc(o)
        res.transitions += 3
        if var == "honest" and isinstance(d1, Rejected):
            res.violation(f"C11/histories/honest-rejected/{st}", vc, repr(d1), "summary", f"{label}: honest PSBT is not summarised")
            return res
        if not (same_result(d1, d2) and same_result(d2, d3)):
            res.violation(f"C11/histories/describe-not-repeatable/{st}", vc, [repr(x)[:80] for x in (d1, d2, d3)], "the same answer every time", f"{label}: describing the same object again gives another answer")
            return res
        judge(res, "histories", st, vc, label, pv, cfg, d1, all_problems(pv, cfg), want_flags=[change_index(cfg)] if var == "honest" else None, key=(lab(cfg), var, hist))
        return res
    first, second = (ph, pv) if "honest.combine" in hist else (pv, ph)
    a, b = parse(first), parse(second)
    if isinstance(a, Rejected) or isinstance(b, Rejected):
        res.ok("variant rejected when parsed", nontrivial=("histories", lab(cfg), var, hist))
        return res
    if hist.startswith("describe-"):
        desc(a)
        res.transitions += 1
    c = attempt(a.combine, b)
    res.transitions += 1
    merged = ref_combine(first, second)
    if isinstance(c, Rejected):
        res.ok("combine rejected", nontrivial=("histories", lab(cfg), var, hist))
        return res
    d = desc(a)
    res.transitions += 1
    judge(res, "histories", st, vc, label, merged, cfg, d, all_problems(merged, cfg), key=(lab(cfg), var, hist))
    return res



def engines(tier, seed):
    W = "1-of-2 (thorough: also 2-of-3)"
    return [
        Engine(
            "review",
            gen_review,
            run_review,
            kind="E1",
            chunk=6,
            rule="honest PSBTs for wallets {2-of-3, 1-of-2} (thorough {1-of-2, 2-of-2, 2-of-3, 3-of-5}) x {P2SH via create_multisig_psbt, P2WSH via PSBT.create+lookups} x 1..2 inputs x {spend, spend+change, batch+change, batch with two outputs paying the same address + change}, summarised with an explicit cosigner map and with the PSBT's own global xpubs; every single tampering of a ~24-entry byte-level catalogue (thorough: all pairs for two wallets); oracle: raise, or arithmetic identities + every output labelled change satisfies the independent rule recomputed with a reference BIP32; tamperings that contradict the transaction must raise",
        ),
        Engine(
            "shapes",
            gen_shapes,
            run_shapes,
            kind="E1",
            rule="the script attached to the change output of an honest 2-of-3 PSBT (thorough: also 1-of-2, 1-of-1), its derivation records kept and the scriptPubKey recomputed from it, for (inputs, change output) kinds {p2sh->p2sh, p2wsh->p2wsh} and - quick: shells, encodings and deletions only - {p2sh->p2wsh, p2wsh->p2sh-p2wsh} (thorough: all 2x3, everything): every replacement of one token of OP_m k1..kn OP_n OP_CHECKMULTISIG and every insertion at every position from a 17-token alphabet (small numbers, OP_n+1, OP_16, OP_1NEGATE, NOP, DROP, 2DROP, RETURN, CHECKSIG, CHECKMULTISIG(VERIFY), an attacker key, a repeated cosigner key, n as a 1-byte push), every deletion, 20 shells that keep OP_m <cosigner keys> .. OP_CHECKMULTISIG around an attacker script or extend / wrap the honest script, 8 encodings (PUSHDATA keys, non-minimal numbers, truncated trailing push, reversed key order); thorough: all pairs of the 80 key-preserving single mutations over an 8-token alphabet; oracle: error, or arithmetic identities and every output labelled change is, per the reference script parser and reference BIP32, exactly OP_m <n cosigner keys> OP_n OP_CHECKMULTISIG committed to by the scriptPubKey",
        ),
        Engine(
            "spkforms",
            gen_spkforms,
            run_spkforms,
            kind="E1",
            rule="honest change script and derivations attached as {redeem, witness, redeem 0020sha256 + witness, nothing, script without derivations} to a change output whose scriptPubKey ranges over OP_0..OP_16 followed by sha256(script) / hash160(script) / hash160(0020sha256(script)) (51 forms incl. the honest P2WSH, P2WPKH-shaped and P2TR-shaped ones) and 27 other forms carrying one of the three hashes as an element (P2SH with EQUALVERIFY / trailing op / PUSHDATA1, P2PKH-shaped, OP_RETURN, SHA256/HASH256/RIPEMD160 <h> EQUAL, bare multisig, empty), P2SH and P2WSH inputs, 2-of-3 (thorough: also 1-of-2); oracle: an attached script the scriptPubKey does not commit to (P2SH / P2WSH / P2SH-P2WSH, byte-exact) must be an error; otherwise arithmetic identities and labelled change satisfies the independent rule",
        ),
        Engine(
            "utxo",
            gen_utxo,
            run_utxo,
            kind="E1",
            rule="input 0 of an honest " + W + " PSBT (P2SH, P2WSH) carries UTXO records {non-witness, witness, both in either order, none} x witness record {same, amount +2M, amount -2M, foreign scriptPubKey} x previous transaction {same, amount changed, other transaction} x {honest, foreign redeem/witness script, derivation for a key not in the script, wrong path, foreign fingerprint}; the missing record is rebuilt from the one the library produced; oracle (reference parser + reference BIP32): error required when no record, txid mismatch, the two records disagree, the attached script does not hash to the spent scriptPubKey, a derivation key is not in the script or does not derive, or a legacy P2SH amount is claimed by an altered witness-only record; otherwise fee = inputs - outputs computed from the txid-verified previous transaction when present, and the change rule",
        ),
        Engine(
            "paths",
            gen_paths,
            run_paths,
            kind="E1",
            rule="derivation records of one cosigner (thorough: one, all) on {the change output, input 0} of an honest " + W + " PSBT state one of 15 paths (wrong / unhardened purpose, wrong account, both, prefix dropped, prefix only, one component, empty, hardened branch / index, extra level, index off by one; and three re-keyed consistent ones: extra level, the xpub's own key, another branch), summarised with the cosigner map and with the PSBT's own global xpubs; variants whose changed component is not encoded in a bare xpub are skipped in map mode; oracle: input derivations that do not lead from the cosigner xpub at m/45'/0 to the key must be an error, an output is labelled change only if every script key derives from its cosigner's xpub at the stated path below m/45'/0",
        ),
        Engine(
            "xpubs",
            gen_xpubs,
            run_xpubs,
            kind="E1",
            rule="the whole single-tampering catalogue of engine review summarised with the PSBT's own global xpubs instead of the map (quick: 1-of-2 P2SH and P2WSH spend+change; thorough: every 1-of-2 and 2-of-3 configuration of review), same oracle; plus 8 tamperings of the global xpub records (cosigner xpub swapped to an attacker's under the same fingerprint, attacker xpub added under a cosigner fingerprint first / last, one / all dropped, path component / fingerprint changed, path longer than depth) in both modes; oracle: error or a faithful summary w.r.t. the honest cosigner xpubs",
        ),
        Engine(
            "positions",
            gen_positions,
            run_review,
            kind="E1",
            rule="2-input batch+change PSBTs (" + W + ", P2SH and P2WSH): the honest PSBT with its change output moved to index 2 (P2SH) / 0 (P2WSH) (thorough: 0 and 2 for both) must be summarised with exactly that output labelled; every out-* tampering of the catalogue applied at that change index, every in-* tampering applied to input 1; oracle of engine review",
        ),
        Engine(
            "amounts",
            gen_amounts,
            run_amounts,
            kind="E1",
            rule="honest 1-of-2 PSBTs (P2SH with rebuilt previous transaction and outpoint, P2WSH; thorough: 1 and 2 inputs) with every (input, spend, change) amount triple over {0, 1, 2^32, 21e14} x {0, 2^32} x {0, 1, 2^32, 21e14} (thorough: the cube of {0, 1, 546, 2^32-1, 2^32, 21e14, 2^63-1, 2^63, 2^64-1}); oracle: fee = inputs - outputs, spend + change + fee = inputs, spend / change / input totals equal the amounts in the PSBT, and when 0 < inputs <= 21e14 and outputs <= inputs a summary with exactly the change output labelled is required; plus two outputs to the change script with every amount pair: error, or the sums hold and change_sats is the sum of the labelled outputs",
        ),
        Engine(
            "histories",
            gen_histories,
            run_histories,
            kind="E2",
            rule="operation histories on PSBT objects (" + W + ", P2SH and P2WSH) over 12 variants (honest; other UTXO record added honest / with amount +2M; UTXO kind swapped + foreign script; 8 catalogue tamperings that keep the transaction): describe three times on one object (same answer each time, judged like a fresh one); honest.combine(variant) then describe; variant.combine(honest) then describe; describe, combine, describe; oracle: BIP174 combiner on the reference maps (own records win, missing ones are taken over), then error required if the merged records contradict the transaction (as in engine utxo, plus attached output script not committed to), else arithmetic identities and the change rule on the merged records",
        ),
    ]
