"""C01 — ECDSA: signing complete, verification sound, signatures canonical.

E3 toy-sign / toy-verify: the whole state space of a toy instantiation of pecc.py (every secret,
   digest class, nonce; every (P, z, r, s) tuple) against the reference ECDSA on the same curve.
E1 real-sign: boundary secrets x digests on secp256k1: exact RFC 6979 signature, low S, DER.
E1 real-forge: deviation-bounded forgery catalogue and crafted corner cases on secp256k1.
"""
import itertools

from mc.core import Engine, Res, attempt, Rejected, filler_int, current_toy
from mc.ref import ec

PROP = "C01"
QUICK_TOYS = [(43, 31)]
THOROUGH_TOYS = [(43, 31), (79, 67), (67, 79)]


def accepted(v):
    return (not isinstance(v, Rejected)) and bool(v)


# ------------------------------------------------------------------ toy engines
def toy_z_classes(n, tier):
    zs = list(range(0, n + 2)) + [2 * n - 1, 2 * n, 2 * n + 1]
    if tier == "thorough":
        zs = list(range(0, 2 * n + 2))
    zs += [2**255, 2**256 - n, 2**256 - 1]
    return zs


def gen_toy_sign(toy):
    def g(tier, seed):
        p, n = toy
        return [{"toy": list(toy), "d": d, "tier": tier} for d in range(1, n)]

    return g


def run_toy_sign(case):
    from buidl import pecc

    res = Res()
    toy = tuple(case["toy"])
    assert current_toy() == toy and pecc.N == toy[1] and pecc.P == toy[0]
    c = ec.toy_curve(*toy)
    n = c.n
    d = case["d"]
    vc = lambda extra: {"engine": f"toy-sign-{toy[0]}", "toy": list(toy), "case": dict(case, only=extra)}
    only = case.get("only")
    priv = pecc.PrivateKey(d)
    if (priv.point.x.num, priv.point.y.num) != c.mulg(d):
        res.violation(f"C01/toy-sign/pubkey", vc(None), str(priv.point), c.mulg(d), "public key differs from reference")
        return res
    cur = {}
    old = pecc.PrivateKey.deterministic_k
    pecc.PrivateKey.deterministic_k = lambda self, z: cur["k"]
    try:
        for z in toy_z_classes(n, case["tier"]):
            for k in range(1, n):
                if only and [z, k] != only:
                    continue
                cur["k"] = k
                exp = c.ecdsa_sign_k(d, z, k)
                sig = attempt(priv.sign, z)
                if exp is None:
                    res.ok("degenerate(r=0 or s=0): not asserted")
                    continue
                got = None if isinstance(sig, Rejected) else (sig.r, sig.s)
                if got != exp:
                    if got and got[1] == exp[1] and got[0] != exp[0] and got[0] % n == exp[0]:
                        cls = "r-not-reduced-mod-n"
                    elif got and got[0] == exp[0] and got[1] == n - exp[1]:
                        cls = "high-s"
                    else:
                        cls = "other"
                    res.violation(f"C01/toy-sign/{cls}", vc([z, k]), got, exp, "sign() differs from the reference signature for this nonce")
                    continue
                if got[1] > n // 2:
                    res.violation("C01/toy-sign/high-s", vc([z, k]), got, exp, "s not low")
                    continue
                v = attempt(priv.point.verify, z, sig)
                if not accepted(v):
                    res.violation("C01/toy-sign/own-signature-rejected", vc([z, k]), repr(v), True, "verify rejects the signature sign produced")
                    continue
                res.ok("sign==ref&verifies", nontrivial=None)
                res.nontrivial_bulk += 1
    finally:
        pecc.PrivateKey.deterministic_k = old
    return res


def gen_toy_verify(toy):
    def g(tier, seed):
        p, n = toy
        hi = n + 2 if tier == "quick" else 2 * n + 1
        zs = list(range(0, n + 1)) + [2 * n, 2**256 - 1]
        if tier == "thorough":
            zs = list(range(0, 2 * n + 1)) + [2**256 - 1]
        cases = []
        for d in range(1, n):
            for zchunk in range(0, len(zs), 8):
                cases.append({"toy": list(toy), "d": d, "zs": zs[zchunk : zchunk + 8], "hi": hi})
        return cases

    return g


def run_toy_verify(case):
    from buidl import pecc

    res = Res()
    toy = tuple(case["toy"])
    assert current_toy() == toy and pecc.N == toy[1]
    c = ec.toy_curve(*toy)
    n = c.n
    Q = c.mulg(case["d"])
    P = pecc.S256Point(Q[0], Q[1])
    only = case.get("only")
    vc = lambda extra: {"engine": f"toy-verify-{toy[0]}", "toy": list(toy), "case": dict(case, only=extra)}
    for z in case["zs"]:
        for r in range(0, case["hi"] + 1):
            for s in range(0, case["hi"] + 1):
                if only and [z, r, s] != only:
                    continue
                exp = c.ecdsa_verify(Q, z, r, s)
                got = accepted(attempt(P.verify, z, pecc.Signature(r, s)))
                if got == exp:
                    res.evaluations += 1
                    if exp:
                        res.outcomes["accept==ref"] += 1
                    else:
                        res.outcomes["reject==ref"] += 1
                    res.nontrivial_bulk += 1
                    continue
                if got and not exp:
                    if not (1 <= r < n) or not (1 <= s < n):
                        cls = "accepts-out-of-range-" + ("r" if not (1 <= r < n) else "s")
                    else:
                        cls = "accepts-invalid"
                else:
                    X = c.lin(z * pow(s, -1, n) % n, c.g, r * pow(s, -1, n) % n, Q)
                    cls = "rejects-valid-xR>=n" if X and X[0] >= n else "rejects-valid"
                res.violation(f"C01/toy-verify/{cls}", vc([z, r, s]), got, exp, "verify disagrees with the ECDSA predicate")
    return res


# ------------------------------------------------------------------ real curve
N = ec.SECP.n


def real_secrets(seed, tier):
    s = [1, 2, 3, N - 1, N - 2, (N - 1) // 2, (N + 1) // 2, 2**128 - 1, 2**128, 2**128 + 1, 2**255 - 1, 2**255]
    nf = 2 if tier == "quick" else 8
    s += [filler_int(seed, "c01secret", i, 1, N - 1) for i in range(nf)]
    return s


def real_digests(seed, tier):
    z = [0, 1, N - 1, N, N + 1, N // 2, 2**255, 2**256 - 1]
    nf = 2 if tier == "quick" else 6
    z += [filler_int(seed, "c01digest", i, 0, 2**256 - 1) for i in range(nf)]
    return z


def gen_real_sign(tier, seed):
    # one case per secret: ONE PrivateKey object signs every digest (the first digest once more at the end), so
    # state kept on the key object between calls is exposed
    zs = real_digests(seed, tier)
    return [{"d": str(d), "zs": [str(z) for z in zs + zs[:1]]} for d in real_secrets(seed, tier)]


def run_real_sign(case):
    from buidl import pecc

    res = Res()
    priv = pecc.PrivateKey(int(case["d"]))
    for j, zz in enumerate(case["zs"]):
        res.merge(_real_sign_one(pecc, priv, {"d": case["d"], "z": zz, "zs": case["zs"][: j + 1]}))
    return res


def _real_sign_one(pecc, priv, case):
    res = Res()
    d, z = int(case["d"]), int(case["z"])
    c = ec.SECP
    vc = {"engine": "real-sign", "case": {"d": case["d"], "zs": case["zs"]}}
    zcls = "z=n" if z == N else ("z>n" if z > N else "z<n")
    exp = c.ecdsa_sign(d, z)
    sig = attempt(priv.sign, z)
    got = None if isinstance(sig, Rejected) else (sig.r, sig.s)
    if got != exp:
        fresh = attempt(pecc.PrivateKey(d).sign, z)
        if not isinstance(fresh, Rejected) and (fresh.r, fresh.s) == exp:
            zcls += "/only-on-reused-key-object"
        res.violation(f"C01/real-sign/not-rfc6979/{zcls}", vc, got, exp, "sign(z) is not the RFC 6979 deterministic low-S signature")
        return res
    res.ok("sign==rfc6979", nontrivial=("sign", case["d"], case["z"], len(case["zs"])), sample={"d": case["d"], "z": case["z"]})
    if not accepted(attempt(priv.point.verify, z, sig)):
        res.violation("C01/real-sign/own-signature-rejected", vc, False, True, "verify rejects sign's output")
    else:
        res.ok("verifies")
    if got[1] > N // 2:
        res.violation("C01/real-sign/high-s", vc, got, exp, "s not low")
    der = attempt(sig.der)
    if der != ec.der_sig(*exp):
        res.violation("C01/real-sign/der-encode", vc, der, ec.der_sig(*exp), "DER encoding differs from strict DER")
    else:
        back = attempt(pecc.Signature.parse, der)
        if isinstance(back, Rejected) or (back.r, back.s) != exp:
            res.violation("C01/real-sign/der-roundtrip", vc, repr(back), exp, "DER round trip changes the signature")
        else:
            res.ok("der-roundtrip")
    return res


DER_VALUES = [1, 0x7F, 0x80, 0xFF, 0x100, 2**248 - 1, 2**248, 2**255 - 1, 2**255, N - 1]


def gen_real_der(tier, seed):
    return [{"r": str(r), "s": str(s)} for r in DER_VALUES for s in DER_VALUES]


def run_real_der(case):
    from buidl import pecc

    res = Res()
    r, s = int(case["r"]), int(case["s"])
    exp = ec.der_sig(r, s)
    der = attempt(pecc.Signature(r, s).der)
    vc = {"engine": "real-der", "case": case}
    if der != exp:
        res.violation(f"C01/real-der/encode/rlen{(r.bit_length()+7)//8}-slen{(s.bit_length()+7)//8}", vc, der, exp, "der() is not the strict DER encoding")
        return res
    back = attempt(pecc.Signature.parse, exp)
    if isinstance(back, Rejected) or (back.r, back.s) != (r, s):
        res.violation("C01/real-der/parse", vc, repr(back), (r, s), "parse(der) does not return (r, s)")
        return res
    res.ok("der==ref&roundtrip", nontrivial=(case["r"], case["s"]))
    return res


def forge_catalogue(other_pub, c):
    """name -> function mapping a tuple (pub, z, r, s) to a deviated tuple."""
    M = 2**256
    return {
        "z+1": lambda Q, z, r, s: (Q, (z + 1) % M, r, s),
        "z-1": lambda Q, z, r, s: (Q, (z - 1) % M, r, s),
        "z^bit0": lambda Q, z, r, s: (Q, z ^ 1, r, s),
        "z^bit128": lambda Q, z, r, s: (Q, z ^ (1 << 128), r, s),
        "z^bit255": lambda Q, z, r, s: (Q, z ^ (1 << 255), r, s),
        "otherkey": lambda Q, z, r, s: (other_pub, z, r, s),
        "negkey": lambda Q, z, r, s: (c.neg(Q), z, r, s),
        "r=0": lambda Q, z, r, s: (Q, z, 0, s),
        "r=n": lambda Q, z, r, s: (Q, z, N, s),
        "r+n": lambda Q, z, r, s: (Q, z, r + N, s),
        "n-r": lambda Q, z, r, s: (Q, z, N - r, s),
        "r+1": lambda Q, z, r, s: (Q, z, r + 1, s),
        "r=2^256-1": lambda Q, z, r, s: (Q, z, M - 1, s),
        "s=0": lambda Q, z, r, s: (Q, z, r, 0),
        "s=n": lambda Q, z, r, s: (Q, z, r, N),
        "s+n": lambda Q, z, r, s: (Q, z, r, s + N),
        "n-s": lambda Q, z, r, s: (Q, z, r, N - s),
        "s+1": lambda Q, z, r, s: (Q, z, r, s + 1),
        "s=2^256-1": lambda Q, z, r, s: (Q, z, r, M - 1),
        "swap-rs": lambda Q, z, r, s: (Q, z, s, r),
        "-s": lambda Q, z, r, s: (Q, z, r, -s),
        "-r": lambda Q, z, r, s: (Q, z, -r, s),
    }


def gen_real_forge(tier, seed):
    secrets = [1, N - 1, 2**128 + 1] + [filler_int(seed, "c01fsecret", i, 1, N - 1) for i in range(1 if tier == "quick" else 3)]
    digests = [0, N, 2**256 - 1] + [filler_int(seed, "c01fdigest", i, 0, 2**256 - 1) for i in range(1 if tier == "quick" else 3)]
    names = list(forge_catalogue(None, ec.SECP))
    cases = []
    G = 6
    for d in secrets:
        for z in digests:
            # every case verifies the valid tuple first and then its deviations on the SAME point object
            lists = [[nm] for nm in names]
            if tier == "thorough" and d in secrets[:2] and z in digests[:2]:
                lists += [[a, b] for a, b in itertools.combinations(names, 2)]
            for i in range(0, len(lists), G):
                cases.append({"d": str(d), "z": str(z), "group": [[]] + lists[i : i + G]})
    # crafted tuples no vector contains
    for j in range(3 if tier == "quick" else 12):
        cases.append({"craft": "xR>=n", "j": j})
    for j in range(2 if tier == "quick" else 6):
        cases.append({"craft": "s-in-float-window", "j": j})
    return cases


def run_real_forge(case):
    from buidl import pecc

    res = Res()
    c = ec.SECP
    vc = {"engine": "real-forge", "case": case}
    if case.get("craft") == "xR>=n":
        # a valid signature whose R has x >= n, built by public key recovery
        x = N + 1 + 5 * case["j"]
        R = None
        while R is None:
            R = c.lift_x(x)
            x += 1
        r = R[0] - N
        s = filler_int(case["j"], "craft-s", 0, 1, N // 2)
        z = filler_int(case["j"], "craft-z", 0, 0, 2**256 - 1)
        rinv = pow(r, -1, N)
        Q = c.add(c.mul(s * rinv % N, R), c.mul((-z * rinv) % N, c.g))
        assert c.ecdsa_verify(Q, z, r, s)
        got = accepted(attempt(pecc.S256Point(Q[0], Q[1]).verify, z, pecc.Signature(r, s)))
        if not got:
            res.violation("C01/real-forge/rejects-valid-xR>=n", vc, got, True, "valid signature whose R.x >= n is rejected (x not reduced mod n)")
        else:
            res.ok("valid(xR>=n) accepted", nontrivial=("craft", case["j"]))
        # and the unreduced x as r must be rejected (r >= n)
        got2 = accepted(attempt(pecc.S256Point(Q[0], Q[1]).verify, z, pecc.Signature(R[0], s)))
        if got2:
            res.violation("C01/real-forge/accepts-out-of-range-r", vc, got2, False, "r = x(R) >= n accepted")
        else:
            res.ok("r>=n rejected", nontrivial=("craft-r", case["j"]))
        return res
    if case.get("craft") == "s-in-float-window":
        # nonce seam: choose (d, k, z) so that the raw s lands in (n//2, 2^255]
        j = case["j"]
        d = filler_int(j, "w-d", 0, 1, N - 1)
        k = filler_int(j, "w-k", 0, 1, N - 1)
        s_raw = [N // 2 + 1, N // 2 + 2, 2**255, 2**255 - 1, N // 2 + 2**64, 2**255 - 2**64][j % 6]
        r = c.mulg(k)[0] % N
        z = (s_raw * k - r * d) % N
        exp = c.ecdsa_sign_k(d, z, k)
        assert exp == (r, N - s_raw)
        old = pecc.PrivateKey.deterministic_k
        pecc.PrivateKey.deterministic_k = lambda self, zz: k
        try:
            sig = attempt(pecc.PrivateKey(d).sign, z)
        finally:
            pecc.PrivateKey.deterministic_k = old
        got = None if isinstance(sig, Rejected) else (sig.r, sig.s)
        if got != exp:
            res.violation("C01/real-forge/high-s-float-window", vc, got, exp, "s in (n//2, 2^255] is not normalised to low S (float comparison N / 2)")
        else:
            res.ok("low-s in float window", nontrivial=("window", j))
        return res
    d, z = int(case["d"]), int(case["z"])
    r, s = c.ecdsa_sign(d, z)
    other = c.mulg((d * 7 + 11) % N or 5)
    cat = forge_catalogue(other, c)
    P0 = c.mulg(d)
    shared = pecc.S256Point(P0[0], P0[1])
    for devl in case["group"]:
        tup = (P0, z, r, s)
        for nm in devl:
            tup = cat[nm](*tup)
        Q, zz, rr, ss = tup
        if not (0 <= zz < 2**256):
            res.skip("digest outside [0, 2^256)")
            continue
        exp = c.ecdsa_verify(Q, zz, rr, ss)
        point = shared if Q == P0 else pecc.S256Point(Q[0], Q[1])
        got = accepted(attempt(point.verify, zz, pecc.Signature(rr, ss)))
        devs = "+".join(devl) or "valid"
        vc = {"engine": "real-forge", "case": dict(case, group=[[], devl] if devl else [[]])}
        if got != exp:
            kind = "accepts-forgery" if got else "rejects-valid"
            res.violation(f"C01/real-forge/{kind}/{devs}", vc, got, exp, "verify disagrees with the ECDSA predicate on the real curve (valid tuple verified first on the same point object)")
        else:
            res.ok(f"verify==ref({exp})", nontrivial=(case["d"], case["z"], devs) if devl else None, sample={"d": case["d"], "z": case["z"], "devs": devl} if len(devl) == 1 else None)
    return res


def gen_real_msg(tier, seed):
    return [{"d": str(d), "len": ln} for d in (1, N - 1, filler_int(seed, "c01m", 0, 1, N - 1)) for ln in (0, 1, 32, 1000)]


def run_real_msg(case):
    import hashlib
    from buidl import pecc

    res = Res()
    d = int(case["d"])
    msg = bytes((i * 7 + 3) % 256 for i in range(case["len"]))
    z = int.from_bytes(hashlib.sha256(hashlib.sha256(msg).digest()).digest(), "big")
    exp = ec.SECP.ecdsa_sign(d, z)
    vc = {"engine": "real-msg", "case": case}
    priv = pecc.PrivateKey(d)
    sig = attempt(priv.sign_message, msg)
    got = None if isinstance(sig, Rejected) else (sig.r, sig.s)
    if got != exp:
        res.violation("C01/real-msg/sign_message", vc, got, exp, "sign_message != sign(hash256(msg))")
        return res
    if not accepted(attempt(priv.point.verify_message, msg, sig)):
        res.violation("C01/real-msg/verify_message", vc, False, True, "verify_message rejects sign_message's output")
        return res
    if accepted(attempt(priv.point.verify_message, msg + b"x", sig)):
        res.violation("C01/real-msg/verify_message-altered", vc, True, False, "verify_message accepts an altered message")
        return res
    res.ok("message sign/verify == ref", nontrivial=(case["d"], case["len"]))
    return res


def engines(tier, seed):
    toys = QUICK_TOYS if tier == "quick" else THOROUGH_TOYS
    es = []
    for toy in toys:
        es.append(
            Engine(
                f"toy-sign-{toy[0]}",
                gen_toy_sign(toy),
                run_toy_sign,
                toy=toy,
                kind="E3",
                rule=f"toy curve p={toy[0]} n={toy[1]}: every secret x digest class x nonce (nonce seam) — sign() must equal the reference ECDSA signature for that nonce, be low-S and verify; non-trivial = reference signature defined (r,s != 0)",
            )
        )
        es.append(
            Engine(
                f"toy-verify-{toy[0]}",
                gen_toy_verify(toy),
                run_toy_verify,
                toy=toy,
                kind="E3",
                rule=f"toy curve p={toy[0]} n={toy[1]}: every public key x digest class x (r, s) in [0, n+2]^2 (thorough [0, 2n+1]^2): verify() == ECDSA predicate incl. range checks, both directions",
            )
        )
    es += [
        Engine("real-sign", gen_real_sign, run_real_sign, kind="E1", rule="secp256k1: boundary secrets x boundary digests (+ seed fillers): exact RFC 6979 signature, verifies, low S, strict DER round trip"),
        Engine("real-der", gen_real_der, run_real_der, kind="E1", rule="DER encoder/decoder on all (r, s) pairs of a 10-value boundary set (byte-length and high-bit boundaries)"),
        Engine(
            "real-forge",
            gen_real_forge,
            run_real_forge,
            kind="E1",
            rule="secp256k1: valid tuples x every single deviation of a 23-entry forgery catalogue (thorough: all pairs for 4 bases) compared with the reference predicate; crafted valid signatures with x(R) >= n (key recovery) and raw s in (n//2, 2^255] (nonce seam)",
        ),
        Engine("real-msg", gen_real_msg, run_real_msg, kind="E1", rule="sign_message/verify_message over message lengths {0,1,32,1000} equal sign/verify on the double-SHA256 digest"),
    ]
    return es
