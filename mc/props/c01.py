"""C01 — ECDSA: signing complete, verification sound, signatures canonical.

E3 toy-sign / toy-verify: the whole state space of a toy instantiation of pecc.py (every secret,
   digest class, nonce; every (P, z, r, s) tuple) against the reference ECDSA on the same curve.
E1 real-sign: boundary secrets x digests on secp256k1: exact RFC 6979 signature, low S, DER.
E1 real-forge: deviation-bounded forgery catalogue and crafted corner cases on secp256k1.
E1 real-retry: RFC 6979 retry branch (candidate 0 / >= n) through a seam on the candidate conversion.
E1 real-keysrc: public keys from every constructor / parser / derivation (and the point at infinity, which
   is no key) x signature objects from Signature.parse.
E1 real-scalars: tuples built for prescribed verification scalars u, v; doubling and infinity inside verify.
E2 key-history: other operations on the key / point objects before sign.
"""
import itertools

from mc.core import Engine, Res, attempt, Rejected, filler_int, current_toy
from mc.ref import ec

PROP = "C01"
QUICK_TOYS = [(43, 31)]
THOROUGH_TOYS = [(43, 31), (79, 67), (67, 79)]


def accepted(v):
    return (not isinstance(v, Rejected)) and bool(v)


def _degenerate(res, c, Q, z, sig, point, prefix, vc):
    """Nonce for which ECDSA defines no signature (r == 0 or s == 0), forced through the nonce seam.  Allowed:
    sign raises | sign returns something the library's verify rejects | sign returns a signature the reference
    accepts (it redrew the nonce).  Forbidden: an invalid signature that the library's own verify accepts."""
    if isinstance(sig, Rejected):
        res.ok("degenerate nonce: sign refuses")
        return
    r, s = getattr(sig, "r", None), getattr(sig, "s", None)
    if not accepted(attempt(point.verify, z, sig)):
        res.ok("degenerate nonce: returned signature is rejected by verify")
    elif c.ecdsa_verify(Q, z, r, s):
        res.ok("degenerate nonce: sign returned a valid signature")
    else:
        res.violation(f"{prefix}/degenerate-nonce/invalid-signature-accepted", vc, (r, s), "sign raises, or verify rejects, or the signature is valid", "for a nonce with r == 0 or s == 0 sign returns an invalid signature that verify accepts")


# ------------------------------------------------------------------ toy engines
def toy_z_classes(n, tier):
    zs = list(range(0, n + 2)) + [2 * n - 1, 2 * n, 2 * n + 1]
    if tier == "thorough":
        zs = list(range(0, 2 * n + 2))
    zs += [2**255, 2**256 - n, 2**256 - 1]
    return zs


def gen_toy_sign(toy):
    def g(tier, seed):
        p, n = toy
        return [{"toy": list(toy), "d": d, "tier": tier} for d in range(1, n)]

    return g


def run_toy_sign(case):
    from buidl import pecc

    res = Res()
    toy = tuple(case["toy"])
    assert current_toy() == toy and pecc.N == toy[1] and pecc.P == toy[0]
    c = ec.toy_curve(*toy)
    n = c.n
    d = case["d"]
    vc = lambda extra: {"engine": f"toy-sign-{toy[0]}", "toy": list(toy), "case": dict(case, only=extra)}
    only = case.get("only")
    priv = pecc.PrivateKey(d)
    if (priv.point.x.num, priv.point.y.num) != c.mulg(d):
        res.violation(f"C01/toy-sign/pubkey", vc(None), str(priv.point), c.mulg(d), "public key differs from reference")
        return res
    cur = {}
    old = pecc.PrivateKey.deterministic_k
    pecc.PrivateKey.deterministic_k = lambda self, z: cur["k"]
    try:
        for z in toy_z_classes(n, case["tier"]):
            for k in range(1, n):
                if only and [z, k] != only:
                    continue
                cur["k"] = k
                exp = c.ecdsa_sign_k(d, z, k)
                sig = attempt(priv.sign, z)
                if exp is None:
                    # the nonce gives r == 0 or s == 0 and the seam cannot redraw it: sign may refuse, or return
                    # something verify rejects, or return a signature that really is valid — nothing else
                    _degenerate(res, c, c.mulg(d), z, sig, priv.point, "C01/toy-sign", vc([z, k]))
                    continue
                got = None if isinstance(sig, Rejected) else (sig.r, sig.s)
                if got != exp:
                    if got and got[1] == exp[1] and got[0] != exp[0] and got[0] % n == exp[0]:
                        cls = "r-not-reduced-mod-n"
                    elif got and got[0] == exp[0] and got[1] == n - exp[1]:
                        cls = "high-s"
                    else:
                        cls = "other"
                    res.violation(f"C01/toy-sign/{cls}", vc([z, k]), got, exp, "sign() differs from the reference signature for this nonce")
                    continue
                if got[1] > n // 2:
                    res.violation("C01/toy-sign/high-s", vc([z, k]), got, exp, "s not low")
                    continue
                v = attempt(priv.point.verify, z, sig)
                if not accepted(v):
                    res.violation("C01/toy-sign/own-signature-rejected", vc([z, k]), repr(v), True, "verify rejects the signature sign produced")
                    continue
                res.ok("sign==ref&verifies", nontrivial=None)
                res.nontrivial_bulk += 1
    finally:
        pecc.PrivateKey.deterministic_k = old
    return res


def gen_toy_verify(toy):
    def g(tier, seed):
        p, n = toy
        hi = n + 2 if tier == "quick" else 2 * n + 1
        zs = list(range(0, n + 1)) + [2 * n, 2**256 - 1]
        if tier == "thorough":
            zs = list(range(0, 2 * n + 1)) + [2**256 - 1]
        cases = []
        for d in range(1, n):
            for zchunk in range(0, len(zs), 8):
                cases.append({"toy": list(toy), "d": d, "zs": zs[zchunk : zchunk + 8], "hi": hi})
        return cases

    return g


def run_toy_verify(case):
    from buidl import pecc

    res = Res()
    toy = tuple(case["toy"])
    assert current_toy() == toy and pecc.N == toy[1]
    c = ec.toy_curve(*toy)
    n = c.n
    Q = c.mulg(case["d"])
    P = pecc.S256Point(Q[0], Q[1])
    only = case.get("only")
    vc = lambda extra: {"engine": f"toy-verify-{toy[0]}", "toy": list(toy), "case": dict(case, only=extra)}
    for z in case["zs"]:
        for r in range(0, case["hi"] + 1):
            for s in range(0, case["hi"] + 1):
                if only and [z, r, s] != only:
                    continue
                exp = c.ecdsa_verify(Q, z, r, s)
                got = accepted(attempt(P.verify, z, pecc.Signature(r, s)))
                if got == exp:
                    res.evaluations += 1
                    if exp:
                        res.outcomes["accept==ref"] += 1
                    else:
                        res.outcomes["reject==ref"] += 1
                    res.nontrivial_bulk += 1
                    continue
                if got and not exp:
                    if not (1 <= r < n) or not (1 <= s < n):
                        cls = "accepts-out-of-range-" + ("r" if not (1 <= r < n) else "s")
                    else:
                        cls = "accepts-invalid"
                else:
                    X = c.lin(z * pow(s, -1, n) % n, c.g, r * pow(s, -1, n) % n, Q)
                    cls = "rejects-valid-xR>=n" if X and X[0] >= n else "rejects-valid"
                res.violation(f"C01/toy-verify/{cls}", vc([z, r, s]), got, exp, "verify disagrees with the ECDSA predicate")
    return res


# ------------------------------------------------------------------ real curve
N = ec.SECP.n


def real_secrets(seed, tier):
    s = [1, 2, 3, N - 1, N - 2, (N - 1) // 2, (N + 1) // 2, 2**128 - 1, 2**128, 2**128 + 1, 2**255 - 1, 2**255]
    nf = 2 if tier == "quick" else 8
    s += [filler_int(seed, "c01secret", i, 1, N - 1) for i in range(nf)]
    return s


def real_digests(seed, tier):
    z = [0, 1, N - 1, N, N + 1, N // 2, 2**255, 2**256 - 1]
    nf = 2 if tier == "quick" else 6
    z += [filler_int(seed, "c01digest", i, 0, 2**256 - 1) for i in range(nf)]
    # digests in [N, 2^256): a uniformly drawn filler never lands there (the interval has measure ~2^-128)
    if tier == "thorough":
        z += [N + 2**128, ec.SECP.p]
    z += [filler_int(seed, "c01digest>=n", i, N, 2**256 - 1) for i in range(1 if tier == "quick" else 3)]
    return z


def gen_real_sign(tier, seed):
    # one case per secret: ONE PrivateKey object signs every digest (the first digest once more at the end), so
    # state kept on the key object between calls is exposed
    zs = real_digests(seed, tier)
    return [{"d": str(d), "zs": [str(z) for z in zs + zs[:1]]} for d in real_secrets(seed, tier)]


def run_real_sign(case):
    from buidl import pecc

    res = Res()
    priv = pecc.PrivateKey(int(case["d"]))
    for j, zz in enumerate(case["zs"]):
        res.merge(_real_sign_one(pecc, priv, {"d": case["d"], "z": zz, "zs": case["zs"][: j + 1]}))
    return res


def _real_sign_one(pecc, priv, case):
    res = Res()
    d, z = int(case["d"]), int(case["z"])
    c = ec.SECP
    vc = {"engine": "real-sign", "case": {"d": case["d"], "zs": case["zs"]}}
    zcls = "z=n" if z == N else ("z>n" if z > N else "z<n")
    exp = c.ecdsa_sign(d, z)
    sig = attempt(priv.sign, z)
    got = None if isinstance(sig, Rejected) else (sig.r, sig.s)
    if got != exp:
        fresh = attempt(pecc.PrivateKey(d).sign, z)
        if not isinstance(fresh, Rejected) and (fresh.r, fresh.s) == exp:
            zcls += "/only-on-reused-key-object"
        res.violation(f"C01/real-sign/not-rfc6979/{zcls}", vc, got, exp, "sign(z) is not the RFC 6979 deterministic low-S signature")
        return res
    res.ok("sign==rfc6979", nontrivial=("sign", case["d"], case["z"], len(case["zs"])), sample={"d": case["d"], "z": case["z"]})
    if not accepted(attempt(priv.point.verify, z, sig)):
        res.violation("C01/real-sign/own-signature-rejected", vc, False, True, "verify rejects sign's output")
    else:
        res.ok("verifies")
    if got[1] > N // 2:
        res.violation("C01/real-sign/high-s", vc, got, exp, "s not low")
    if z >= N:
        # z and z - N are the same digest for ECDSA (bits2octets and the signing equation both reduce it once)
        low = attempt(priv.sign, z - N)
        got_low = None if isinstance(low, Rejected) else (low.r, low.s)
        if got_low != exp:
            res.violation("C01/real-sign/z>=n-not-equivalent-to-z-n", vc, got_low, exp, "sign(z - N) differs from sign(z) for a digest z >= N")
        else:
            res.ok("sign(z-n)==sign(z)", nontrivial=("sign-equiv", case["d"], case["z"]))
    der = attempt(sig.der)
    if der != ec.der_sig(*exp):
        res.violation("C01/real-sign/der-encode", vc, der, ec.der_sig(*exp), "DER encoding differs from strict DER")
    else:
        back = attempt(pecc.Signature.parse, der)
        if isinstance(back, Rejected) or (back.r, back.s) != exp:
            res.violation("C01/real-sign/der-roundtrip", vc, repr(back), exp, "DER round trip changes the signature")
        else:
            res.ok("der-roundtrip")
    return res


DER_VALUES = [1, 0x7F, 0x80, 0xFF, 0x100, 2**248 - 1, 2**248, 2**255 - 1, 2**255, N - 1]


def gen_real_der(tier, seed):
    cases = [{"r": str(r), "s": str(s)} for r in DER_VALUES for s in DER_VALUES]
    # every integer byte length the encoder can be asked for: one case per bit length b in 1..256
    cases += [{"bits": b} for b in range(1, 257)]
    return cases


def der_bitlen_values(b):
    return sorted(v for v in {2 ** (b - 1), 2 ** (b - 1) + 1, 2**b - 1} if 1 <= v < N and v.bit_length() == b)


def run_real_der_bits(case):
    from buidl import pecc

    res = Res()
    b = case["bits"]
    vc = {"engine": "real-der", "case": case}
    for v in der_bitlen_values(b):
        pad = "msb-set" if v.bit_length() % 8 == 0 else "msb-clear"
        for w in (1, N - 1):
            for r, s in ((v, w), (w, v)):
                exp = ec.der_sig(r, s)
                der = attempt(pecc.Signature(r, s).der)
                if der != exp:
                    res.violation(f"C01/real-der/bitlen/encode/{pad}", vc, {"r": r, "s": s, "der": der}, exp, "der() is not the strict DER encoding (value of the given bit length)")
                    continue
                back = attempt(pecc.Signature.parse, exp)
                if isinstance(back, Rejected) or (back.r, back.s) != (r, s):
                    res.violation(f"C01/real-der/bitlen/parse/{pad}", vc, repr(back), (r, s), "parse(der) does not return (r, s)")
                    continue
                res.ok("der==ref&roundtrip", nontrivial=("bits", r, s))
    return res


def run_real_der(case):
    from buidl import pecc

    if "bits" in case:
        return run_real_der_bits(case)
    res = Res()
    r, s = int(case["r"]), int(case["s"])
    exp = ec.der_sig(r, s)
    der = attempt(pecc.Signature(r, s).der)
    vc = {"engine": "real-der", "case": case}
    if der != exp:
        res.violation(f"C01/real-der/encode/rlen{(r.bit_length()+7)//8}-slen{(s.bit_length()+7)//8}", vc, der, exp, "der() is not the strict DER encoding")
        return res
    back = attempt(pecc.Signature.parse, exp)
    if isinstance(back, Rejected) or (back.r, back.s) != (r, s):
        res.violation("C01/real-der/parse", vc, repr(back), (r, s), "parse(der) does not return (r, s)")
        return res
    res.ok("der==ref&roundtrip", nontrivial=(case["r"], case["s"]))
    return res


def forge_catalogue(other_pub, c):
    """name -> function mapping a tuple (pub, z, r, s) to a deviated tuple."""
    M = 2**256
    return {
        "z+1": lambda Q, z, r, s: (Q, (z + 1) % M, r, s),
        "z-1": lambda Q, z, r, s: (Q, (z - 1) % M, r, s),
        "z^bit0": lambda Q, z, r, s: (Q, z ^ 1, r, s),
        "z^bit128": lambda Q, z, r, s: (Q, z ^ (1 << 128), r, s),
        "z^bit255": lambda Q, z, r, s: (Q, z ^ (1 << 255), r, s),
        "otherkey": lambda Q, z, r, s: (other_pub, z, r, s),
        "negkey": lambda Q, z, r, s: (c.neg(Q), z, r, s),
        "r=0": lambda Q, z, r, s: (Q, z, 0, s),
        "r=n": lambda Q, z, r, s: (Q, z, N, s),
        "r+n": lambda Q, z, r, s: (Q, z, r + N, s),
        "n-r": lambda Q, z, r, s: (Q, z, N - r, s),
        "r+1": lambda Q, z, r, s: (Q, z, r + 1, s),
        "r=2^256-1": lambda Q, z, r, s: (Q, z, M - 1, s),
        "s=0": lambda Q, z, r, s: (Q, z, r, 0),
        "s=n": lambda Q, z, r, s: (Q, z, r, N),
        "s+n": lambda Q, z, r, s: (Q, z, r, s + N),
        "n-s": lambda Q, z, r, s: (Q, z, r, N - s),
        "s+1": lambda Q, z, r, s: (Q, z, r, s + 1),
        "s=2^256-1": lambda Q, z, r, s: (Q, z, r, M - 1),
        "swap-rs": lambda Q, z, r, s: (Q, z, s, r),
        "-s": lambda Q, z, r, s: (Q, z, r, -s),
        "-r": lambda Q, z, r, s: (Q, z, -r, s),
        # the same digest class mod N: the reference says validity is unchanged (skipped when outside [0, 2^256))
        "z+n": lambda Q, z, r, s: (Q, z + N, r, s),
        "z-n": lambda Q, z, r, s: (Q, z - N, r, s),
    }


def gen_real_forge(tier, seed):
    secrets = [1, N - 1, 2**128 + 1] + [filler_int(seed, "c01fsecret", i, 1, N - 1) for i in range(1 if tier == "quick" else 3)]
    digests = [0, N, 2**256 - 1] + [filler_int(seed, "c01fdigest", i, 0, 2**256 - 1) for i in range(1 if tier == "quick" else 3)]
    names = list(forge_catalogue(None, ec.SECP))
    cases = []
    G = 6
    for d in secrets:
        for z in digests:
            # every case verifies the valid tuple first and then its deviations on the SAME point object
            lists = [[nm] for nm in names]
            if tier == "thorough" and d in secrets[:2] and z in digests[:2]:
                lists += [[a, b] for a, b in itertools.combinations(names, 2)]
            for i in range(0, len(lists), G):
                cases.append({"d": str(d), "z": str(z), "group": [[]] + lists[i : i + G]})
    # crafted tuples no vector contains
    for j in range(3 if tier == "quick" else 12):
        cases.append({"craft": "xR>=n", "j": j})
    for j in range(2 if tier == "quick" else 6):
        cases.append({"craft": "s-in-float-window", "j": j})
    for j in range(len(RAW_S) * (1 if tier == "quick" else 3)):
        cases.append({"craft": "raw-s-boundary", "j": j})
    for j in range(2 if tier == "quick" else 6):
        cases.append({"craft": "degenerate-s0", "j": j})
    return cases


# raw (pre-normalisation) values of s at the low-S boundary and at the ends of [1, n-1]
RAW_S = [N // 2, N // 2 - 1, N // 2 + 1, 1, 2, N - 1, N - 2]


def _forced_nonce_sign(pecc, d, z, k):
    old = pecc.PrivateKey.deterministic_k
    pecc.PrivateKey.deterministic_k = lambda self, zz: k
    try:
        priv = pecc.PrivateKey(d)
        return priv, attempt(priv.sign, z)
    finally:
        pecc.PrivateKey.deterministic_k = old


def run_real_forge(case):
    from buidl import pecc

    res = Res()
    c = ec.SECP
    vc = {"engine": "real-forge", "case": case}
    if case.get("craft") == "xR>=n":
        # a valid signature whose R has x >= n, built by public key recovery
        x = N + 1 + 5 * case["j"]
        R = None
        while R is None:
            R = c.lift_x(x)
            x += 1
        r = R[0] - N
        s = filler_int(case["j"], "craft-s", 0, 1, N // 2)
        z = filler_int(case["j"], "craft-z", 0, 0, 2**256 - 1)
        rinv = pow(r, -1, N)
        Q = c.add(c.mul(s * rinv % N, R), c.mul((-z * rinv) % N, c.g))
        assert c.ecdsa_verify(Q, z, r, s)
        got = accepted(attempt(pecc.S256Point(Q[0], Q[1]).verify, z, pecc.Signature(r, s)))
        if not got:
            res.violation("C01/real-forge/rejects-valid-xR>=n", vc, got, True, "valid signature whose R.x >= n is rejected (x not reduced mod n)")
        else:
            res.ok("valid(xR>=n) accepted", nontrivial=("craft", case["j"]))
        # and the unreduced x as r must be rejected (r >= n)
        got2 = accepted(attempt(pecc.S256Point(Q[0], Q[1]).verify, z, pecc.Signature(R[0], s)))
        if got2:
            res.violation("C01/real-forge/accepts-out-of-range-r", vc, got2, False, "r = x(R) >= n accepted")
        else:
            res.ok("r>=n rejected", nontrivial=("craft-r", case["j"]))
        return res
    if case.get("craft") == "s-in-float-window":
        # nonce seam: choose (d, k, z) so that the raw s lands in (n//2, 2^255]
        j = case["j"]
        d = filler_int(j, "w-d", 0, 1, N - 1)
        k = filler_int(j, "w-k", 0, 1, N - 1)
        s_raw = [N // 2 + 1, N // 2 + 2, 2**255, 2**255 - 1, N // 2 + 2**64, 2**255 - 2**64][j % 6]
        r = c.mulg(k)[0] % N
        z = (s_raw * k - r * d) % N
        exp = c.ecdsa_sign_k(d, z, k)
        assert exp == (r, N - s_raw)
        old = pecc.PrivateKey.deterministic_k
        pecc.PrivateKey.deterministic_k = lambda self, zz: k
        try:
            sig = attempt(pecc.PrivateKey(d).sign, z)
        finally:
            pecc.PrivateKey.deterministic_k = old
        got = None if isinstance(sig, Rejected) else (sig.r, sig.s)
        if got != exp:
            res.violation("C01/real-forge/high-s-float-window", vc, got, exp, "s in (n//2, 2^255] is not normalised to low S (float comparison N / 2)")
        else:
            res.ok("low-s in float window", nontrivial=("window", j))
        return res
    if case.get("craft") == "raw-s-boundary":
        # nonce seam: (d, k, z) chosen so that the raw s = (z + r d) / k is exactly RAW_S[j]; it must come out as
        # min(s, n - s): N // 2 and below untouched, N // 2 + 1 and above negated
        j = case["j"]
        d = filler_int(j // len(RAW_S), "b-d", 0, 1, N - 1)
        k = filler_int(j // len(RAW_S), "b-k", 0, 1, N - 1)
        s_raw = RAW_S[j % len(RAW_S)]
        r = c.mulg(k)[0] % N
        z = (s_raw * k - r * d) % N
        exp = c.ecdsa_sign_k(d, z, k)
        assert exp == (r, min(s_raw, N - s_raw))
        priv, sig = _forced_nonce_sign(pecc, d, z, k)
        got = None if isinstance(sig, Rejected) else (sig.r, sig.s)
        if got != exp:
            if got and got == (r, N - exp[1]):
                cls = "high-s-kept" if s_raw > N // 2 else "low-s-flipped"
            else:
                cls = "other"
            res.violation(f"C01/real-forge/raw-s-boundary/{cls}", vc, got, exp, "raw s at the low-S boundary / at the ends of [1, n-1] is not normalised to min(s, n - s)")
        elif not accepted(attempt(priv.point.verify, z, sig)):
            res.violation("C01/real-forge/raw-s-boundary/own-signature-rejected", vc, False, True, "verify rejects the signature sign produced")
        else:
            res.ok("raw s boundary -> low s, verifies", nontrivial=("raw-s", j))
        return res
    if case.get("craft") == "degenerate-s0":
        # nonce seam: z = -r d (mod n) makes s == 0; no signature exists for this nonce (see _degenerate)
        j = case["j"]
        d = filler_int(j, "g-d", 0, 1, N - 1)
        k = filler_int(j, "g-k", 0, 1, N - 1)
        r = c.mulg(k)[0] % N
        z = (-r * d) % N
        if j % 2 and z + N < 2**256:
            z += N
        assert c.ecdsa_sign_k(d, z, k) is None
        priv, sig = _forced_nonce_sign(pecc, d, z, k)
        _degenerate(res, c, c.mulg(d), z, sig, priv.point, "C01/real-forge", vc)
        return res
    d, z = int(case["d"]), int(case["z"])
    r, s = c.ecdsa_sign(d, z)
    other = c.mulg((d * 7 + 11) % N or 5)
    cat = forge_catalogue(other, c)
    P0 = c.mulg(d)
    shared = pecc.S256Point(P0[0], P0[1])
    for devl in case["group"]:
        tup = (P0, z, r, s)
        for nm in devl:
            tup = cat[nm](*tup)
        Q, zz, rr, ss = tup
        if not (0 <= zz < 2**256):
            res.skip("digest outside [0, 2^256)")
            continue
        exp = c.ecdsa_verify(Q, zz, rr, ss)
        point = shared if Q == P0 else pecc.S256Point(Q[0], Q[1])
        got = accepted(attempt(point.verify, zz, pecc.Signature(rr, ss)))
        devs = "+".join(devl) or "valid"
        vc = {"engine": "real-forge", "case": dict(case, group=[[], devl] if devl else [[]])}
        if got != exp:
            kind = "accepts-forgery" if got else "rejects-valid"
            res.violation(f"C01/real-forge/{kind}/{devs}", vc, got, exp, "verify disagrees with the ECDSA predicate on the real curve (valid tuple verified first on the same point object)")
        else:
            res.ok(f"verify==ref({exp})", nontrivial=(case["d"], case["z"], devs) if devl else None, sample={"d": case["d"], "z": case["z"], "devs": devl} if len(devl) == 1 else None)
    return res


# ------------------------------------------------------------------ RFC 6979 retry branch (candidate out of range)
def rfc6979_k_forced(d, z, forced):
    """RFC 6979 section 3.2 (HMAC-SHA256, qlen = 256) where the i-th candidate T is replaced by forced[i] for
    i < len(forced): step h.3 accepts a candidate in [1, q-1], otherwise K = HMAC_K(V || 0x00), V = HMAC_K(V)."""
    import hashlib
    import hmac

    mac = lambda key, msg: hmac.new(key, msg, hashlib.sha256).digest()
    h1 = (z - N if z >= N else z).to_bytes(32, "big")
    x = d.to_bytes(32, "big")
    V, K = b"\x01" * 32, b"\x00" * 32
    K = mac(K, V + b"\x00" + x + h1)
    V = mac(K, V)
    K = mac(K, V + b"\x01" + x + h1)
    V = mac(K, V)
    i = 0
    while True:
        V = mac(K, V)
        k = forced[i] if i < len(forced) else int.from_bytes(V, "big")
        i += 1
        if 1 <= k < N:
            return k
        K = mac(K, V + b"\x00")
        V = mac(K, V)


RETRY_VALUES = {"0": 0, "n": N, "n+1": N + 1, "max": 2**256 - 1, "n-1": N - 1, "1": 1}
RETRY_PREFIXES = [[], ["0"], ["n"], ["n+1"], ["max"], ["n-1"], ["1"], ["0", "n"], ["n", "0", "max"], ["max", "n-1"]]
RETRY_PREFIXES_THOROUGH = [["0", "0", "0"], ["n+1", "max", "n", "0"], ["0", "1"], ["max", "max"]]


def gen_real_retry(tier, seed):
    secrets = [1, N - 1, filler_int(seed, "c01rsecret", 0, 1, N - 1)]
    digests = [0, N, 2**256 - 1, filler_int(seed, "c01rdigest", 0, 0, 2**256 - 1)]
    prefixes = list(RETRY_PREFIXES)
    if tier == "thorough":
        secrets += [2, 2**255] + [filler_int(seed, "c01rsecret", i, 1, N - 1) for i in (1, 2)]
        digests += [N - 1, N + 1] + [filler_int(seed, "c01rdigest", i, 0, 2**256 - 1) for i in (1, 2)]
        prefixes += RETRY_PREFIXES_THOROUGH
    return [{"d": str(d), "z": str(z), "forced": p} for d in secrets for z in digests for p in prefixes]


def run_real_retry(case):
    from buidl import pecc

    res = Res()
    d, z = int(case["d"]), int(case["z"])
    forced = [RETRY_VALUES[nm] for nm in case["forced"]]
    vc = {"engine": "real-retry", "case": case}
    exp_k = rfc6979_k_forced(d, z, forced)
    exp_sig = ec.SECP.ecdsa_sign_k(d, z, exp_k)
    orig = getattr(pecc, "big_endian_to_int", None)
    if orig is None:
        res.skip("seam missing: pecc has no module-level big_endian_to_int")
        return res
    priv = pecc.PrivateKey(d)

    def under_seam(fn, *a):
        cnt = {"i": 0}

        def seam(b):
            i = cnt["i"]
            cnt["i"] += 1
            return forced[i] if i < len(forced) else orig(b)

        pecc.big_endian_to_int = seam
        try:
            return attempt(fn, *a), cnt["i"]
        finally:
            pecc.big_endian_to_int = orig

    got_k, used = under_seam(priv.deterministic_k, z)
    if used == 0:
        res.skip("seam not reached: deterministic_k does not convert its candidate through pecc.big_endian_to_int")
        return res
    kind = "first-candidate" if not forced else ("boundary-accept" if forced[0] in (1, N - 1) and len(forced) == 1 else "retry")
    if got_k != exp_k:
        if isinstance(got_k, Rejected):
            cls = "rejected"
        elif not (isinstance(got_k, int) and 1 <= got_k < N):
            cls = "nonce-out-of-range"
        elif forced and got_k in forced:
            cls = "in-range-candidate-handling"
        else:
            cls = "stream-after-rejected-candidate-differs"
        res.violation(f"C01/real-retry/{kind}/{cls}", vc, got_k, exp_k, "deterministic_k differs from RFC 6979 3.2 step h when candidates are forced out of range (K = HMAC_K(V || 00), V = HMAC_K(V), redraw)")
        return res
    res.ok(f"k==rfc6979({kind})", nontrivial=("k", case["d"], case["z"], tuple(case["forced"])), sample=case if forced else None)
    sig, _ = under_seam(priv.sign, z)
    got = None if isinstance(sig, Rejected) else (sig.r, sig.s)
    if exp_sig is None:
        res.skip("forced nonce gives r == 0 or s == 0")
    elif got != exp_sig:
        res.violation(f"C01/real-retry/{kind}/sign", vc, got, exp_sig, "sign() under the same forced candidates is not the reference signature for the RFC 6979 nonce")
    else:
        res.ok("sign==ref under forced candidates")
    return res


# ------------------------------------------------------------------ public-key sources x signature-object sources
KEYSRC = ["priv.point", "xy", "sec33", "sec65", "xonly", "even_point", "combine", "neg"]
KEYSRC_GROUP = {"priv.point": "constructed", "xy": "constructed", "sec33": "parsed", "sec65": "parsed", "xonly": "parsed", "even_point": "derived", "combine": "derived", "neg": "derived"}
INF_SRC = ["S256Point(None,None)", "parse(32 zero bytes)", "P+(-P)", "n*G"]


def build_point(pecc, c, src, d):
    """Returns (library point object, reference point it must denote)."""
    Q = c.mulg(d)
    even = Q if Q[1] % 2 == 0 else c.neg(Q)
    if src == "priv.point":
        return pecc.PrivateKey(d).point, Q
    if src == "xy":
        return pecc.S256Point(Q[0], Q[1]), Q
    if src == "sec33":
        return pecc.S256Point.parse(c.sec(Q, True)), Q
    if src == "sec65":
        return pecc.S256Point.parse(c.sec(Q, False)), Q
    if src == "xonly":
        return pecc.S256Point.parse(Q[0].to_bytes(32, "big")), even
    if src == "even_point":
        return pecc.S256Point(Q[0], Q[1]).even_point(), even
    if src == "combine":
        A = c.add(Q, c.neg(c.g))
        a = pecc.S256Point(None, None) if A is None else pecc.S256Point(A[0], A[1])
        return pecc.S256Point.combine([a, pecc.S256Point(c.g[0], c.g[1])]), Q
    if src == "neg":
        M = c.neg(Q)
        return -1 * pecc.S256Point(M[0], M[1]), Q
    raise ValueError(src)


def build_infinity(pecc, c, src):
    if src == "S256Point(None,None)":
        return pecc.S256Point(None, None)
    if src == "parse(32 zero bytes)":
        return pecc.S256Point.parse(b"\x00" * 32)
    if src == "P+(-P)":
        P = c.mulg(5)
        M = c.neg(P)
        return pecc.S256Point.combine([pecc.S256Point(P[0], P[1]), pecc.S256Point(M[0], M[1])])
    if src == "n*G":
        return N * pecc.S256Point(c.g[0], c.g[1])
    raise ValueError(src)


KEYSRC_DEVS = ["valid", "n-s", "z^bit0", "s+1", "r+n"]


def gen_real_keysrc(tier, seed):
    if tier == "quick":
        secrets = [N - 1, filler_int(seed, "c01ksecret", 0, 1, N - 1)]  # G has even y, (N-1)G odd y
        digests = [filler_int(seed, "c01kdigest", 0, 0, 2**256 - 1)]
    else:
        secrets = [1, N - 1, 2**128 + 1] + [filler_int(seed, "c01ksecret", i, 1, N - 1) for i in range(2)]
        digests = [0, N, 2**256 - 1] + [filler_int(seed, "c01kdigest", i, 0, 2**256 - 1) for i in range(2)]
    cases = [{"d": str(d), "z": str(z), "keysrc": k} for d in secrets for z in digests for k in KEYSRC]
    cases += [{"inf": src, "j": j} for src in INF_SRC for j in range(2 if tier == "quick" else 5)]
    return cases


def run_real_keysrc(case):
    from buidl import pecc

    res = Res()
    c = ec.SECP
    vc = {"engine": "real-keysrc", "case": case}
    if "inf" in case:
        # the point at infinity is not a public key: for any z and s, r = x((z/s) G) mod n satisfies the verification
        # equation "x(u G + v O) == r" without any secret; it must be rejected like every other tuple under O
        j = case["j"]
        O = attempt(build_infinity, pecc, c, case["inf"])
        if isinstance(O, Rejected):
            res.ok("infinity not constructible from this source (rejected)")
            return res
        z = [N + 3, 2**256 - 1][j] if j < 2 else filler_int(j, "inf-z", 0, 1, 2**256 - 1)
        s = [1, N - 1][j] if j < 2 else filler_int(j, "inf-s", 0, 1, N - 1)
        R = c.mulg(z * pow(s, -1, N) % N)
        r = R[0] % N
        dh = filler_int(j, "inf-d", 0, 1, N - 1)
        hr, hs = c.ecdsa_sign(dh, z)
        for name, rr, ss in (("crafted r=x((z/s)G)", r, s), ("crafted, n-s", r, N - s), ("honest signature of another key", hr, hs)):
            exp = c.ecdsa_verify(None, z, rr, ss)
            assert exp is False
            got = accepted(attempt(O.verify, z, pecc.Signature(rr, ss)))
            if got:
                res.violation("C01/real-keysrc/accepts-forgery/infinity-pubkey", vc, {"tuple": name, "accepted": True}, False, "verify under the point at infinity as public key accepts a signature (computable without any secret)")
            else:
                res.ok("infinity pubkey: rejected", nontrivial=("inf", case["inf"], j, name))
        return res
    d, z, src = int(case["d"]), int(case["z"]), case["keysrc"]
    built = attempt(build_point, pecc, c, src, d)
    grp = KEYSRC_GROUP[src]
    if isinstance(built, Rejected):
        res.violation(f"C01/real-keysrc/rejects-valid/{grp}-key", vc, repr(built), "a point object", "a valid public key cannot be obtained from this source")
        return res
    point, Qexp = built
    d_eff = d if Qexp == c.mulg(d) else N - d  # the secret of the point this source denotes (x-only sources drop the sign of y)
    assert c.mulg(d_eff) == Qexp
    r, s = c.ecdsa_sign(d_eff, z)
    for dev in KEYSRC_DEVS:
        zz, rr, ss = {"valid": (z, r, s), "n-s": (z, r, N - s), "z^bit0": (z ^ 1, r, s), "s+1": (z, r, s + 1), "r+n": (z, r + N, s)}[dev]
        exp = c.ecdsa_verify(Qexp, zz, rr, ss)
        obs = {}
        for sigsrc in ("ints", "parsed"):
            if sigsrc == "ints":
                sig = pecc.Signature(rr, ss)
            else:
                sig = attempt(pecc.Signature.parse, ec.der_sig(rr, ss))
                if isinstance(sig, Rejected):
                    obs[sigsrc] = False  # a signature that cannot be decoded is a rejected signature
                    continue
            obs[sigsrc] = accepted(attempt(point.verify, zz, sig))
        for sigsrc in ("ints", "parsed"):
            if obs[sigsrc] == exp:
                res.ok(f"verify==ref({exp})", nontrivial=(case["d"], case["z"], src, dev, sigsrc), sample=dict(case, dev=dev) if dev == "valid" and sigsrc == "parsed" else None)
                continue
            kind = "accepts-forgery" if obs[sigsrc] else "rejects-valid"
            cls = f"{grp}-key" if sigsrc == "ints" or obs["ints"] != exp else "decoded-signature-object"
            res.violation(f"C01/real-keysrc/{kind}/{cls}", vc, {"dev": dev, "sig": sigsrc, "accepted": obs[sigsrc]}, exp, "verify disagrees with the ECDSA predicate for a public key from this source / a signature object from Signature.parse (all deviations run on ONE point object)")
    return res


# ------------------------------------------------------------------ prescribed verification scalars
SCALARS_QUICK = [1, 2, N - 1, (N - 1) // 2, 2**128, 2**255]
SCALARS_THOROUGH = SCALARS_QUICK + [3, N - 2, (N + 1) // 2, 2**64 - 1, 2**192]
SCALAR_DEVS = ["valid", "z+n (only when < 2^256)", "n-s", "z^bit0", "s+1", "r+1"]


def gen_real_scalars(tier, seed):
    B = SCALARS_QUICK if tier == "quick" else SCALARS_THOROUGH
    keys = [filler_int(seed, "c01usecret", 0, 1, N - 1)]
    if tier == "thorough":
        keys = [1, N - 1] + keys + [filler_int(seed, "c01usecret", 1, 1, N - 1)]
    cases = [{"d": str(d), "u": str(u), "v": str(v)} for d in keys for u in [0] + B for v in B]
    nj = 2 if tier == "quick" else 6
    cases += [{"special": "doubling", "j": j} for j in range(nj)]
    cases += [{"special": "infinity-total", "j": j} for j in range(nj)]
    return cases


def run_real_scalars(case):
    from buidl import pecc

    res = Res()
    c = ec.SECP
    vc = {"engine": "real-scalars", "case": case}

    def check(point, Q, tuples, cls):
        for dev, zz, rr, ss in tuples:
            if not (0 <= zz < 2**256):
                res.skip("digest outside [0, 2^256)")
                continue
            exp = c.ecdsa_verify(Q, zz, rr, ss)
            got = accepted(attempt(point.verify, zz, pecc.Signature(rr, ss)))
            if got != exp:
                kind = "accepts-forgery" if got else "rejects-valid"
                res.violation(f"C01/real-scalars/{kind}/{cls}", vc, {"dev": dev, "accepted": got}, exp, "verify disagrees with the ECDSA predicate on a tuple built for prescribed scalars u = z/s, v = r/s")
            else:
                res.ok(f"verify==ref({exp})", nontrivial=(repr(case), dev), sample=dict(case, dev=dev) if dev == "valid" else None)

    def devs(z, r, s):
        t = [("valid", z, r, s), ("n-s", z, r, N - s), ("z^bit0", z ^ 1, r, s), ("s+1", z, r, s + 1), ("r+1", z, r + 1, s)]
        if z + N < 2**256:  # z < N here, so this is the case only for z < 2^256 - N (e.g. u == 0)
            t.append(("z+n", z + N, r, s))
        return t

    if case.get("special") == "doubling":
        # u G == v Q (the addition inside verify is a doubling): z = r d, s = 2 z / k  =>  u = v d = k / 2
        j = case["j"]
        d = [1, N - 1][j] if j < 2 else filler_int(j, "dbl-d", 0, 1, N - 1)
        k = filler_int(j, "dbl-k", 0, 1, N - 1)
        r = c.mulg(k)[0] % N
        z = r * d % N
        s = 2 * z * pow(k, -1, N) % N
        Q = c.mulg(d)
        assert c.mul(z * pow(s, -1, N) % N, c.g) == c.mul(r * pow(s, -1, N) % N, Q) and c.ecdsa_verify(Q, z, r, s)
        check(pecc.S256Point(Q[0], Q[1]), Q, devs(z, r, s), "doubling")
        return res
    if case.get("special") == "infinity-total":
        # u G == -(v Q): z = -r d; the sum is the point at infinity for EVERY s, nothing may be accepted
        j = case["j"]
        d = [1, N - 1][j] if j < 2 else filler_int(j, "it-d", 0, 1, N - 1)
        k = filler_int(j, "it-k", 0, 1, N - 1)
        r = c.mulg(k)[0] % N
        z = (-r * d) % N
        Q = c.mulg(d)
        tuples = [(f"s={nm}", z, r, s) for nm, s in (("1", 1), ("2", 2), ("n-1", N - 1), ("filler", filler_int(j, "it-s", 0, 1, N - 1)))]
        if z + N < 2**256:
            tuples.append(("z+n", z + N, r, 1))
        assert all(c.lin(zz * pow(ss, -1, N) % N, c.g, rr * pow(ss, -1, N) % N, Q) is None for _, zz, rr, ss in tuples)
        check(pecc.S256Point(Q[0], Q[1]), Q, tuples, "infinity-total")
        return res
    d, u, v = int(case["d"]), int(case["u"]), int(case["v"])
    Q = c.mulg(d)
    R = c.lin(u, c.g, v, Q)
    if R is None or R[0] % N == 0:
        res.skip("no signature has these scalars (u G + v Q is the point at infinity)")
        return res
    r = R[0] % N
    s = r * pow(v, -1, N) % N
    z = u * s % N
    assert c.ecdsa_verify(Q, z, r, s)
    check(pecc.S256Point(Q[0], Q[1]), Q, devs(z, r, s), "prescribed-scalars")
    return res


# ------------------------------------------------------------------ E2: operation histories on the key / point object
HISTORY_OPS = {
    "schnorr": lambda p: p.sign_schnorr(b"\x07" * 32),
    "even_secret": lambda p: p.even_secret(),
    "tweaked": lambda p: p.tweaked_key(),
    "pt.even": lambda p: p.point.even_point(),
    "pt.tweaked": lambda p: p.point.tweaked_key(),
    "pt.sec": lambda p: (p.point.sec(), p.point.sec(False), p.point.xonly()),
    "wif": lambda p: p.wif(),
    "pt.neg": lambda p: -1 * p.point,
    "pt.add": lambda p: p.point + 5,
    "pt.addr": lambda p: (p.point.address(), p.point.p2wpkh_address(), p.point.p2tr_address()),
    "ecdsa": lambda p: p.point.verify(5, p.sign(5)),
}
HISTORY_OPS_QUICK = ["schnorr", "even_secret", "tweaked", "pt.even", "pt.tweaked", "pt.sec", "wif"]


def history_ops(tier):
    return HISTORY_OPS_QUICK if tier == "quick" else list(HISTORY_OPS)


def gen_key_history(tier, seed):
    ops = history_ops(tier)
    if tier == "quick":
        # (N-1)G has odd y (the parity-dependent code paths run): all sequences of length <= 2; 2G has even y: length <= 1
        plan = [(N - 1, 2), (2, 1)]
        zs = [filler_int(seed, "c01hdigest", 0, 0, 2**256 - 1)]
    else:
        plan = [(d, 2) for d in (1, 2, N - 1, N - 2, 2**255, filler_int(seed, "c01hsecret", 0, 1, N - 1))]
        zs = [0, N, filler_int(seed, "c01hdigest", 0, 0, 2**256 - 1)]
    cases = []
    for d, maxlen in plan:
        seqs = [[]] + [[a] for a in ops] + ([[a, b] for a in ops for b in ops] if maxlen >= 2 else [])
        for z in zs:
            cases += [{"d": str(d), "z": str(z), "seq": q} for q in seqs]
    return cases


def run_key_history(case):
    from buidl import pecc

    res = Res()
    c = ec.SECP
    d, z, seq = int(case["d"]), int(case["z"]), case["seq"]
    exp = c.ecdsa_sign(d, z)
    vc = {"engine": "key-history", "case": case}
    priv = pecc.PrivateKey(d)
    res.states += 1
    for nm in seq:
        attempt(HISTORY_OPS[nm], priv)  # the operation's own result is another property's business
        res.states += 1
        res.transitions += 1
    sig = attempt(priv.sign, z)
    res.transitions += 1
    got = None if isinstance(sig, Rejected) else (sig.r, sig.s)
    if got != exp:
        res.violation("C01/key-history/signature-changed", vc, got, exp, "after other operations on the same key / point objects sign(z) is no longer the RFC 6979 signature of the original secret")
    elif not accepted(attempt(priv.point.verify, z, sig)):
        res.violation("C01/key-history/own-signature-rejected", vc, False, True, "after other operations on the same key / point objects the key's own point rejects the key's signature")
    else:
        res.ok("history: sign==rfc6979&verifies", nontrivial=(case["d"], case["z"], tuple(seq)), sample=case if len(seq) == 2 else None)
    return res


def gen_real_msg(tier, seed):
    return [{"d": str(d), "len": ln} for d in (1, N - 1, filler_int(seed, "c01m", 0, 1, N - 1)) for ln in (0, 1, 32, 1000)]


def run_real_msg(case):
    import hashlib
    from buidl import pecc

    res = Res()
    d = int(case["d"])
    msg = bytes((i * 7 + 3) % 256 for i in range(case["len"]))
    z = int.from_bytes(hashlib.sha256(hashlib.sha256(msg).digest()).digest(), "big")
    exp = ec.SECP.ecdsa_sign(d, z)
    vc = {"engine": "real-msg", "case": case}
    priv = pecc.PrivateKey(d)
    sig = attempt(priv.sign_message, msg)
    got = None if isinstance(sig, Rejected) else (sig.r, sig.s)
    if got != exp:
        res.violation("C01/real-msg/sign_message", vc, got, exp, "sign_message != sign(hash256(msg))")
        return res
    if not accepted(attempt(priv.point.verify_message, msg, sig)):
        res.violation("C01/real-msg/verify_message", vc, False, True, "verify_message rejects sign_message's output")
        return res
    if accepted(attempt(priv.point.verify_message, msg + b"x", sig)):
        res.violation("C01/real-msg/verify_message-altered", vc, True, False, "verify_message accepts an altered message")
        return res
    res.ok("message sign/verify == ref", nontrivial=(case["d"], case["len"]))
    return res



# ------------------------------------------------------------------ histories on ONE Signature object (E2)
SIG_EDITS = ["s:=s+1", "s:=n-s", "s:=s0", "r:=r+1", "r:=r0", "s:=2s", "s:=0", "s:=s0+n"]


def gen_sig_history(tier, seed):
    depth = 2 if tier == "quick" else 3
    keys = [filler_int(seed, "c01shkey", 0, 1, N - 1)] + ([1, N - 1] if tier == "thorough" else [])
    cases = []
    for d in keys:
        z = filler_int(seed, "c01shz", d % 97, 0, 2**256 - 1)
        for L in range(1, depth + 1):
            for q in itertools.product(range(len(SIG_EDITS)), repeat=L):
                cases.append({"d": str(d), "z": str(z), "edits": list(q)})
    return cases


def run_sig_history(case):
    """verify, then edit r / s of the SAME Signature object in place and verify again, on the same point object:
    every verdict must be the reference predicate on the object's current (r, s)."""
    from buidl import pecc

    res = Res()
    c = ec.SECP
    d, z = int(case["d"]), int(case["z"])
    r0, s0 = c.ecdsa_sign(d, z)
    P = c.mulg(d)
    pt = pecc.S256Point(P[0], P[1])
    sig = pecc.Signature(r0, s0)
    vc = {"engine": "sig-history", "case": case}
    hist = []
    res.states += 1

    def check(step):
        want = c.ecdsa_verify(P, z, sig.r, sig.s)
        got = attempt(pt.verify, z, sig)
        got = False if isinstance(got, Rejected) else bool(got)
        if got != want:
            kind = "accepts-after-in-place-edit" if got else "rejects-after-in-place-edit"
            res.violation(f"C01/sig-history/{kind}/{step.split(':=')[0] if step else 'first'}", vc, {"history": hist, "verdict": got}, want, f"verify on a Signature object after the in-place edits {hist}: verdict differs from the ECDSA predicate on its current (r, s)")
            return False
        res.ok("verdict==predicate", nontrivial=(case["d"], tuple(hist)))
        return True

    if not check(""):
        return res
    for e in case["edits"]:
        nm = SIG_EDITS[e]
        hist.append(nm)
        if nm == "s:=s+1":
            sig.s = sig.s + 1
        elif nm == "s:=n-s":
            sig.s = (N - sig.s) % N
        elif nm == "s:=s0":
            sig.s = s0
        elif nm == "r:=r+1":
            sig.r = sig.r + 1
        elif nm == "r:=r0":
            sig.r = r0
        elif nm == "s:=2s":
            sig.s = 2 * sig.s % N
        elif nm == "s:=0":
            sig.s = 0
        elif nm == "s:=s0+n":
            sig.s = s0 + N
        res.states += 1
        res.transitions += 1
        if not check(nm):
            return res
    return res


def engines(tier, seed):
    toys = QUICK_TOYS if tier == "quick" else THOROUGH_TOYS
    es = []
    for toy in toys:
        es.append(
            Engine(
                f"toy-sign-{toy[0]}",
                gen_toy_sign(toy),
                run_toy_sign,
                toy=toy,
                kind="E3",
                rule=f"toy curve p={toy[0]} n={toy[1]}: every secret x digest class x nonce (nonce seam) — sign() must equal the reference ECDSA signature for that nonce, be low-S and verify; non-trivial = reference signature defined (r,s != 0)",
            )
        )
        es.append(
            Engine(
                f"toy-verify-{toy[0]}",
                gen_toy_verify(toy),
                run_toy_verify,
                toy=toy,
                kind="E3",
                rule=f"toy curve p={toy[0]} n={toy[1]}: every public key x digest class x (r, s) in [0, n+2]^2 (thorough [0, 2n+1]^2): verify() == ECDSA predicate incl. range checks, both directions",
            )
        )
    ncat = len(forge_catalogue(None, ec.SECP))
    nops = len(history_ops(tier))
    es += [
        Engine(
            "real-sign",
            gen_real_sign,
            run_real_sign,
            kind="E1",
            rule="secp256k1: boundary secrets x boundary digests (+ seed fillers; digests >= n: n, n+1, 2^256-1 and fillers drawn from [n, 2^256); thorough also n+2^128 and p): exact RFC 6979 signature, verifies, low S, strict DER round trip; for every digest z >= n also sign(z - n) == sign(z)",
        ),
        Engine(
            "real-der",
            gen_real_der,
            run_real_der,
            kind="E1",
            rule="DER encoder/decoder on all (r, s) pairs of a 10-value boundary set (byte-length and high-bit boundaries); and for every bit length b in 1..256 the values {2^(b-1), 2^(b-1)+1, 2^b-1} below n paired with {1, n-1} in both positions: der() == strict DER of the reference, parse(der) == (r, s)",
        ),
        Engine(
            "real-forge",
            gen_real_forge,
            run_real_forge,
            kind="E1",
            rule=f"secp256k1: valid tuples x every single deviation of a {ncat}-entry forgery catalogue incl. z+n / z-n (same digest class, validity must not change) (thorough: all pairs for 4 bases) compared with the reference predicate; crafted valid signatures with x(R) >= n (key recovery) and raw s in (n//2, 2^255] (nonce seam); nonce seam with raw s in {{n//2, n//2-1, n//2+1, 1, 2, n-1, n-2}} -> (r, min(s, n-s)) that verifies; nonce seam with z = -r d (s == 0): sign raises, or verify rejects the result, or the result is valid for the reference",
        ),
        Engine("real-msg", gen_real_msg, run_real_msg, kind="E1", rule="sign_message/verify_message over message lengths {0,1,32,1000} equal sign/verify on the double-SHA256 digest"),
        Engine(
            "real-retry",
            gen_real_retry,
            run_real_retry,
            kind="E1",
            rule="RFC 6979 3.2 step h retry branch through a harness-only seam (pecc.big_endian_to_int replaced during the call, restored afterwards): the first candidates are forced to every prefix of a fixed list over {0, n, n+1, 2^256-1, n-1, 1} (quick 10 prefixes of length <= 3, thorough 14 of length <= 4) x secrets {1, n-1, filler,..} x digests {0, n, 2^256-1, filler,..}: deterministic_k == the spec formula with the same forced candidates, and sign() under the same seam == reference signature for that nonce; skipped (counted) when the seam is not reached",
        ),
        Engine(
            "real-keysrc",
            gen_real_keysrc,
            run_real_keysrc,
            kind="E1",
            rule="secp256k1: secrets x digests x public-key source {PrivateKey.point, S256Point(x,y), parse(sec33), parse(sec65), parse(x-only), even_point(), combine([Q-G, G]), -1*(-Q)} x deviation {valid, n-s, z^bit0, s+1, r+n} x signature object {Signature(r,s), Signature.parse(reference DER)} on ONE point object per case: verify == reference predicate for the point the source denotes (x-only sources: the even-y point and its secret); point at infinity from {S256Point(None,None), parse(32 zero bytes), P+(-P), n*G} x (z, s) boundary pairs (+fillers) x {r = x((z/s)G) mod n, the same with n-s, an honest signature of another key}: always rejected",
        ),
        Engine(
            "real-scalars",
            gen_real_scalars,
            run_real_scalars,
            kind="E1",
            rule="secp256k1: valid tuples constructed for prescribed verification scalars (u, v) = (z/s, r/s): u in {0} + B, v in B, B = {1, 2, n-1, (n-1)/2, 2^128, 2^255} (thorough + {3, n-2, (n+1)/2, 2^64-1, 2^192}, keys {1, n-1, 2 fillers}; quick 1 filler key) with R = uG + vQ, r = x(R) mod n, s = r/v, z = u s; each with deviations {n-s, z^bit0, s+1, r+1, z+n when < 2^256} against the reference predicate; crafted u G == v Q (doubling inside verify) and u G == -v Q (sum at infinity, every s rejected)",
        ),
        Engine(
            "key-history",
            gen_key_history,
            run_key_history,
            kind="E2",
            rule=f"explicit histories on ONE PrivateKey object and its point: every sequence of length <= 2 over {nops} operations ({', '.join(history_ops(tier))}) followed by sign(z): the signature is still the RFC 6979 signature of the original secret and the key's own point accepts it; keys with even and odd y (quick: odd-y key n-1 with all sequences of length <= 2 and even-y key 2 with length <= 1, 1 digest; thorough 6 keys x 3 digests, length <= 2); states = object states visited, transitions = operations executed",
        ),
        Engine(
            "sig-history",
            gen_sig_history,
            run_sig_history,
            kind="E2",
            chunk=8,
            rule=f"explicit histories on ONE Signature object and one point object: verify the RFC 6979 signature, then every sequence of length <= 2 (thorough 3) of in-place edits {SIG_EDITS} with verify after each edit; oracle: the ECDSA predicate on the object's current (r, s) (a stale value derived from an earlier r or s shows as a wrong verdict); states = object states, transitions = edits",
        ),
    ]
    return es
