"""Entry point: python -m mc.main <Cxx> [--tier quick|thorough] [--replay file] [--only engine,...]"""
import argparse
import os
import sys

from mc import core

LEVELS = {
    "C01": "model_checking", "C02": "model_checking", "C03": "model_checking", "C04": "exploration",
    "C05": "model_checking", "C06": "exploration", "C07": "model_checking", "C08": "exploration",
    "C09": "exploration", "C10": "model_checking", "C11": "exploration", "C12": "exploration",
    "C13": "model_checking", "C14": "exploration", "C15": "exploration", "C16": "exploration",
    "C17": "exploration", "C18": "exploration", "C19": "exploration", "C20": "exploration",
}

ASSUME = [
    "CPython hashlib/hmac are correct",
    "the reference models under /verif/mc/ref (self-tested against published vectors by setup_cmd) are correct",
    "pure-Python back end only: buidl.cecc / buidl.chash (libsecp256k1 bindings) are not importable in this image",
    "claims hold within the stated alphabets and bounds; values outside them are not covered",
]


def main():
    ap = argparse.ArgumentParser()
    ap.add_argument("prop")
    ap.add_argument("--tier", default=os.environ.get("VERIF_TIER", "quick"), choices=["quick", "thorough"])
    ap.add_argument("--replay")
    ap.add_argument("--only")
    a = ap.parse_args()
    prop = a.prop.upper()
    if prop not in LEVELS:
        print(f"unknown property {prop}")
        return 2
    modname = f"mc.props.{prop.lower()}"
    seed = int(os.environ.get("VERIF_SEED", "0"))
    if a.replay:
        return core.replay(prop, modname, a.replay)
    try:
        return core.run_property(prop, modname, a.tier, seed, LEVELS[prop], ASSUME, only=a.only.split(",") if a.only else None)
    except core.HarnessError as e:
        sys.stderr.write(f"HARNESS ERROR (not a property violation): {e}\n")
        return 3


if __name__ == "__main__":
    sys.exit(main())
