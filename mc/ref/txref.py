"""Reference Bitcoin transaction wire codec and signature-hash algorithms.

Written from the protocol documentation / BIP141 / BIP143 / BIP341, shares no code with buidl.
An abstract transaction is a plain dict:
  {"version": int, "locktime": int, "segwit": bool,
   "ins":  [{"prev": 32 bytes (display order, i.e. txid as shown), "index": int, "script": raw bytes,
             "seq": int, "witness": [bytes, ...]}],
   "outs": [{"amount": int, "script": raw bytes}]}
"""
import hashlib
import struct


def sha256(b):
    return hashlib.sha256(b).digest()


def dsha(b):
    return sha256(sha256(b))


def ripemd160(b):
    return hashlib.new("ripemd160", b).digest()


def h160(b):
    return ripemd160(sha256(b))


def compact(n):
    if n < 0:
        raise ValueError
    if n < 0xFD:
        return struct.pack("<B", n)
    if n <= 0xFFFF:
        return b"\xfd" + struct.pack("<H", n)
    if n <= 0xFFFFFFFF:
        return b"\xfe" + struct.pack("<I", n)
    if n <= 0xFFFFFFFFFFFFFFFF:
        return b"\xff" + struct.pack("<Q", n)
    raise ValueError


def read_compact(buf, pos):
    b = buf[pos]
    if b < 0xFD:
        return b, pos + 1
    if b == 0xFD:
        return struct.unpack_from("<H", buf, pos + 1)[0], pos + 3
    if b == 0xFE:
        return struct.unpack_from("<I", buf, pos + 1)[0], pos + 5
    return struct.unpack_from("<Q", buf, pos + 1)[0], pos + 9


def varbytes(b):
    return compact(len(b)) + b


def push(data):
    """Shortest push opcode for the data length (CScript::operator<<)."""
    n = len(data)
    if n < 0x4C:
        return bytes([n]) + data
    if n <= 0xFF:
        return b"\x4c" + bytes([n]) + data
    if n <= 0xFFFF:
        return b"\x4d" + struct.pack("<H", n) + data
    return b"\x4e" + struct.pack("<I", n) + data


def script_from_items(items):
    """items: ints are opcode bytes, bytes are pushed data."""
    out = b""
    for it in items:
        if isinstance(it, int):
            out += bytes([it])
        else:
            out += push(it)
    return out


def ser_in(i):
    return i["prev"][::-1] + struct.pack("<I", i["index"]) + varbytes(i["script"]) + struct.pack("<I", i["seq"])


def ser_out(o):
    return struct.pack("<Q", o["amount"]) + varbytes(o["script"])


def ser_witness(items):
    return compact(len(items)) + b"".join(varbytes(x) for x in items)


def ser_stripped(tx):
    return (
        struct.pack("<I", tx["version"])
        + compact(len(tx["ins"]))
        + b"".join(ser_in(i) for i in tx["ins"])
        + compact(len(tx["outs"]))
        + b"".join(ser_out(o) for o in tx["outs"])
        + struct.pack("<I", tx["locktime"])
    )


def ser_tx(tx):
    if not tx.get("segwit"):
        return ser_stripped(tx)
    return (
        struct.pack("<I", tx["version"])
        + b"\x00\x01"
        + compact(len(tx["ins"]))
        + b"".join(ser_in(i) for i in tx["ins"])
        + compact(len(tx["outs"]))
        + b"".join(ser_out(o) for o in tx["outs"])
        + b"".join(ser_witness(i.get("witness", [])) for i in tx["ins"])
        + struct.pack("<I", tx["locktime"])
    )


def txid(tx):
    """hex, display order"""
    return dsha(ser_stripped(tx))[::-1].hex()


def parse_tx(raw):
    """Strict parser (whole buffer must be consumed)."""
    pos = 0
    (version,) = struct.unpack_from("<I", raw, pos)
    pos += 4
    segwit = False
    if raw[pos] == 0:
        if raw[pos + 1] != 1:
            raise ValueError("bad marker")
        segwit = True
        pos += 2
    n, pos = read_compact(raw, pos)
    ins = []
    for _ in range(n):
        prev = raw[pos : pos + 32][::-1]
        (idx,) = struct.unpack_from("<I", raw, pos + 32)
        pos += 36
        ln, pos = read_compact(raw, pos)
        script = raw[pos : pos + ln]
        if len(script) != ln:
            raise ValueError("short")
        pos += ln
        (seq,) = struct.unpack_from("<I", raw, pos)
        pos += 4
        ins.append({"prev": prev, "index": idx, "script": script, "seq": seq, "witness": []})
    n, pos = read_compact(raw, pos)
    outs = []
    for _ in range(n):
        (amt,) = struct.unpack_from("<Q", raw, pos)
        pos += 8
        ln, pos = read_compact(raw, pos)
        script = raw[pos : pos + ln]
        if len(script) != ln:
            raise ValueError("short")
        pos += ln
        outs.append({"amount": amt, "script": script})
    if segwit:
        for i in ins:
            k, pos = read_compact(raw, pos)
            items = []
            for _ in range(k):
                ln, pos = read_compact(raw, pos)
                it = raw[pos : pos + ln]
                if len(it) != ln:
                    raise ValueError("short")
                pos += ln
                items.append(it)
            i["witness"] = items
    (lock,) = struct.unpack_from("<I", raw, pos)
    pos += 4
    if pos != len(raw):
        raise ValueError("trailing bytes")
    return {"version": version, "ins": ins, "outs": outs, "locktime": lock, "segwit": segwit}


# ------------------------------------------------------------------ signature hashes
SIGHASH_ALL, SIGHASH_NONE, SIGHASH_SINGLE, ANYONECANPAY = 1, 2, 3, 0x80
ONE = (1).to_bytes(32, "little")


def sighash_legacy(tx, idx, script_code, hash_type):
    """Original algorithm (SignatureHash, SigVersion::BASE) without FindAndDelete/CODESEPARATOR.
    Returns 32 bytes."""
    if idx >= len(tx["ins"]):
        return ONE
    base = hash_type & 0x1F
    if base == SIGHASH_SINGLE and idx >= len(tx["outs"]):
        return ONE
    acp = bool(hash_type & ANYONECANPAY)
    ins = []
    for i, txin in enumerate(tx["ins"]):
        if acp and i != idx:
            continue
        sc = script_code if i == idx else b""
        seq = txin["seq"]
        if i != idx and base in (SIGHASH_NONE, SIGHASH_SINGLE):
            seq = 0
        ins.append(txin["prev"][::-1] + struct.pack("<I", txin["index"]) + varbytes(sc) + struct.pack("<I", seq))
    if base == SIGHASH_NONE:
        outs = []
    elif base == SIGHASH_SINGLE:
        outs = [struct.pack("<q", -1) + b"\x00" for _ in range(idx)] + [ser_out(tx["outs"][idx])]
    else:
        outs = [ser_out(o) for o in tx["outs"]]
    pre = (
        struct.pack("<I", tx["version"])
        + compact(len(ins))
        + b"".join(ins)
        + compact(len(outs))
        + b"".join(outs)
        + struct.pack("<I", tx["locktime"])
        + struct.pack("<I", hash_type)
    )
    return dsha(pre)


def sighash_bip143(tx, idx, script_code, amount, hash_type):
    base = hash_type & 0x1F
    acp = bool(hash_type & ANYONECANPAY)
    zero = b"\x00" * 32
    hp = zero if acp else dsha(b"".join(i["prev"][::-1] + struct.pack("<I", i["index"]) for i in tx["ins"]))
    hs = zero if (acp or base in (SIGHASH_NONE, SIGHASH_SINGLE)) else dsha(b"".join(struct.pack("<I", i["seq"]) for i in tx["ins"]))
    if base not in (SIGHASH_NONE, SIGHASH_SINGLE):
        ho = dsha(b"".join(ser_out(o) for o in tx["outs"]))
    elif base == SIGHASH_SINGLE and idx < len(tx["outs"]):
        ho = dsha(ser_out(tx["outs"][idx]))
    else:
        ho = zero
    i = tx["ins"][idx]
    pre = (
        struct.pack("<I", tx["version"])
        + hp
        + hs
        + i["prev"][::-1]
        + struct.pack("<I", i["index"])
        + varbytes(script_code)
        + struct.pack("<Q", amount)
        + struct.pack("<I", i["seq"])
        + ho
        + struct.pack("<I", tx["locktime"])
        + struct.pack("<I", hash_type)
    )
    return dsha(pre)


def tagged(tag, msg):
    t = sha256(tag.encode())
    return sha256(t + t + msg)


def tapleaf_hash(script, leaf_version=0xC0):
    return tagged("TapLeaf", bytes([leaf_version]) + varbytes(script))


def sighash_bip341(tx, idx, spent, hash_type, annex=None, leaf_hash=None, codesep=0xFFFFFFFF):
    """spent: list of (amount, scriptPubKey bytes) for every input. Returns 32 bytes or None
    when the digest is undefined (invalid hash type, SINGLE without matching output)."""
    if hash_type not in (0, 1, 2, 3, 0x81, 0x82, 0x83):
        return None
    out_type = SIGHASH_ALL if hash_type == 0 else hash_type & 3
    acp = bool(hash_type & ANYONECANPAY)
    m = b"\x00" + bytes([hash_type]) + struct.pack("<I", tx["version"]) + struct.pack("<I", tx["locktime"])
    if not acp:
        m += sha256(b"".join(i["prev"][::-1] + struct.pack("<I", i["index"]) for i in tx["ins"]))
        m += sha256(b"".join(struct.pack("<Q", a) for a, _ in spent))
        m += sha256(b"".join(varbytes(s) for _, s in spent))
        m += sha256(b"".join(struct.pack("<I", i["seq"]) for i in tx["ins"]))
    if out_type == SIGHASH_ALL:
        m += sha256(b"".join(ser_out(o) for o in tx["outs"]))
    ext = 1 if leaf_hash is not None else 0
    m += bytes([ext * 2 + (1 if annex is not None else 0)])
    i = tx["ins"][idx]
    if acp:
        m += i["prev"][::-1] + struct.pack("<I", i["index"])
        m += struct.pack("<Q", spent[idx][0]) + varbytes(spent[idx][1]) + struct.pack("<I", i["seq"])
    else:
        m += struct.pack("<I", idx)
    if annex is not None:
        m += sha256(varbytes(annex))
    if out_type == SIGHASH_SINGLE:
        if idx >= len(tx["outs"]):
            return None
        m += sha256(ser_out(tx["outs"][idx]))
    if ext:
        m += leaf_hash + b"\x00" + struct.pack("<I", codesep)
    return tagged("TapSighash", m)


def selftest():
    # BIP143 native P2WPKH example
    raw = bytes.fromhex(
        "0100000002fff7f7881a8099afa6940d42d1e7f6362bec38171ea3edf433541db4e4ad969f0000000000eeffffff"
        "ef51e1b804cc89d182d279655c3aa89e815b1b309fe287d9b2b55d57b90ec68a0100000000ffffffff02202cb206000000001976a914"
        "8280b37df378db99f66f85c95a783a76ac7a6d5988ac9093510d000000001976a9143bde42dbee7e4dbe6a21b2d50ce2f0167faa8159"
        "88ac11000000"
    )
    tx = parse_tx(raw)
    assert ser_tx(tx) == raw
    sc = bytes.fromhex("76a9141d0f172a0ecb48aee1be1f2687d2963ae33f71a188ac")
    d = sighash_bip143(tx, 1, sc, 600000000, 1)
    assert d.hex() == "c37af31116d1b27caf68aae9e3ac82f1477929014d5b917657d0eb49478cb670", d.hex()
    # BIP143 P2SH-P2WSH 6-of-6 example, all hash types
    raw = bytes.fromhex(
        "010000000136641869ca081e70f394c6948e8af409e18b619df2ed74aa106c1ca29787b96e0100000000ffffffff"
        "0200e9a435000000001976a914389ffce9cd9ae88dcc0631e88a821ffdbe9bfe2688acc0832f05000000001976a9147480a33f95068"
        "9af511e6e84c138dbbd3c3ee41588ac00000000"
    )
    tx = parse_tx(raw)
    ws = bytes.fromhex(
        "56210307b8ae49ac90a048e9b53357a2354b3334e9c8bee813ecb98e99a7e07e8c3ba32103b28f0c28bfab54554ae8c658ac5c3e0ce6e79ad336331f78c428dd43eea8449b21034b8113d703413d57761b8b9781957b8c0ac1dfe69f492580ca4195f50376ba4a21033400f6afecb833092a9a21cfdf1ed1376e58c5d1f47de74683123987e967a8f42103a6d48b1131e94ba04d9737d61acdaa1322008af9602b3b14862c07a1789aac162102d8b661b0b3302ee2f162b09e07a55ad5dfbe673a9f01d9f0c19617681024306b56ae"
    )
    exp = {
        1: "185c0be5263dce5b4bb50a047973c1b6272bfbd0103a89444597dc40b248ee7c",
        2: "e9733bc60ea13c95c6527066bb975a2ff29a925e80aa14c213f686cbae5d2f36",
        3: "1e1f1c303dc025bd664acb72e583e933fae4cff9148bf78c157d1e8f78530aea",
        0x81: "2a67f03e63a6a422125878b40b82da593be8d4efaafe88ee528af6e5a9955c6e",
        0x82: "781ba15f3779d5542ce8ecb5c18716733a5ee42a6f51488ec96154934e2c890a",
        0x83: "511e8e52ed574121fc1b654970395502128263f62662e076dc6baf05c2e6a99b",
    }
    for ht, e in exp.items():
        assert sighash_bip143(tx, 0, ws, 987654321, ht).hex() == e, ht
    # BIP341 wallet test vector: key path spending, 9 inputs
    raw = bytes.fromhex(
        "02000000097de20cbff686da83a54981d2b9bab3586f4ca7e48f57f5b55963115f3b334e9c010000000000000000d7b7cab57b1393ace2d064f4d4a2cb8af6def61273e127517d44759b6dafdd990000000000fffffffff8e1f583384333689228c5d28eac13366be082dc57441760d957275419a418420000000000fffffffff0689180aa63b30cb162a73c6d2a38b7eeda2a83ece74310fda0843ad604853b0100000000feffffffaa5202bdf6d8ccd2ee0f0202afbbb7461d9264a25e5bfd3c5a52ee1239e0ba6c0000000000feffffff956149bdc66faa968eb2be2d2faa29718acbfe3941215893a2a3446d32acd050000000000000000000e664b9773b88c09c32cb70a2a3e4da0ced63b7ba3b22f848531bbb1d5d5f4c94010000000000000000e9aa6b8e6c9de67619e6a3924ae25696bb7b694bb677a632a74ef7eadfd4eabf0000000000ffffffffa778eb6a263dc090464cd125c466b5a99667720b1c110468831d058aa1b82af10100000000ffffffff0200ca9a3b000000001976a91406afd46bcdfd22ef94ac122aa11f241244a37ecc88ac807840cb0000000020ac9a87f5594be208f8532db38cff670c450ed2fea8fcdefcc9a663f78bab962b0065cd1d"
    )
    tx = parse_tx(raw)
    spks = [
        "512053a1f6e454df1aa2776a2814a721372d6258050de330b3c6d10ee8f4e0dda343",
        "5120147c9c57132f6e7ecddba9800bb0c4449251c92a1e60371ee77557b6620f3ea3",
        "76a914751e76e8199196d454941c45d1b3a323f1433bd688ac",
        "5120e4d810fd50586274face62b8a807eb9719cef49c04177cc6b76a9a4251d5450e",
        "512091b64d5324723a985170e4dc5a0f84c041804f2cd12660fa5dec09fc21783605",
        "00147dd65592d0ab2fe0d0257d571abf032cd9db93dc",
        "512075169f4001aa68f15bbed28b218df1d0a62cbbcf1188c6665110c293c907b831",
        "5120712447206d7a5238acc7ff53fbe94a3b64539ad291c7cdbc490b7577e4b17df5",
        "512077e30a5522dd9f894c3f8b8bd4c4b2cf82ca7da8a3ea6a239655c39c050ab220",
    ]
    amts = [420000000, 462000000, 294000000, 504000000, 630000000, 378000000, 672000000, 546000000, 588000000]
    spent = [(a, bytes.fromhex(s)) for a, s in zip(amts, spks)]
    vec = {
        (0, 3): "2514a6272f85cfa0f45eb907fcb0d121b808ed37c6ea160a5a9046ed5526d555",
        (1, 0x83): "325a644af47e8a5a2591cda0ab0723978537318f10e6a63d4eed783b96a71a4d",
        (3, 1): "bf013ea93474aa67815b1b6cc441d23b64fa310911d991e713cd34c7f5d46669",
        (4, 0): "4f900a0bae3f1446fd48490c2958b5a023228f01661cda3496a11da502a7f7ef",
        (6, 2): "15f25c298eb5cdc7eb1d638dd2d45c97c4c59dcaec6679cfc16ad84f30876b85",
        (7, 0x82): "cd292de50313804dabe4685e83f923d2969577191a3e1d2882220dca88cbeb10",
        (8, 0x81): "cccb739eca6c13a8a89e6e5cd317ffe55669bbda23f2fd37b0f18755e008edd2",
    }
    for (i, ht), e in vec.items():
        got = sighash_bip341(tx, i, spent, ht)
        assert got.hex() == e, (i, ht, got.hex())
    # legacy: first ever P2PKH-style sanity: SINGLE bug digest
    t = {"version": 1, "locktime": 0, "segwit": False, "ins": [{"prev": b"\x11" * 32, "index": 0, "script": b"", "seq": 1}] * 2, "outs": [{"amount": 1, "script": b"\x51"}]}
    assert sighash_legacy(t, 1, b"\x51", 3) == ONE
    return True


if __name__ == "__main__":
    selftest()
    print("txref selftest ok")
