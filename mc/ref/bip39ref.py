"""Reference BIP39 (entropy <-> mnemonic sentence, seed) and BIP32 master-key serialisation.

Written from BIP-0039 / BIP-0032 / RFC 8018; shares no code with buidl and never imports it.
Only hashlib / hmac / struct are used (English words and the separator are ASCII, so the NFKD
normalisation the specification asks for is the identity on sentences; passphrases are taken as bytes).

The English word list is embedded (it is specification data).  It is validated by the SHA-256 of the
canonical `english.txt` (one word per line, trailing newline) which is pinned here from the BIP39
repository, and by the structural guarantees the specification states (2048 words, sorted, the first four
letters identify a word, 3..8 letters).

Design notes: the reference works on *bit strings* (Python str of '0'/'1'), the most literal reading of the
specification ("append the checksum bits to the end of the entropy, split into groups of 11 bits"), so it
does not share the shift/mask arithmetic a production implementation would use.
"""
import hashlib
import hmac
import struct

ENGLISH_SHA256 = "2f5eed53a4727b4bf8880d8f3f199efc90e58503646d9ff8eff3a2ed3b24dbda"

_WORDS_TEXT = """
abandon ability able about above absent absorb abstract absurd abuse access accident account accuse achieve acid
acoustic acquire across act action actor actress actual adapt add addict address adjust admit adult advance advice
aerobic affair afford afraid again age agent agree ahead aim air airport aisle alarm album alcohol alert alien all
alley allow almost alone alpha already also alter always amateur amazing among amount amused analyst anchor ancient
anger angle angry animal ankle announce annual another answer antenna antique anxiety any apart apology appear apple
approve april arch arctic area arena argue arm armed armor army around arrange arrest arrive arrow art artefact
artist artwork ask aspect assault asset assist assume asthma athlete atom attack attend attitude attract auction
audit august aunt author auto autumn average avocado avoid awake aware away awesome awful awkward axis baby bachelor
bacon badge bag balance balcony ball bamboo banana banner bar barely bargain barrel base basic basket battle beach
bean beauty because become beef before begin behave behind believe below belt bench benefit best betray better
between beyond bicycle bid bike bind biology bird birth bitter black blade blame blanket blast bleak bless blind
blood blossom blouse blue blur blush board boat body boil bomb bone bonus book boost border boring borrow boss
bottom bounce box boy bracket brain brand brass brave bread breeze brick bridge brief bright bring brisk broccoli
broken bronze broom brother brown brush bubble buddy budget buffalo build bulb bulk bullet bundle bunker burden
burger burst bus business busy butter buyer buzz cabbage cabin cable cactus cage cake call calm camera camp can
canal cancel candy cannon canoe canvas canyon capable capital captain car carbon card cargo carpet carry cart case
cash casino castle casual cat catalog catch category cattle caught cause caution cave ceiling celery cement census
century cereal certain chair chalk champion change chaos chapter charge chase chat cheap check cheese chef cherry
chest chicken chief child chimney choice choose chronic chuckle chunk churn cigar cinnamon circle citizen city civil
claim clap clarify claw clay clean clerk clever click client cliff climb clinic clip clock clog close cloth cloud
clown club clump cluster clutch coach coast coconut code coffee coil coin collect color column combine come comfort
comic common company concert conduct confirm congress connect consider control convince cook cool copper copy coral
core corn correct cost cotton couch country couple course cousin cover coyote crack cradle craft cram crane crash
crater crawl crazy cream credit creek crew cricket crime crisp critic crop cross crouch crowd crucial cruel cruise
crumble crunch crush cry crystal cube culture cup cupboard curious current curtain curve cushion custom cute cycle
dad damage damp dance danger daring dash daughter dawn day deal debate debris decade december decide decline
decorate decrease deer defense define defy degree delay deliver demand demise denial dentist deny depart depend
deposit depth deputy derive describe desert design desk despair destroy detail detect develop device devote diagram
dial diamond diary dice diesel diet differ digital dignity dilemma dinner dinosaur direct dirt disagree discover
disease dish dismiss disorder display distance divert divide divorce dizzy doctor document dog doll dolphin domain
donate donkey donor door dose double dove draft dragon drama drastic draw dream dress drift drill drink drip drive
drop drum dry duck dumb dune during dust dutch duty dwarf dynamic eager eagle early earn earth easily east easy echo
ecology economy edge edit educate effort egg eight either elbow elder electric elegant element elephant elevator
elite else embark embody embrace emerge emotion employ empower empty enable enact end endless endorse enemy energy
enforce engage engine enhance enjoy enlist enough enrich enroll ensure enter entire entry envelope episode equal
equip era erase erode erosion error erupt escape essay essence estate eternal ethics evidence evil evoke evolve
exact example excess exchange excite exclude excuse execute exercise exhaust exhibit exile exist exit exotic expand
expect expire explain expose express extend extra eye eyebrow fabric face faculty fade faint faith fall false fame
family famous fan fancy fantasy farm fashion fat fatal father fatigue fault favorite feature february federal fee
feed feel female fence festival fetch fever few fiber fiction field figure file film filter final find fine finger
finish fire firm first fiscal fish fit fitness fix flag flame flash flat flavor flee flight flip float flock floor
flower fluid flush fly foam focus fog foil fold follow food foot force forest forget fork fortune forum forward
fossil foster found fox fragile frame frequent fresh friend fringe frog front frost frown frozen fruit fuel fun
funny furnace fury future gadget gain galaxy gallery game gap garage garbage garden garlic garment gas gasp gate
gather gauge gaze general genius genre gentle genuine gesture ghost giant gift giggle ginger giraffe girl give glad
glance glare glass glide glimpse globe gloom glory glove glow glue goat goddess gold good goose gorilla gospel
gossip govern gown grab grace grain grant grape grass gravity great green grid grief grit grocery group grow grunt
guard guess guide guilt guitar gun gym habit hair half hammer hamster hand happy harbor hard harsh harvest hat have
hawk hazard head health heart heavy hedgehog height hello helmet help hen hero hidden high hill hint hip hire
history hobby hockey hold hole holiday hollow home honey hood hope horn horror horse hospital host hotel hour hover
hub huge human humble humor hundred hungry hunt hurdle hurry hurt husband hybrid ice icon idea identify idle ignore
ill illegal illness image imitate immense immune impact impose improve impulse inch include income increase index
indicate indoor industry infant inflict inform inhale inherit initial inject injury inmate inner innocent input
inquiry insane insect inside inspire install intact interest into invest invite involve iron island isolate issue
item ivory jacket jaguar jar jazz jealous jeans jelly jewel job join joke journey joy judge juice jump jungle junior
junk just kangaroo keen keep ketchup key kick kid kidney kind kingdom kiss kit kitchen kite kitten kiwi knee knife
knock know lab label labor ladder lady lake lamp language laptop large later latin laugh laundry lava law lawn
lawsuit layer lazy leader leaf learn leave lecture left leg legal legend leisure lemon lend length lens leopard
lesson letter level liar liberty library license life lift light like limb limit link lion liquid list little live
lizard load loan lobster local lock logic lonely long loop lottery loud lounge love loyal lucky luggage lumber lunar
lunch luxury lyrics machine mad magic magnet maid mail main major make mammal man manage mandate mango mansion
manual maple marble march margin marine market marriage mask mass master match material math matrix matter maximum
maze meadow mean measure meat mechanic medal media melody melt member memory mention menu mercy merge merit merry
mesh message metal method middle midnight milk million mimic mind minimum minor minute miracle mirror misery miss
mistake mix mixed mixture mobile model modify mom moment monitor monkey monster month moon moral more morning
mosquito mother motion motor mountain mouse move movie much muffin mule multiply muscle museum mushroom music must
mutual myself mystery myth naive name napkin narrow nasty nation nature near neck need negative neglect neither
nephew nerve nest net network neutral never news next nice night noble noise nominee noodle normal north nose
notable note nothing notice novel now nuclear number nurse nut oak obey object oblige obscure observe obtain obvious
occur ocean october odor off offer office often oil okay old olive olympic omit once one onion online only open
opera opinion oppose option orange orbit orchard order ordinary organ orient original orphan ostrich other outdoor
outer output outside oval oven over own owner oxygen oyster ozone pact paddle page pair palace palm panda panel
panic panther paper parade parent park parrot party pass patch path patient patrol pattern pause pave payment peace
peanut pear peasant pelican pen penalty pencil people pepper perfect permit person pet phone photo phrase physical
piano picnic picture piece pig pigeon pill pilot pink pioneer pipe pistol pitch pizza place planet plastic plate
play please pledge pluck plug plunge poem poet point polar pole police pond pony pool popular portion position
possible post potato pottery poverty powder power practice praise predict prefer prepare present pretty prevent
price pride primary print priority prison private prize problem process produce profit program project promote proof
property prosper protect proud provide public pudding pull pulp pulse pumpkin punch pupil puppy purchase purity
purpose purse push put puzzle pyramid quality quantum quarter question quick quit quiz quote rabbit raccoon race
rack radar radio rail rain raise rally ramp ranch random range rapid rare rate rather raven raw razor ready real
reason rebel rebuild recall receive recipe record recycle reduce reflect reform refuse region regret regular reject
relax release relief rely remain remember remind remove render renew rent reopen repair repeat replace report
require rescue resemble resist resource response result retire retreat return reunion reveal review reward rhythm
rib ribbon rice rich ride ridge rifle right rigid ring riot ripple risk ritual rival river road roast robot robust
rocket romance roof rookie room rose rotate rough round route royal rubber rude rug rule run runway rural sad saddle
sadness safe sail salad salmon salon salt salute same sample sand satisfy satoshi sauce sausage save say scale scan
scare scatter scene scheme school science scissors scorpion scout scrap screen script scrub sea search season seat
second secret section security seed seek segment select sell seminar senior sense sentence series service session
settle setup seven shadow shaft shallow share shed shell sheriff shield shift shine ship shiver shock shoe shoot
shop short shoulder shove shrimp shrug shuffle shy sibling sick side siege sight sign silent silk silly silver
similar simple since sing siren sister situate six size skate sketch ski skill skin skirt skull slab slam sleep
slender slice slide slight slim slogan slot slow slush small smart smile smoke smooth snack snake snap sniff snow
soap soccer social sock soda soft solar soldier solid solution solve someone song soon sorry sort soul sound soup
source south space spare spatial spawn speak special speed spell spend sphere spice spider spike spin spirit split
spoil sponsor spoon sport spot spray spread spring spy square squeeze squirrel stable stadium staff stage stairs
stamp stand start state stay steak steel stem step stereo stick still sting stock stomach stone stool story stove
strategy street strike strong struggle student stuff stumble style subject submit subway success such sudden suffer
sugar suggest suit summer sun sunny sunset super supply supreme sure surface surge surprise surround survey suspect
sustain swallow swamp swap swarm swear sweet swift swim swing switch sword symbol symptom syrup system table tackle
tag tail talent talk tank tape target task taste tattoo taxi teach team tell ten tenant tennis tent term test text
thank that theme then theory there they thing this thought three thrive throw thumb thunder ticket tide tiger tilt
timber time tiny tip tired tissue title toast tobacco today toddler toe together toilet token tomato tomorrow tone
tongue tonight tool tooth top topic topple torch tornado tortoise toss total tourist toward tower town toy track
trade traffic tragic train transfer trap trash travel tray treat tree trend trial tribe trick trigger trim trip
trophy trouble truck true truly trumpet trust truth try tube tuition tumble tuna tunnel turkey turn turtle twelve
twenty twice twin twist two type typical ugly umbrella unable unaware uncle uncover under undo unfair unfold unhappy
uniform unique unit universe unknown unlock until unusual unveil update upgrade uphold upon upper upset urban urge
usage use used useful useless usual utility vacant vacuum vague valid valley valve van vanish vapor various vast
vault vehicle velvet vendor venture venue verb verify version very vessel veteran viable vibrant vicious victory
video view village vintage violin virtual virus visa visit visual vital vivid vocal voice void volcano volume vote
voyage wage wagon wait walk wall walnut want warfare warm warrior wash wasp waste water wave way wealth weapon wear
weasel weather web wedding weekend weird welcome west wet whale what wheat wheel when where whip whisper wide width
wife wild will win window wine wing wink winner winter wire wisdom wise wish witness wolf woman wonder wood wool
word work world worry worth wrap wreck wrestle wrist write wrong yard year yellow you young youth zebra zero zone
zoo
"""
WORDS = _WORDS_TEXT.split()
INDEX = {w: i for i, w in enumerate(WORDS)}
ENT_BYTES = (16, 20, 24, 28, 32)
WORD_COUNTS = (12, 15, 18, 21, 24)
# secp256k1 group order (BIP32: a master key with IL = 0 or IL >= n is invalid)
N = 0xFFFFFFFFFFFFFFFFFFFFFFFFFFFFFFFEBAAEDCE6AF48A03BBFD25E8CD0364141


# ------------------------------------------------------------------ bits
def bits_of(b):
    return "".join(format(x, "08b") for x in b)


def bytes_of(bits):
    if len(bits) % 8:
        raise ValueError("not a whole number of bytes")
    return bytes(int(bits[i : i + 8], 2) for i in range(0, len(bits), 8))


def checksum_bits(entropy):
    """First ENT/32 bits of SHA-256(entropy)."""
    ent = len(entropy) * 8
    return bits_of(hashlib.sha256(entropy).digest())[: ent // 32]


# ------------------------------------------------------------------ entropy -> words
def encode_indices(entropy):
    if len(entropy) not in ENT_BYTES:
        raise ValueError("entropy must be 128..256 bits, a multiple of 32")
    bits = bits_of(entropy) + checksum_bits(entropy)
    assert len(bits) % 11 == 0
    return [int(bits[i : i + 11], 2) for i in range(0, len(bits), 11)]


def encode(entropy):
    """List of full words."""
    return [WORDS[i] for i in encode_indices(entropy)]


# ------------------------------------------------------------------ words -> entropy
_PREFIX4 = {}
for _i, _w in enumerate(WORDS):
    if len(_w) >= 4:
        _PREFIX4.setdefault(_w[:4], []).append(_i)


def resolve(token):
    """Index of the word denoted by a token, or None.  A token denotes a word when it is the full
    word or exactly the first four letters of a word (which identify it uniquely)."""
    if token in INDEX:
        return INDEX[token]
    if len(token) == 4:
        c = _PREFIX4.get(token, [])
        if len(c) == 1:
            return c[0]
    return None


def candidates(token):
    """All words that start with the token (used to decide whether a prefix is ambiguous)."""
    return [i for i, w in enumerate(WORDS) if w.startswith(token)]


def decode(tokens):
    """Entropy bytes if the token sequence is a valid BIP39 sentence, else None."""
    if len(tokens) not in WORD_COUNTS:
        return None
    bits = ""
    for t in tokens:
        i = resolve(t)
        if i is None:
            return None
        bits += format(i, "011b")
    cs = len(tokens) // 3  # ENT/32 with ENT + CS = 11 * MS  =>  CS = MS / 3
    ent_bits, chk = bits[: len(bits) - cs], bits[len(bits) - cs :]
    entropy = bytes_of(ent_bits)
    if checksum_bits(entropy) != chk:
        return None
    return entropy


def full_words(tokens):
    return [WORDS[resolve(t)] for t in tokens]


def prefix4(word):
    return word[:4]


# ------------------------------------------------------------------ seed, master key
def seed(tokens, passphrase=b""):
    """BIP39 seed.  tokens: full words or 4-letter prefixes (the sentence is the full words joined by single
    spaces; English words are ASCII so NFKD is the identity).  passphrase: bytes, used as given."""
    sentence = " ".join(full_words(tokens)).encode("utf-8")
    return hashlib.pbkdf2_hmac("sha512", sentence, b"mnemonic" + passphrase, 2048, 64)


def pbkdf2_plain(hash_name, password, salt, iterations, dklen):
    """RFC 8018 section 5.2 written out (slow; used to cross-check hashlib in the selftest and on
    small iteration counts)."""
    hlen = hashlib.new(hash_name).digest_size
    out = b""
    blk = 0
    while len(out) < dklen:
        blk += 1
        u = hmac.new(password, salt + struct.pack(">I", blk), hash_name).digest()
        t = int.from_bytes(u, "big")
        for _ in range(iterations - 1):
            u = hmac.new(password, u, hash_name).digest()
            t ^= int.from_bytes(u, "big")
        out += t.to_bytes(hlen, "big")
    return out[:dklen]


def master(seed_bytes):
    """BIP32 master key generation: (secret int, chain code) or None if invalid."""
    i = hmac.new(b"Bitcoin seed", seed_bytes, hashlib.sha512).digest()
    k = int.from_bytes(i[:32], "big")
    if k == 0 or k >= N:
        return None
    return k, i[32:]


B58 = "123456789ABCDEFGHJKLMNPQRSTUVWXYZabcdefghijkmnopqrstuvwxyz"


def base58check(payload):
    data = payload + hashlib.sha256(hashlib.sha256(payload).digest()).digest()[:4]
    n = int.from_bytes(data, "big")
    s = ""
    while n:
        n, r = divmod(n, 58)
        s = B58[r] + s
    pad = len(data) - len(data.lstrip(b"\x00"))
    return "1" * pad + s


XPRV_VERSION = {"mainnet": bytes.fromhex("0488ade4"), "testnet": bytes.fromhex("04358394")}


def xprv(seed_bytes, network="mainnet"):
    m = master(seed_bytes)
    if m is None:
        return None
    k, c = m
    payload = XPRV_VERSION[network] + b"\x00" + b"\x00" * 4 + b"\x00" * 4 + c + b"\x00" + k.to_bytes(32, "big")
    assert len(payload) == 78
    return base58check(payload)


# ------------------------------------------------------------------ selftest
# (entropy, mnemonic, seed, xprv) with passphrase "TREZOR": the published BIP39 vectors (trezor/python-mnemonic
# vectors.json), as found offline in buidl/test/test_hd.py.
VECTORS = [
    (
        "00000000000000000000000000000000",
        "abandon abandon abandon abandon abandon abandon abandon abandon abandon abandon abandon about",
        "c55257c360c07c72029aebc1b53c05ed0362ada38ead3e3e9efa3708e53495531f09a6987599d18264c1e1c92f2cf141630c7a3c4ab7c81b2f001698e7463b04",
        "xprv9s21ZrQH143K3h3fDYiay8mocZ3afhfULfb5GX8kCBdno77K4HiA15Tg23wpbeF1pLfs1c5SPmYHrEpTuuRhxMwvKDwqdKiGJS9XFKzUsAF",
    ),
    (
        "ffffffffffffffffffffffffffffffff",
        "zoo zoo zoo zoo zoo zoo zoo zoo zoo zoo zoo wrong",
        "ac27495480225222079d7be181583751e86f571027b0497b5b5d11218e0a8a13332572917f0f8e5a589620c6f15b11c61dee327651a14c34e18231052e48c069",
        "xprv9s21ZrQH143K2V4oox4M8Zmhi2Fjx5XK4Lf7GKRvPSgydU3mjZuKGCTg7UPiBUD7ydVPvSLtg9hjp7MQTYsW67rZHAXeccqYqrsx8LcXnyd",
    ),
    (
        "808080808080808080808080808080808080808080808080",
        "letter advice cage absurd amount doctor acoustic avoid letter advice cage absurd amount doctor acoustic avoid letter always",
        "107d7c02a5aa6f38c58083ff74f04c607c2d2c0ecc55501dadd72d025b751bc27fe913ffb796f841c49b1d33b610cf0e91d3aa239027f5e99fe4ce9e5088cd65",
        "xprv9s21ZrQH143K3VPCbxbUtpkh9pRG371UCLDz3BjceqP1jz7XZsQ5EnNkYAEkfeZp62cDNj13ZTEVG1TEro9sZ9grfRmcYWLBhCocViKEJae",
    ),
    (
        "7f7f7f7f7f7f7f7f7f7f7f7f7f7f7f7f7f7f7f7f7f7f7f7f7f7f7f7f7f7f7f7f",
        "legal winner thank year wave sausage worth useful legal winner thank year wave sausage worth useful legal winner thank year wave sausage worth title",
        "bc09fca1804f7e69da93c2f2028eb238c227f2e9dda30cd63699232578480a4021b146ad717fbb7e451ce9eb835f43620bf5c514db0f8add49f5d121449d3e87",
        "xprv9s21ZrQH143K3Y1sd2XVu9wtqxJRvybCfAetjUrMMco6r3v9qZTBeXiBZkS8JxWbcGJZyio8TrZtm6pkbzG8SYt1sxwNLh3Wx7to5pgiVFU",
    ),
    (
        "9e885d952ad362caeb4efe34a8e91bd2",
        "ozone drill grab fiber curtain grace pudding thank cruise elder eight picnic",
        "274ddc525802f7c828d8ef7ddbcdc5304e87ac3535913611fbbfa986d0c9e5476c91689f9c8a54fd55bd38606aa6a8595ad213d4c9c9f9aca3fb217069a41028",
        "xprv9s21ZrQH143K2oZ9stBYpoaZ2ktHj7jLz7iMqpgg1En8kKFTXJHsjxry1JbKH19YrDTicVwKPehFKTbmaxgVEc5TpHdS1aYhB2s9aFJBeJH",
    ),
    (
        "6610b25967cdcca9d59875f5cb50b0ea75433311869e930b",
        "gravity machine north sort system female filter attitude volume fold club stay feature office ecology stable narrow fog",
        "628c3827a8823298ee685db84f55caa34b5cc195a778e52d45f59bcf75aba68e4d7590e101dc414bc1bbd5737666fbbef35d1f1903953b66624f910feef245ac",
        "xprv9s21ZrQH143K3uT8eQowUjsxrmsA9YUuQQK1RLqFufzybxD6DH6gPY7NjJ5G3EPHjsWDrs9iivSbmvjc9DQJbJGatfa9pv4MZ3wjr8qWPAK",
    ),
    (
        "f585c11aec520db57dd353c69554b21a89b20fb0650966fa0a9d6f74fd989d8f",
        "void come effort suffer camp survey warrior heavy shoot primary clutch crush open amazing screen patrol group space point ten exist slush involve unfold",
        "01f5bced59dec48e362f2c45b5de68b9fd6c92c6634f44d6d40aab69056506f0e35524a518034ddc1192e1dacd32c1ed3eaa3c3b131c88ed8e7e54c49a5d0998",
        "xprv9s21ZrQH143K39rnQJknpH1WEPFJrzmAqqasiDcVrNuk926oizzJDDQkdiTvNPr2FYDYzWgiMiC63YmfPAa2oPyNB23r2g7d1yiK6WpqaQS",
    ),
]


def selftest():
    # word list: canonical file hash, structure promised by the specification
    assert len(WORDS) == 2048 and len(set(WORDS)) == 2048
    assert hashlib.sha256(("\n".join(WORDS) + "\n").encode()).hexdigest() == ENGLISH_SHA256
    assert WORDS == sorted(WORDS)
    assert all(3 <= len(w) <= 8 and w.isalpha() and w.islower() and w.isascii() for w in WORDS)
    assert len({w[:4] for w in WORDS}) == 2048  # first four letters identify the word
    assert all(len(v) == 1 for v in _PREFIX4.values())
    for i, w in enumerate(WORDS):
        assert resolve(w) == i and resolve(w[:4]) == i
    assert resolve("aban") == 0 and resolve("aba") is None and resolve("aband") is None and resolve("zoo") == 2047
    assert resolve("") is None and resolve("Abandon") is None
    # published vectors: both directions, seed, master key
    for ent, mn, sd, xp in VECTORS:
        e = bytes.fromhex(ent)
        toks = mn.split(" ")
        assert encode(e) == toks, ent
        assert decode(toks) == e
        assert decode([t[:4] for t in toks]) == e
        s = seed(toks, b"TREZOR")
        assert s.hex() == sd, ent
        assert seed([t[:4] for t in toks], b"TREZOR") == s
        assert xprv(s) == xp, ent
        # a wrong checksum word is rejected; exactly 2048 / 2^CS last words are accepted
        ok = [w for w in WORDS if decode(toks[:-1] + [w]) is not None]
        assert len(ok) == 2048 >> (len(toks) // 3) and toks[-1] in ok
    # lengths
    base = VECTORS[3][1].split(" ")
    for L in range(0, 30):
        t = (base + base)[:L]
        if L not in WORD_COUNTS:
            assert decode(t) is None
    for n in ENT_BYTES:
        for e in (bytes(n), b"\xff" * n, b"\x80" + bytes(n - 1), bytes(range(n))):
            w = encode(e)
            assert len(w) == n * 8 * 33 // 32 // 11 == (n // 4) * 3 and decode(w) == e
    try:
        encode(bytes(15))
        raise AssertionError("15 bytes accepted")
    except ValueError:
        pass
    # BIP39 specification example for the empty passphrase (seed of the all-zero 12-word sentence)
    s0 = seed(VECTORS[0][1].split(" "), b"")
    assert s0.hex().startswith("5eb00bbddcf069084889a8ab9155568165f5c453ccb85e70811aaed6f6da5fc1")
    # PBKDF2: RFC 6070 (SHA-1) through both implementations, SHA-512 cross-check
    rfc6070 = [
        (b"password", b"salt", 1, 20, "0c60c80f961f0e71f3a9b524af6012062fe037a6"),
        (b"password", b"salt", 2, 20, "ea6c014dc72d6f8ccd1ed92ace1d41f0d8de8957"),
        (b"password", b"salt", 4096, 20, "4b007901b765489abead49d926f721d065a429c1"),
        (b"passwordPASSWORDpassword", b"saltSALTsaltSALTsaltSALTsaltSALTsalt", 4096, 25, "3d2eec4fe41c849b80c8d83662c0e44a8b291a964cf2f07038"),
        (b"pass\x00word", b"sa\x00lt", 4096, 16, "56fa6aa75548099dcc37d7f03425e0c3"),
    ]
    for p, s, c, n, h in rfc6070:
        assert hashlib.pbkdf2_hmac("sha1", p, s, c, n).hex() == h
        assert pbkdf2_plain("sha1", p, s, c, n).hex() == h
    v512 = "867f70cf1ade02cff3752599a3a53dc4af34c7a669815ae5d513554e1c8cf252c02d470a285a0501bad999bfe943c08f050235d7d68b1da55e63f73b60a57fce"
    assert hashlib.pbkdf2_hmac("sha512", b"password", b"salt", 1, 64).hex() == v512
    assert pbkdf2_plain("sha512", b"password", b"salt", 1, 64).hex() == v512
    for p, s, c, n in [(b"", b"", 1, 1), (b"k" * 200, b"s" * 200, 3, 200), (b"x", b"mnemonic", 2048, 64)]:
        for hn in ("sha1", "sha512"):
            assert hashlib.pbkdf2_hmac(hn, p, s, c, n) == pbkdf2_plain(hn, p, s, c, n)
    # BIP32 test vector 1 master key from its seed
    assert (
        xprv(bytes.fromhex("000102030405060708090a0b0c0d0e0f"))
        == "xprv9s21ZrQH143K3QTDL4LXw2F7HEK3wJUD2nW2nRk4stbPy6cq3jPPqjiChkVvvNKmPGJxWUtg6LnF5kejMRNNU3TGtRBeJgk33yuGBxrMPHi"
    )
    return True


if __name__ == "__main__":
    selftest()
    print("bip39ref selftest ok")
