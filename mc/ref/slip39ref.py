"""Reference model for SLIP-0039 (Shamir secret sharing for mnemonic codes), single- and two-level.

Written from the SLIP-0039 specification text (the revision the repository's vector file belongs
to: 15-bit identifier, 5-bit iteration exponent), shares no code with buidl and uses only
hashlib/hmac.  Deliberately formulated differently from the usual implementations:

* GF(256) multiplication is a carry-less multiply reduced by x^8+x^4+x^3+x+1 (0x11B); division is
  multiplication by the brute-force inverse; Lagrange interpolation is the textbook formula with
  explicit field products (no log/exp tables).
* RS1024 is computed in GF(1024) = GF(2)[x]/(x^10+x^3+1) with the generator polynomial
  (X-a)(X-a^2)(X-a^3), a = x: `rs1024_residue` is polynomial long division, `rs1024_valid`
  evaluates the word polynomial at the three roots (Horner).  The spec's bit-sliced GEN constants
  are *derived* from the generator polynomial in selftest() and compared with the published ones.
* The cipher is the 4-round Feistel network of the spec with hashlib.pbkdf2_hmac.

A share is a dict {bits, id, exp, gi, gt, gc, mi, mt, value(bytes)}.
"""
import hashlib
import hmac
import os

WORDS = (
    "academic acid acne acquire acrobat activity actress adapt adequate adjust admit adorn adult advance advocate "
    "afraid again agency agree aide aircraft airline airport ajar alarm album alcohol alien alive alpha already "
    "alto aluminum always amazing ambition amount amuse analysis anatomy ancestor ancient angel angry animal answer "
    "antenna anxiety apart aquatic arcade arena argue armed artist artwork aspect auction august aunt average "
    "aviation avoid award away axis axle beam beard beaver become bedroom behavior being believe belong benefit "
    "best beyond bike biology birthday bishop black blanket blessing blimp blind blue body bolt boring born both "
    "boundary bracelet branch brave breathe briefing broken brother browser bucket budget building bulb bulge bumpy "
    "bundle burden burning busy buyer cage calcium camera campus canyon capacity capital capture carbon cards "
    "careful cargo carpet carve category cause ceiling center ceramic champion change charity check chemical chest "
    "chew chubby cinema civil class clay cleanup client climate clinic clock clogs closet clothes club cluster coal "
    "coastal coding column company corner costume counter course cover cowboy cradle craft crazy credit cricket "
    "criminal crisis critical crowd crucial crunch crush crystal cubic cultural curious curly custody cylinder "
    "daisy damage dance darkness database daughter deadline deal debris debut decent decision declare decorate "
    "decrease deliver demand density deny depart depend depict deploy describe desert desire desktop destroy "
    "detailed detect device devote diagnose dictate diet dilemma diminish dining diploma disaster discuss disease "
    "dish dismiss display distance dive divorce document domain domestic dominant dough downtown dragon dramatic "
    "dream dress drift drink drove drug dryer duckling duke duration dwarf dynamic early earth easel easy echo "
    "eclipse ecology edge editor educate either elbow elder election elegant element elephant elevator elite else "
    "email emerald emission emperor emphasis employer empty ending endless endorse enemy energy enforce engage "
    "enjoy enlarge entrance envelope envy epidemic episode equation equip eraser erode escape estate estimate "
    "evaluate evening evidence evil evoke exact example exceed exchange exclude excuse execute exercise exhaust "
    "exotic expand expect explain express extend extra eyebrow facility fact failure faint fake false family famous "
    "fancy fangs fantasy fatal fatigue favorite fawn fiber fiction filter finance findings finger firefly firm "
    "fiscal fishing fitness flame flash flavor flea flexible flip float floral fluff focus forbid force forecast "
    "forget formal fortune forward founder fraction fragment frequent freshman friar fridge friendly frost froth "
    "frozen fumes funding furl fused galaxy game garbage garden garlic gasoline gather general genius genre genuine "
    "geology gesture glad glance glasses glen glimpse goat golden graduate grant grasp gravity gray greatest grief "
    "grill grin grocery gross group grownup grumpy guard guest guilt guitar gums hairy hamster hand hanger harvest "
    "have havoc hawk hazard headset health hearing heat helpful herald herd hesitate hobo holiday holy home hormone "
    "hospital hour huge human humidity hunting husband hush husky hybrid idea identify idle image impact imply "
    "improve impulse include income increase index indicate industry infant inform inherit injury inmate insect "
    "inside install intend intimate invasion involve iris island isolate item ivory jacket jerky jewelry join "
    "judicial juice jump junction junior junk jury justice kernel keyboard kidney kind kitchen knife knit laden "
    "ladle ladybug lair lamp language large laser laundry lawsuit leader leaf learn leaves lecture legal legend "
    "legs lend length level liberty library license lift likely lilac lily lips liquid listen literary living "
    "lizard loan lobe location losing loud loyalty luck lunar lunch lungs luxury lying lyrics machine magazine "
    "maiden mailman main makeup making mama manager mandate mansion manual marathon march market marvel mason "
    "material math maximum mayor meaning medal medical member memory mental merchant merit method metric midst mild "
    "military mineral minister miracle mixed mixture mobile modern modify moisture moment morning mortgage mother "
    "mountain mouse move much mule multiple muscle museum music mustang nail national necklace negative nervous "
    "network news nuclear numb numerous nylon oasis obesity object observe obtain ocean often olympic omit oral "
    "orange orbit order ordinary organize ounce oven overall owner paces pacific package paid painting pajamas "
    "pancake pants papa paper parcel parking party patent patrol payment payroll peaceful peanut peasant pecan "
    "penalty pencil percent perfect permit petition phantom pharmacy photo phrase physics pickup picture piece pile "
    "pink pipeline pistol pitch plains plan plastic platform playoff pleasure plot plunge practice prayer preach "
    "predator pregnant premium prepare presence prevent priest primary priority prisoner privacy prize problem "
    "process profile program promise prospect provide prune public pulse pumps punish puny pupal purchase purple "
    "python quantity quarter quick quiet race racism radar railroad rainbow raisin random ranked rapids raspy "
    "reaction realize rebound rebuild recall receiver recover regret regular reject relate remember remind remove "
    "render repair repeat replace require rescue research resident response result retailer retreat reunion revenue "
    "review reward rhyme rhythm rich rival river robin rocky romantic romp roster round royal ruin ruler rumor sack "
    "safari salary salon salt satisfy satoshi saver says scandal scared scatter scene scholar science scout "
    "scramble screw script scroll seafood season secret security segment senior shadow shaft shame shaped sharp "
    "shelter sheriff short should shrimp sidewalk silent silver similar simple single sister skin skunk slap "
    "slavery sled slice slim slow slush smart smear smell smirk smith smoking smug snake snapshot sniff society "
    "software soldier solution soul source space spark speak species spelling spend spew spider spill spine spirit "
    "spit spray sprinkle square squeeze stadium staff standard starting station stay steady step stick stilt story "
    "strategy strike style subject submit sugar suitable sunlight superior surface surprise survive sweater "
    "swimming swing switch symbolic sympathy syndrome system tackle tactics tadpole talent task taste taught taxi "
    "teacher teammate teaspoon temple tenant tendency tension terminal testify texture thank that theater theory "
    "therapy thorn threaten thumb thunder ticket tidy timber timely ting tofu together tolerate total toxic tracks "
    "traffic training transfer trash traveler treat trend trial tricycle trip triumph trouble true trust twice twin "
    "type typical ugly ultimate umbrella uncover undergo unfair unfold unhappy union universe unkind unknown "
    "unusual unwrap upgrade upstairs username usher usual valid valuable vampire vanish various vegan velvet "
    "venture verdict verify very veteran vexed victim video view vintage violence viral visitor visual vitamins "
    "vocal voice volume voter voting walnut warmth warn watch wavy wealthy weapon webcam welcome welfare western "
    "width wildlife window wine wireless wisdom withdraw wits wolf woman work worthy wrap wrist writing wrote year "
    "yelp yield yoga zero "
).split()
WORD_INDEX = {w: i for i, w in enumerate(WORDS)}
CUSTOM = b"shamir"
DIGEST_X, SECRET_X = 254, 255


class Invalid(Exception):
    pass


# ------------------------------------------------------------------ GF(256)
def gf_mul(a, b):
    """carry-less multiplication modulo x^8+x^4+x^3+x+1"""
    r = 0
    while b:
        if b & 1:
            r ^= a
        a <<= 1
        if a & 0x100:
            a ^= 0x11B
        b >>= 1
    return r


def _mul_row(a):
    """a*b for all b by GF(2)-linearity in b (a*x^i by repeated doubling); checked against gf_mul in selftest()"""
    row = bytearray(256)
    v = a
    for i in range(8):
        for b in range(1 << i, 2 << i):
            row[b] = row[b ^ (1 << i)] ^ v
        v <<= 1
        if v & 0x100:
            v ^= 0x11B
    return bytes(row)


_MUL = [_mul_row(a) for a in range(256)]  # _MUL[a][b] = a*b
_INV = [0] + [_MUL[a].index(1) for a in range(1, 256)]


def gf_div(a, b):
    if b == 0:
        raise ZeroDivisionError
    return _MUL[a][_INV[b]]


def gf_pow(a, e):
    r = 1
    for _ in range(e):
        r = _MUL[r][a]
    return r


def interpolate(x, points):
    """points: [(x_i, bytes)] with distinct x_i; value at x of the unique polynomial of degree
    < len(points) through them, bytewise.  Textbook Lagrange: sum_i y_i prod_{j!=i} (x-x_j)/(x_i-x_j)."""
    xs = [p[0] for p in points]
    if len(set(xs)) != len(xs):
        raise Invalid("duplicate x")
    n = len(points[0][1])
    out = bytearray(n)
    for i, (xi, yi) in enumerate(points):
        if len(yi) != n:
            raise Invalid("length mismatch")
        num, den = 1, 1
        for j, (xj, _) in enumerate(points):
            if j != i:
                num = _MUL[num][x ^ xj]
                den = _MUL[den][xi ^ xj]
        basis = gf_div(num, den)
        row = _MUL[basis]
        for t in range(n):
            out[t] ^= row[yi[t]]
    return bytes(out)


def poly_eval(coeffs, x):
    """coeffs: list of byte strings c_0..c_d; returns sum c_i x^i bytewise."""
    n = len(coeffs[0])
    out = bytearray(n)
    xp = 1
    for c in coeffs:
        row = _MUL[xp]
        for t in range(n):
            out[t] ^= row[c[t]]
        xp = _MUL[xp][x]
    return bytes(out)


# ------------------------------------------------------------------ GF(1024) and RS1024
def gk_mul(a, b):
    """GF(1024) = GF(2)[x]/(x^10 + x^3 + 1)"""
    r = 0
    while b:
        if b & 1:
            r ^= a
        a <<= 1
        if a & 0x400:
            a ^= 0x409
        b >>= 1
    return r


def _genpoly():
    # (X + a)(X + a^2)(X + a^3), a = x = 2; returns [g0, g1, g2] of the monic cubic
    a1 = 2
    a2 = gk_mul(a1, a1)
    a3 = gk_mul(a2, a1)
    poly = [1]  # little-endian coefficients
    for root in (a1, a2, a3):
        nxt = [0] * (len(poly) + 1)
        for i, c in enumerate(poly):
            nxt[i + 1] ^= c
            nxt[i] ^= gk_mul(c, root)
        poly = nxt
    assert poly[3] == 1
    return poly[:3]


G0, G1, G2 = _genpoly()
ROOTS = (2, gk_mul(2, 2), gk_mul(gk_mul(2, 2), 2))
_MG0, _MG1, _MG2 = ([gk_mul(t, g) for t in range(1024)] for g in (G0, G1, G2))  # t -> t*g_i
_MROOT = [[gk_mul(t, r) for t in range(1024)] for r in ROOTS]


def rs1024_residue(values):
    """(X^len(values) + sum v_i X^(len-1-i)) mod g(X), packed r2<<20 | r1<<10 | r0."""
    r2, r1, r0 = 0, 0, 1
    for v in values:
        if not 0 <= v < 1024:
            raise Invalid("symbol out of range")
        t = r2
        r2, r1, r0 = r1 ^ _MG2[t], r0 ^ _MG1[t], v ^ _MG0[t]
    return r2 << 20 | r1 << 10 | r0


def rs1024_valid(indices, custom=CUSTOM):
    """codeword test by root evaluation: M(a^j) == 1 for j = 1, 2, 3"""
    vals = list(custom) + list(indices)
    for row in _MROOT:
        acc = 1
        for v in vals:
            acc = row[acc] ^ v
        if acc != 1:
            return False
    return True


def rs1024_checksum(indices, custom=CUSTOM):
    r = rs1024_residue(list(custom) + list(indices) + [0, 0, 0]) ^ 1
    return [(r >> 20) & 1023, (r >> 10) & 1023, r & 1023]


# ------------------------------------------------------------------ share text
def _pad_bits(bits):
    nwords = -(-bits // 10)
    return nwords, nwords * 10 - bits


def encode_share(s):
    bits = s["bits"]
    assert bits % 16 == 0 and bits >= 128
    assert 0 <= s["id"] < 1 << 15 and 0 <= s["exp"] < 32
    assert 0 <= s["gi"] < 16 and 1 <= s["gt"] <= 16 and 1 <= s["gc"] <= 16
    assert 0 <= s["mi"] < 16 and 1 <= s["mt"] <= 16
    assert len(s["value"]) * 8 == bits
    header = "{:015b}{:05b}{:04b}{:04b}{:04b}{:04b}{:04b}".format(s["id"], s["exp"], s["gi"], s["gt"] - 1, s["gc"] - 1, s["mi"], s["mt"] - 1)
    nwords, pad = _pad_bits(bits)
    body = "0" * pad + "".join("{:08b}".format(b) for b in s["value"])
    allbits = header + body
    idx = [int(allbits[i : i + 10], 2) for i in range(0, len(allbits), 10)]
    assert len(idx) == 4 + nwords
    idx += rs1024_checksum(idx)
    return " ".join(WORDS[i] for i in idx)


def decode_share(text):
    words = text.split()
    try:
        idx = [WORD_INDEX[w] for w in words]
    except KeyError:
        raise Invalid("unknown word")
    if len(idx) < 20:
        raise Invalid("too short")
    if not rs1024_valid(idx):
        raise Invalid("checksum")
    nwords = len(idx) - 7
    pad = nwords * 10 % 16
    if pad > 8:
        raise Invalid("bad length")
    bits = nwords * 10 - pad
    allbits = "".join("{:010b}".format(i) for i in idx[:-3])
    h, body = allbits[:40], allbits[40:]
    if "1" in body[:pad]:
        raise Invalid("padding")
    value = int(body[pad:], 2).to_bytes(bits // 8, "big")
    s = {
        "bits": bits,
        "id": int(h[0:15], 2),
        "exp": int(h[15:20], 2),
        "gi": int(h[20:24], 2),
        "gt": int(h[24:28], 2) + 1,
        "gc": int(h[28:32], 2) + 1,
        "mi": int(h[32:36], 2),
        "mt": int(h[36:40], 2) + 1,
        "value": value,
    }
    if s["gt"] > s["gc"]:
        raise Invalid("group threshold > group count")
    return s


# ------------------------------------------------------------------ cipher, digest
def _round(i, passphrase, exp, salt, r):
    return hashlib.pbkdf2_hmac("sha256", bytes([i]) + passphrase, salt + r, (10000 << exp) // 4, dklen=len(r))


def _xor(a, b):
    return bytes(p ^ q for p, q in zip(a, b))


def encrypt(master, passphrase, exp, ident):
    if len(master) % 2:
        raise Invalid("odd length")
    h = len(master) // 2
    L, R = master[:h], master[h:]
    salt = CUSTOM + ident.to_bytes(2, "big")
    for i in (0, 1, 2, 3):
        L, R = R, _xor(L, _round(i, passphrase, exp, salt, R))
    return R + L


def decrypt(ems, passphrase, exp, ident):
    if len(ems) % 2:
        raise Invalid("odd length")
    h = len(ems) // 2
    L, R = ems[:h], ems[h:]
    salt = CUSTOM + ident.to_bytes(2, "big")
    for i in (3, 2, 1, 0):
        L, R = R, _xor(L, _round(i, passphrase, exp, salt, R))
    return R + L


def digest(rnd, secret):
    return hmac.new(rnd, secret, hashlib.sha256).digest()[:4]


def recover_points(threshold, points, exact=False):
    """points [(x, bytes)].  exact=True: the spec's rule (exactly `threshold` points);
    exact=False: at least `threshold` points, all of them interpolated."""
    if len({x for x, _ in points}) != len(points):
        raise Invalid("duplicate index")
    if len(points) < threshold or (exact and len(points) != threshold):
        raise Invalid("wrong number of shares")
    if threshold == 1:
        return points[0][1]
    secret = interpolate(SECRET_X, points)
    ds = interpolate(DIGEST_X, points)
    if ds[:4] != digest(ds[4:], secret):
        raise Invalid("digest")
    return secret


def recover(shares, passphrase=b"", exact=False):
    """shares: list of decoded share dicts. Returns the master secret or raises Invalid."""
    if not shares:
        raise Invalid("no shares")
    for f in ("id", "exp", "gt", "gc", "bits"):
        if len({s[f] for s in shares}) != 1:
            raise Invalid("mismatching " + f)
    if len({(s["gi"], s["mi"]) for s in shares}) != len(shares):
        raise Invalid("duplicate share index")
    s0 = shares[0]
    if s0["gt"] > s0["gc"]:
        raise Invalid("gt > gc")
    groups = {}
    for s in shares:
        groups.setdefault(s["gi"], []).append(s)
    gpoints = []
    for gi in sorted(groups):
        g = groups[gi]
        if len({s["mt"] for s in g}) != 1:
            raise Invalid("mismatching member thresholds")
        gpoints.append((gi, recover_points(g[0]["mt"], [(s["mi"], s["value"]) for s in g], exact)))
    ems = recover_points(s0["gt"], gpoints, exact)
    return decrypt(ems, passphrase, s0["exp"], s0["id"])


def recover_ems(shares, exact=False):
    """The share-combination half of recover(): the encrypted master secret (before decryption) or Invalid.
    Added for callers that decrypt many share sets of one split (decryption memoised by the caller);
    selftest() checks decrypt(recover_ems(x)) == recover(x) on the published vectors."""
    if not shares:
        raise Invalid("no shares")
    for f in ("id", "exp", "gt", "gc", "bits"):
        if len({s[f] for s in shares}) != 1:
            raise Invalid("mismatching " + f)
    if len({(s["gi"], s["mi"]) for s in shares}) != len(shares):
        raise Invalid("duplicate share index")
    s0 = shares[0]
    if s0["gt"] > s0["gc"]:
        raise Invalid("gt > gc")
    groups = {}
    for s in shares:
        groups.setdefault(s["gi"], []).append(s)
    gpoints = []
    for gi in sorted(groups):
        g = groups[gi]
        if len({s["mt"] for s in g}) != 1:
            raise Invalid("mismatching member thresholds")
        gpoints.append((gi, recover_points(g[0]["mt"], [(s["mi"], s["value"]) for s in g], exact)))
    return recover_points(s0["gt"], gpoints, exact)


def split_points(threshold, count, secret, rnd_bytes):
    """Spec's SplitSecret with the random material supplied by the caller (a callable n -> bytes)."""
    if not 1 <= threshold <= count <= 16:
        raise Invalid("bad threshold/count")
    if threshold == 1:
        return [(i, secret) for i in range(count)]
    n = len(secret)
    pts = [(i, rnd_bytes(n)) for i in range(threshold - 2)]
    r = rnd_bytes(n - 4)
    base = pts + [(DIGEST_X, digest(r, secret) + r), (SECRET_X, secret)]
    for i in range(threshold - 2, count):
        pts.append((i, interpolate(i, base)))
    return pts


# ------------------------------------------------------------------ BIP39 (only the entropy <-> words map)
_BIP39_SHA256 = "2f5eed53a4727b4bf8880d8f3f199efc90e58503646d9ff8eff3a2ed3b24dbda"
_bip39 = None


def bip39_words():
    """The published English list (sha256 of the canonical file pinned); read as data from a tree."""
    global _bip39
    if _bip39 is None:
        for root in ("/repo", os.environ.get("VERIF_REPO", "/repo")):
            p = os.path.join(root, "buidl", "bip39_words.txt")
            try:
                raw = open(p, "rb").read()
            except OSError:
                continue
            if hashlib.sha256(raw).hexdigest() == _BIP39_SHA256:
                w = raw.decode().split()
                assert len(w) == 2048 and w == sorted(w) and len({x[:4] for x in w}) == 2048
                _bip39 = w
                break
        else:
            raise RuntimeError("no copy of the published BIP39 English word list found (sha256 pinned)")
    return _bip39


def bip39_encode(entropy):
    n = len(entropy) * 8
    assert n in (128, 160, 192, 224, 256)
    cs = n // 32
    bits = "".join("{:08b}".format(b) for b in entropy) + "{:08b}".format(hashlib.sha256(entropy).digest()[0])[:cs]
    w = bip39_words()
    return " ".join(w[int(bits[i : i + 11], 2)] for i in range(0, len(bits), 11))


def bip39_decode(text):
    w = bip39_words()
    idx = [w.index(x) for x in text.split()]
    bits = "".join("{:011b}".format(i) for i in idx)
    n = len(bits) * 32 // 33
    ent = int(bits[:n], 2).to_bytes(n // 8, "big")
    if bip39_encode(ent) != " ".join(text.split()):
        raise Invalid("bip39 checksum")
    return ent


# ------------------------------------------------------------------ selftest
_GEN_PUBLISHED = [0xE0E040, 0x1C1C080, 0x3838100, 0x7070200, 0xE0E0009, 0x1C0C2412, 0x38086C24, 0x3090FC48, 0x21B1F890, 0x3F3F120]

# SLIP-0039 vectors.json (passphrase "TREZOR"); published third-party data
_VALID = [
    (
        ["duckling enlarge academic academic agency result length solution fridge kidney coal piece deal husband erode duke ajar critical decision keyboard"],
        "bb54aac4b89dc868ba37d9cc21b2cece",
    ),
    (
        [
            "shadow pistol academic always adequate wildlife fancy gross oasis cylinder mustang wrist rescue view short owner flip making coding armed",
            "shadow pistol academic acid actress prayer class unknown daughter sweater depict flip twice unkind craft early superior advocate guest smoking",
        ],
        "b43ceb7e57a0ea8766221624d01b0864",
    ),
    (
        [
            "eraser senior decision smug corner ruin rescue cubic angel tackle skin skunk program roster trash rumor slush angel flea amazing",
            "eraser senior beard romp adorn nuclear spill corner cradle style ancient family general leader ambition exchange unusual garlic promise voice",
            "eraser senior decision scared cargo theory device idea deliver modify curly include pancake both news skin realize vitamins away join",
        ],
        "7c3397a292a5941682d7a4ae2d898d11",
    ),
    (
        [
            "eraser senior beard romp adorn nuclear spill corner cradle style ancient family general leader ambition exchange unusual garlic promise voice",
            "eraser senior acrobat romp bishop medical gesture pumps secret alive ultimate quarter priest subject class dictate spew material endless market",
        ],
        "7c3397a292a5941682d7a4ae2d898d11",
    ),
    (
        [
            "theory painting academic academic armed sweater year military elder discuss acne wildlife boring employer fused large satoshi bundle carbon diagnose anatomy hamster leaves tracks paces beyond phantom capital marvel lips brave detect luck"
        ],
        "989baf9dcaad5b10ca33dfd8cc75e42477025dce88ae83e75a230086a0e00e92",
    ),
    (
        [
            "humidity disease academic always aluminum jewelry energy woman receiver strategy amuse duckling lying evidence network walnut tactics forget hairy rebound impulse brother survive clothes stadium mailman rival ocean reward venture always armed unwrap",
            "humidity disease academic agency actress jacket gross physics cylinder solution fake mortgage benefit public busy prepare sharp friar change work slow purchase ruler again tricycle involve viral wireless mixture anatomy desert cargo upgrade",
        ],
        "c938b319067687e990e05e0da0ecce1278f75ff58d9853f19dcaeed5de104aae",
    ),
    (
        [
            "wildlife deal beard romp alcohol space mild usual clothes union nuclear testify course research heat listen task location thank hospital slice smell failure fawn helpful priest ambition average recover lecture process dough stadium",
            "wildlife deal acrobat romp anxiety axis starting require metric flexible geology game drove editor edge screw helpful have huge holy making pitch unknown carve holiday numb glasses survive already tenant adapt goat fangs",
        ],
        "5385577c8cfc6c1a8aa0f7f10ecde0a3318493262591e78b8c14c6686167123b",
    ),
]
_INVALID = [
    # 2 checksum, 3 padding, 5 too few, 6 identifiers, 7 exponents, 8 group thresholds, 11 duplicate indices,
    # 13 digest, 14 insufficient groups, 21 checksum (256), 22 padding (256), 39 length, 40 secret length
    ["duckling enlarge academic academic agency result length solution fridge kidney coal piece deal husband erode duke ajar critical decision kidney"],
    ["duckling enlarge academic academic email result length solution fridge kidney coal piece deal husband erode duke ajar music cargo fitness"],
    ["shadow pistol academic always adequate wildlife fancy gross oasis cylinder mustang wrist rescue view short owner flip making coding armed"],
    [
        "adequate smoking academic acid debut wine petition glen cluster slow rhyme slow simple epidemic rumor junk tracks treat olympic tolerate",
        "adequate stay academic agency agency formal party ting frequent learn upstairs remember smear leaf damage anatomy ladle market hush corner",
    ],
    [
        "peasant leaves academic acid desert exact olympic math alive axle trial tackle drug deny decent smear dominant desert bucket remind",
        "peasant leader academic agency cultural blessing percent network envelope medal junk primary human pumps jacket fragment payroll ticket evoke voice",
    ],
    [
        "liberty category beard echo animal fawn temple briefing math username various wolf aviation fancy visual holy thunder yelp helpful payment",
        "liberty category beard email beyond should fancy romp founder easel pink holy hairy romp loyalty material victim owner toxic custody",
        "liberty category academic easy being hazard crush diminish oral lizard reaction cluster force dilemma deploy force club veteran expect photo",
    ],
    [
        "device stay academic always dive coal antenna adult black exceed stadium herald advance soldier busy dryer daughter evaluate minister laser",
        "device stay academic always dwarf afraid robin gravity crunch adjust soul branch walnut coastal dream costume scholar mortgage mountain pumps",
    ],
    [
        "guilt walnut academic acid deliver remove equip listen vampire tactics nylon rhythm failure husband fatigue alive blind enemy teaspoon rebound",
        "guilt walnut academic agency brave hamster hobo declare herd taste alpha slim criminal mild arcade formal romp branch pink ambition",
    ],
    ["eraser senior beard romp adorn nuclear spill corner cradle style ancient family general leader ambition exchange unusual garlic promise voice"],
    [
        "theory painting academic academic armed sweater year military elder discuss acne wildlife boring employer fused large satoshi bundle carbon diagnose anatomy hamster leaves tracks paces beyond phantom capital marvel lips brave detect lunar"
    ],
    [
        "theory painting academic academic campus sweater year military elder discuss acne wildlife boring employer fused large satoshi bundle carbon diagnose anatomy hamster leaves tracks paces beyond phantom capital marvel lips facility obtain sister"
    ],
    ["junk necklace academic academic acne isolate join hesitate lunar roster dough calcium chemical ladybug amount mobile glasses verify cylinder"],
    ["fraction necklace academic academic award teammate mouse regular testify coding building member verdict purchase blind camera duration email prepare spirit quarter"],
]


def selftest():
    # word list: published properties
    assert len(WORDS) == 1024 and WORDS == sorted(WORDS) and len({w[:4] for w in WORDS}) == 1024
    assert all(4 <= len(w) <= 8 and w.isalpha() and w.islower() for w in WORDS)
    assert hashlib.sha256(" ".join(WORDS).encode()).hexdigest() == "b19efd8b03b0b388c8ffd0dbff50b468b3daeb454666bebbe20d5cc9006a3620"
    # GF(256): field axioms, exhaustively on the multiplication table
    for a in range(256):
        assert _MUL[a] == bytes(gf_mul(a, b) for b in range(256))  # table == carry-less multiplication
        assert _MUL[a][0] == 0 and _MUL[a][1] == a and _MUL[0][a] == 0
        assert all(_MUL[a][b] == _MUL[b][a] for b in range(256))
        if a:
            assert _MUL[a][_INV[a]] == 1
            assert sorted(_MUL[a]) == list(range(256))  # multiplication by a != 0 is a bijection
        for b in range(256):  # GF(2)-linearity of x -> a*x, which gives distributivity
            acc = 0
            for bit in range(8):
                if b >> bit & 1:
                    acc ^= _MUL[a][1 << bit]
            assert acc == _MUL[a][b]
    for a in range(256):  # associativity: (a*b)*c == a*(b*c) for all c, as 256-byte rows
        for b in range(256):
            assert _MUL[_MUL[a][b]] == _MUL[b].translate(_MUL[a])
    assert _MUL[0x53][0xCA] == 1  # the Rijndael field's textbook inverse pair
    assert _MUL[0x57][0x83] == 0xC1  # FIPS-197 example
    assert len({gf_pow(3, i) for i in range(255)}) == 255 and gf_pow(3, 255) == 1  # 3 generates
    # interpolation recovers a known polynomial
    coeffs = [bytes([7, 200, 0]), bytes([1, 0, 255]), bytes([0x53, 9, 77])]
    pts = [(x, poly_eval(coeffs, x)) for x in (0, 5, 254)]
    for x in range(256):
        assert interpolate(x, pts) == poly_eval(coeffs, x)
    # GF(1024) / RS1024: generator polynomial reproduces the published constants
    assert (G2, G1, G0) == (14, 56, 64)
    for i, g in enumerate(_GEN_PUBLISHED):
        e = 1 << i
        assert g == gk_mul(e, G2) << 20 | gk_mul(e, G1) << 10 | gk_mul(e, G0), i
    seen = set()
    a = 1
    for _ in range(1023):
        seen.add(a)
        a = gk_mul(a, 2)
    assert a == 1 and len(seen) == 1023  # x is primitive
    # published vectors
    for texts, master in _VALID:
        idx = [[WORD_INDEX[w] for w in t.split()] for t in texts]
        for i in idx:
            assert rs1024_valid(i) and rs1024_residue(list(CUSTOM) + i) == 1
            assert rs1024_checksum(i[:-3]) == i[-3:]
        shares = [decode_share(t) for t in texts]
        assert [encode_share(s) for s in shares] == texts
        assert recover(shares, b"TREZOR", exact=True).hex() == master
        assert recover(shares, b"TREZOR").hex() == master
        assert recover(shares, b"").hex() != master
        for ex in (True, False):
            assert decrypt(recover_ems(shares, ex), b"TREZOR", shares[0]["exp"], shares[0]["id"]).hex() == master
        ems = encrypt(bytes.fromhex(master), b"TREZOR", shares[0]["exp"], shares[0]["id"])
        assert decrypt(ems, b"TREZOR", shares[0]["exp"], shares[0]["id"]).hex() == master
    for texts in _INVALID:
        try:
            recover([decode_share(t) for t in texts], b"TREZOR", exact=True)
        except Invalid:
            continue
        raise AssertionError("invalid vector accepted: " + texts[0][:30])
    for texts in _INVALID:
        try:
            recover_ems([decode_share(t) for t in texts], exact=True)
        except Invalid:
            continue
        raise AssertionError("invalid vector accepted by recover_ems: " + texts[0][:30])
    # residue vs root evaluation on a deterministic family of words
    for n in range(200):
        vals = [int.from_bytes(hashlib.sha256(b"rs%d-%d" % (n, i)).digest()[:2], "big") % 1024 for i in range(20 + n % 14)]
        full = vals + rs1024_checksum(vals)
        assert rs1024_valid(full) and rs1024_residue(list(CUSTOM) + full) == 1
        full[n % len(full)] ^= 1 + n
        assert not rs1024_valid(full) and rs1024_residue(list(CUSTOM) + full) != 1
    # split/recover on the reference itself
    ctr = [0]

    def rnd(n):
        ctr[0] += 1
        return hashlib.sha256(b"r%d" % ctr[0]).digest()[:n]

    sec = bytes(range(16))
    for k, n in ((1, 1), (1, 3), (2, 3), (3, 5), (5, 5), (16, 16)):
        pts = split_points(k, n, sec, rnd)
        assert recover_points(k, pts[:k], exact=True) == sec and recover_points(k, pts) == sec
        if k > 1:
            try:
                recover_points(k, pts[: k - 1])
                raise AssertionError
            except Invalid:
                pass
    # BIP39 Trezor vectors
    assert bip39_encode(bytes(16)) == "abandon " * 11 + "about"
    assert bip39_encode(b"\xff" * 32).endswith("zoo vote")
    assert bip39_encode(b"\x80" * 16) == "letter advice cage absurd amount doctor acoustic avoid letter advice cage above"
    assert bip39_decode(bip39_encode(b"\x7f" * 32)) == b"\x7f" * 32
    return True


if __name__ == "__main__":
    selftest()
    print("slip39ref selftest ok")
