"""Reference model for wsh(sortedmulti(...)) output descriptors.

Written from the specifications, shares no code with buidl:
  * descriptor checksum   - Bitcoin Core src/script/descriptor.cpp (PolyMod / DescriptorChecksum)
  * extended public keys  - BIP32 (serialisation, public parent -> public child, fingerprints)
  * version bytes         - SLIP-0132 table
  * Base58Check           - Bitcoin wiki; Bech32 / segwit v0 addresses - BIP173
  * sortedmulti           - BIP67 ordering of the compressed child keys, BIP141 P2WSH program
The only elliptic-curve code used is mc.ref.ec (affine/Jacobian secp256k1 reference).

A key record is a dict {"xfp": 8 hex chars, "path": "m/48h/...", "xpub": base58 string (any
SLIP-132 prefix), "idx": account index}.  A wallet is (m, [key records]).
"""
import hashlib
import hmac
import re
import struct

from mc.ref import ec

SECP = ec.SECP


def sha256(b):
    return hashlib.sha256(b).digest()


def dsha(b):
    return sha256(sha256(b))


def h160(b):
    return hashlib.new("ripemd160", sha256(b)).digest()


# ------------------------------------------------------------------ descriptor checksum (Core)
# INPUT_CHARSET is arranged in 3 groups of 32 so that case errors / common confusions only
# affect the "group" digit; written here as the three groups of descriptor.cpp.
INPUT_CHARSET = (
    "0123456789()[],'/*abcdefgh@:$%{}"
    "IJKLMNOPQRSTUVWXYZ&+-.;<=>?!^_|~"
    "ijklmnopqrstuvwxyzABCDEFGH`#\"\\ "
)
CHECKSUM_CHARSET = "qpzry9x8gf2tvdw0s3jn54khce6mua7l"
GENERATORS = (0xF5DEE51989, 0xA9FDCA3312, 0x1BAB10E32D, 0x3706B1677A, 0x644D626FFD)
assert len(INPUT_CHARSET) == 95 and len(set(INPUT_CHARSET)) == 95


def _polymod_feed(c, symbols):
    for v in symbols:
        top = c >> 35
        c = ((c & 0x7FFFFFFFF) << 5) ^ v
        for bit, g in enumerate(GENERATORS):
            if (top >> bit) & 1:
                c ^= g
    return c


def descriptor_checksum(body):
    """8-character checksum of the descriptor body (text before '#'); None when the body has a
    character outside INPUT_CHARSET."""
    symbols = []
    groups = []
    for ch in body:
        pos = INPUT_CHARSET.find(ch)
        if pos < 0:
            return None
        symbols.append(pos & 31)
        groups.append(pos >> 5)
        if len(groups) == 3:
            symbols.append(groups[0] * 9 + groups[1] * 3 + groups[2])
            groups = []
    if len(groups) == 1:
        symbols.append(groups[0])
    elif len(groups) == 2:
        symbols.append(groups[0] * 3 + groups[1])
    c = _polymod_feed(1, symbols + [0] * 8) ^ 1
    return "".join(CHECKSUM_CHARSET[(c >> (5 * (7 - i))) & 31] for i in range(8))


# ------------------------------------------------------------------ Base58Check
B58 = "123456789ABCDEFGHJKLMNPQRSTUVWXYZabcdefghijkmnopqrstuvwxyz"


def b58encode(raw):
    n = int.from_bytes(raw, "big")
    out = ""
    while n:
        n, r = divmod(n, 58)
        out = B58[r] + out
    pad = len(raw) - len(raw.lstrip(b"\x00"))
    return "1" * pad + out


def b58decode(s):
    n = 0
    for ch in s:
        d = B58.find(ch)
        if d < 0:
            return None
        n = n * 58 + d
    pad = len(s) - len(s.lstrip("1"))
    body = n.to_bytes((n.bit_length() + 7) // 8, "big") if n else b""
    return b"\x00" * pad + body


def b58check_encode(payload):
    return b58encode(payload + dsha(payload)[:4])


def b58check_decode(s):
    raw = b58decode(s)
    if raw is None or len(raw) < 4 or dsha(raw[:-4])[:4] != raw[-4:]:
        return None
    return raw[:-4]


# ------------------------------------------------------------------ BIP32 public keys / SLIP-132
# version -> (network, human prefix); SLIP-0132 registered public versions
PUB_VERSIONS = {
    "0488b21e": ("mainnet", "xpub"),
    "049d7cb2": ("mainnet", "ypub"),
    "04b24746": ("mainnet", "zpub"),
    "0295b43f": ("mainnet", "Ypub"),
    "02aa7ed3": ("mainnet", "Zpub"),
    "043587cf": ("testnet", "tpub"),
    "044a5262": ("testnet", "upub"),
    "045f1cf6": ("testnet", "vpub"),
    "024289ef": ("testnet", "Upub"),
    "02575483": ("testnet", "Vpub"),
}
STD_VERSION = {"mainnet": "0488b21e", "testnet": "043587cf"}
HRP = {"mainnet": "bc", "testnet": "tb"}


def xpub_encode(version_hex, depth, parent_fp, child_number, chain_code, point):
    raw = bytes.fromhex(version_hex) + bytes([depth]) + parent_fp + struct.pack(">I", child_number) + chain_code + SECP.sec(point)
    assert len(raw) == 78
    return b58check_encode(raw)


def xpub_decode(s):
    """-> dict(version, network, depth, parent_fp, child_number, chain_code, point) or None."""
    raw = b58check_decode(s)
    if raw is None or len(raw) != 78:
        return None
    v = raw[:4].hex()
    if v not in PUB_VERSIONS:
        return None
    P = SECP.parse_sec(raw[45:78])
    if P is None or len(raw[45:78]) != 33:
        return None
    return {
        "version": v,
        "network": PUB_VERSIONS[v][0],
        "depth": raw[4],
        "parent_fp": raw[5:9],
        "child_number": struct.unpack(">I", raw[9:13])[0],
        "chain_code": raw[13:45],
        "point": P,
    }


def xpub_standardise(s):
    """Re-encode an extended public key with the xpub/tpub version of its network."""
    k = xpub_decode(s)
    if k is None:
        return None
    return xpub_encode(STD_VERSION[k["network"]], k["depth"], k["parent_fp"], k["child_number"], k["chain_code"], k["point"])


def ckd_pub(point, chain_code, index):
    """BIP32 'public parent key -> public child key'. Returns (point, chain_code) or None when
    the index is hardened / out of range or the (negligible) invalid-child case occurs."""
    if not (0 <= index < 2**31):
        return None
    I = hmac.new(chain_code, SECP.sec(point) + struct.pack(">I", index), hashlib.sha512).digest()
    il = int.from_bytes(I[:32], "big")
    if il >= SECP.n:
        return None
    child = SECP.add(SECP.mulg(il), point)
    if child is None:
        return None
    return child, I[32:]


def ckd_pub_xpub(s, index):
    """Child extended public key string (same version bytes as the parent)."""
    k = xpub_decode(s)
    r = ckd_pub(k["point"], k["chain_code"], index)
    if r is None:
        return None
    return xpub_encode(k["version"], k["depth"] + 1, h160(SECP.sec(k["point"]))[:4], index, r[1], r[0])


# ------------------------------------------------------------------ Bech32 (BIP173), segwit v0
BECH32 = "qpzry9x8gf2tvdw0s3jn54khce6mua7l"
BECH32_GEN = (0x3B6A57B2, 0x26508E6D, 0x1EA119FA, 0x3D4233DD, 0x2A1462B3)


def _bech32_polymod(values):
    chk = 1
    for v in values:
        top = chk >> 25
        chk = ((chk & 0x1FFFFFF) << 5) ^ v
        for i in range(5):
            if (top >> i) & 1:
                chk ^= BECH32_GEN[i]
    return chk


def _hrp_expand(hrp):
    return [ord(c) >> 5 for c in hrp] + [0] + [ord(c) & 31 for c in hrp]


def _to5(data):
    acc = bits = 0
    out = []
    for b in data:
        acc = (acc << 8) | b
        bits += 8
        while bits >= 5:
            bits -= 5
            out.append((acc >> bits) & 31)
    if bits:
        out.append((acc << (5 - bits)) & 31)
    return out


def segwit_v0_address(hrp, program):
    data = [0] + _to5(program)
    pm = _bech32_polymod(_hrp_expand(hrp) + data + [0] * 6) ^ 1
    chk = [(pm >> (5 * (5 - i))) & 31 for i in range(6)]
    return hrp + "1" + "".join(BECH32[d] for d in data + chk)


# ------------------------------------------------------------------ wallet model
def norm_records(records):
    """Records with standardised xpubs, sorted ascending by that xpub string (the canonical
    order of a descriptor built from an unordered set of key records)."""
    out = []
    for r in records:
        out.append({"xfp": r["xfp"], "path": r["path"], "xpub": xpub_standardise(r["xpub"]), "idx": r["idx"]})
    return sorted(out, key=lambda r: r["xpub"])


def record_text(r):
    return "[%s%s]%s/%d/*" % (r["xfp"], r["path"][1:], r["xpub"], r["idx"])


def body_text(m, ordered_records):
    return "wsh(sortedmulti(%d,%s))" % (m, ",".join(record_text(r) for r in ordered_records))


def descriptor(m, records):
    """(body, checksum) of the canonical descriptor of a wallet."""
    body = body_text(m, norm_records(records))
    return body, descriptor_checksum(body)


def wallet_network(records):
    nets = {xpub_decode(r["xpub"])["network"] for r in records}
    return nets.pop() if len(nets) == 1 else None


def child_keys(records, branch, index):
    """Compressed SEC of every cosigner's key at .../(idx+branch)/index, in the order of
    `records`; None if some derivation is undefined."""
    out = []
    for r in records:
        k = xpub_decode(r["xpub"])
        a = ckd_pub(k["point"], k["chain_code"], r["idx"] + branch)
        if a is None:
            return None
        b = ckd_pub(a[0], a[1], index)
        if b is None:
            return None
        out.append(SECP.sec(b[0]))
    return out


def multisig_script(m, keys):
    assert 1 <= m <= len(keys) <= 16 and all(len(k) == 33 for k in keys)
    return bytes([0x50 + m]) + b"".join(b"\x21" + k for k in keys) + bytes([0x50 + len(keys), 0xAE])


def address(m, records, branch, index):
    """P2WSH address of m-of-n over the BIP67-sorted child keys. branch 0 = receive, 1 = change."""
    keys = child_keys(records, branch, index)
    if keys is None:
        return None
    ws = multisig_script(m, sorted(keys))
    return segwit_v0_address(HRP[wallet_network(records)], sha256(ws))


# ------------------------------------------------------------------ strict structural parser
_REC = re.compile(r"\[([0-9a-f]{8})((?:/[0-9]{1,10}['h]?)*)\]([1-9A-HJ-NP-Za-km-z]{111})/([0-9]{1,10})/\*\Z")
_DESC = re.compile(r"wsh\(sortedmulti\(([1-9][0-9]?),(.*)\)\)\Z", re.S)
_CHK = re.compile(r"[qpzry9x8gf2tvdw0s3jn54khce6mua7l]{8}\Z")


def strict_parse(text):
    """Parse 'body#checksum' strictly (no leniency at all). Returns
    {"m", "records" (in text order), "checksum", "body"} or None when the text is not a
    well-formed wsh(sortedmulti) descriptor over xpub/tpub keys.  The checksum value is
    NOT compared here (see accepts)."""
    if text.count("#") != 1:
        return None
    body, chk = text.split("#")
    if not _CHK.match(chk):
        return None
    mo = _DESC.match(body)
    if not mo:
        return None
    recs = []
    for part in mo.group(2).split(","):
        r = _REC.match(part)
        if not r:
            return None
        xfp, path, xpub, idx = r.groups()
        for comp in path.split("/")[1:]:
            if int(comp.rstrip("'h")) >= 2**31:
                return None
        k = xpub_decode(xpub)
        if k is None or k["version"] not in STD_VERSION.values() or int(idx) >= 2**31:
            return None
        if len(idx) > 1 and idx[0] == "0":
            return None
        recs.append({"xfp": xfp, "path": "m" + path, "xpub": xpub, "idx": int(idx)})
    m = int(mo.group(1))
    if not (1 <= m <= len(recs)) or len({xpub_decode(r["xpub"])["network"] for r in recs}) != 1:
        return None
    return {"m": m, "records": recs, "checksum": chk, "body": body}


def accepts(text):
    """Would a strict implementation of Core's rules accept this descriptor string?"""
    p = strict_parse(text)
    return p is not None and descriptor_checksum(p["body"]) == p["checksum"]


def regions(m, ordered_records):
    """Label every character position of 'body#checksum' with the field it belongs to."""
    lab = []

    def put(s, name):
        lab.extend([name] * len(s))

    put("wsh(sortedmulti(", "prefix")
    put(str(m), "m")
    for i, r in enumerate(ordered_records):
        put(",", "sep")
        put("[", "bracket")
        put(r["xfp"], "xfp")
        put(r["path"][1:], "path")
        put("]", "bracket")
        put(r["xpub"], "xpub")
        put("/", "slash")
        put(str(r["idx"]), "index")
        put("/*", "wildcard")
    put("))", "suffix")
    put("#", "hash")
    put("x" * 8, "checksum")
    return lab


# ------------------------------------------------------------------ self test
def selftest():
    # --- descriptor checksums published with descriptors (specter-desktop test data and the
    #     descriptors quoted in the repository's test file; used as data only)
    vec = [
        (
            "sh(multi(2,[00000000/111'/222]xpub6ERApfZwUNrhLCkDtcHTcxd75RbzS1ed54G1LkBUHQVHQKqhMkhgbmJbZRkrgZw4koxb5JaHWkY4ALHY2grBGRjaDMzQLcgJvLJuZZvRcEL,xpub68NZiKmJWnxxS6aaHmn81bvJeTESw724CRDs6HbuccFQN9Ku14VQrADWgqbhhTHBaohPX4CjNLf9fq9MYo6oDaPPLPxSb7gwQN3ih19Zm4Y/0))",
            "tjg09x5t",
        ),
        (
            "sh(wsh(sortedmulti(2,xpub6DkFAXWQ2dHxnMKoSBogHrw1rgNJKR4umdbnNVNTYeCGcduxWnNUHgGptqEQWPKRmeW4Zn4FHSbLMBKEWYaMDYu47Ytg6DdFnPNt8hwn5mE/1,xpub6DiXipxEgSYqTw3xX2apub7vzsC5gBzmikxriTRnfKRKQjUSpiGQ9XzyFktkVLTGVGF5emH8up1qtsyw726rvnmzHRU8cHH8gDxeLMXSkYE/1,xpub6FHZCoNb3tg3mxjcXsQx1xLpNmod6woECf2fB4nQbe9NXbvha2ucpDpnGbTFF68KUMUr1hNQ9E5jVEvpT2kUkVmFVDrJawcbgXzDpJc2hkF/2)))",
            "mgjhd0rk",
        ),
        (
            "sh(wsh(sortedmulti(2,029dfee2aaa23e2220476c34eda9a76591c1257f8dfce54e42ff014f922ede0838,03151d5b21c6491915e7a103bff913b4d85246c8209a342bb7104850e4cb394686,03646d8e624fedb63739e7963d0c7ad368a7f7935557b2b28c4c954882b19fe6e1)))",
            "rzmdthwy",
        ),
    ]
    for body, chk in vec:
        assert descriptor_checksum(body) == chk, (descriptor_checksum(body), chk)
    assert descriptor_checksum("wsh(é)") is None

    # --- BIP32 test vectors 1 and 2: every published non-hardened public step
    steps = [
        ("xpub68Gmy5EdvgibQVfPdqkBBCHxA5htiqg55crXYuXoQRKfDBFA1WEjWgP6LHhwBZeNK1VTsfTFUHCdrfp1bgwQ9xv5ski8PX9rL2dZXvgGDnw", 1,
         "xpub6ASuArnXKPbfEwhqN6e3mwBcDTgzisQN1wXN9BJcM47sSikHjJf3UFHKkNAWbWMiGj7Wf5uMash7SyYq527Hqck2AxYysAA7xmALppuCkwQ"),
        ("xpub6FHa3pjLCk84BayeJxFW2SP4XRrFd1JYnxeLeU8EqN3vDfZmbqBqaGJAyiLjTAwm6ZLRQUMv1ZACTj37sR62cfN7fe5JnJ7dh8zL4fiyLHV", 1000000000,
         "xpub6H1LXWLaKsWFhvm6RVpEL9P4KfRZSW7abD2ttkWP3SSQvnyA8FSVqNTEcYFgJS2UaFcxupHiYkro49S8yGasTvXEYBVPamhGW6cFJodrTHy"),
        ("xpub661MyMwAqRbcFW31YEwpkMuc5THy2PSt5bDMsktWQcFF8syAmRUapSCGu8ED9W6oDMSgv6Zz8idoc4a6mr8BDzTJY47LJhkJ8UB7WEGuduB", 0,
         "xpub69H7F5d8KSRgmmdJg2KhpAK8SR3DjMwAdkxj3ZuxV27CprR9LgpeyGmXUbC6wb7ERfvrnKZjXoUmmDznezpbZb7ap6r1D3tgFxHmwMkQTPH"),
        ("xpub6ASAVgeehLbnwdqV6UKMHVzgqAG8Gr6riv3Fxxpj8ksbH9ebxaEyBLZ85ySDhKiLDBrQSARLq1uNRts8RuJiHjaDMBU4Zn9h8LZNnBC5y4a", 1,
         "xpub6DF8uhdarytz3FWdA8TvFSvvAh8dP3283MY7p2V4SeE2wyWmG5mg5EwVvmdMVCQcoNJxGoWaU9DCWh89LojfZ537wTfunKau47EL2dhHKon"),
        ("xpub6ERApfZwUNrhLCkDtcHTcxd75RbzS1ed54G1LkBUHQVHQKqhMkhgbmJbZRkrgZw4koxb5JaHWkY4ALHY2grBGRjaDMzQLcgJvLJuZZvRcEL", 2,
         "xpub6FnCn6nSzZAw5Tw7cgR9bi15UV96gLZhjDstkXXxvCLsUXBGXPdSnLFbdpq8p9HmGsApME5hQTZ3emM2rnY5agb9rXpVGyy3bdW6EEgAtqt"),
    ]
    for parent, idx, child in steps:
        assert xpub_standardise(parent) == parent
        assert ckd_pub_xpub(parent, idx) == child, (parent, idx)
    assert ckd_pub_xpub(steps[0][0], 2**31) is None
    assert xpub_decode(steps[0][0][:-1] + "x") is None

    # --- SLIP-132: the Vpub / tpub pair quoted in the repository's descriptor test
    vpub = "Vpub5uMrp2GYpnHN8BkjvXpP71TuZ8BDqu61PPcwEKSzE9Mcuow727mUJNsDsKdzAiupHXea5F7ZxD9SaSQvbr1hvpNjrijJQ2J46VQjc5yEcm8"
    tpub = "tpubDNVvpMhdGTmQg1AT6muju2eUWPXWWAtUSyc1EQ2MxJ2s97fMqFZQbpzQM4gU8bwzfFM7KBpSXRJ5v2Wu8sY2GF5ZpXm3qy8GLArZZNM1Wru"
    assert xpub_decode(vpub)["version"] == "02575483" and xpub_standardise(vpub) == tpub
    for v, (net, pre) in PUB_VERSIONS.items():
        k = xpub_decode(tpub)
        s = xpub_encode(v, k["depth"], k["parent_fp"], k["child_number"], k["chain_code"], k["point"])
        assert s.startswith(pre), (s[:4], pre)

    # --- BIP173 segwit v0 examples
    assert segwit_v0_address("bc", bytes.fromhex("751e76e8199196d454941c45d1b3a323f1433bd6")) == "bc1qw508d6qejxtdg4y5r3zarvary0c5xw7kv8f3t4"
    assert segwit_v0_address("tb", bytes.fromhex("1863143c14c5166804bd19203356da136c985678cd4d27a1b8c6329604903262")) == "tb1qrp33g0q5c5txsp9arysrx4k6zdkfs4nce4xj0gdcccefvpysxf3q0sl5k7"

    # --- whole chain: descriptors + addresses published in the repository's descriptor test
    #     (addresses there were cross-checked with Caravan by the authors)
    recs = [
        {"xfp": "c7d0648a", "path": "m/48h/1h/0h/2h", "xpub": "tpubDEpefcgzY6ZyEV2uF4xcW2z8bZ3DNeWx9h2BcwcX973BHrmkQxJhpAXoSWZeHkmkiTtnUjfERsTDTVCcifW6po3PFR1JRjUUTJHvPpDqJhr", "idx": 0},
        {"xfp": "12980eed", "path": "m/48h/1h/0h/2h", "xpub": "tpubDEkXGoQhYLFnYyzUGadtceUKbzVfXVorJEdo7c6VKJLHrULhpSVLC7fo89DDhjHmPvvNyrun2LTWH6FYmHh5VaQYPLEqLviVQKh45ufz8Ae", "idx": 0},
        {"xfp": "3a52b5cd", "path": "m/48h/1h/0h/2h", "xpub": "tpubDFdbVee2Zna6eL9TkYBZDJVJ3RxGYWgChksXBRgw6y6PU1jWPTXUqag3CBMd6VDwok1hn5HZGvg6ujsTLXykrS3DwbxqCzEvWoT49gRJy7s", "idx": 0},
        {"xfp": "f7d04090", "path": "m/48h/1h/0h/2h", "xpub": "tpubDF7FTuPECTePubPXNK73TYCzV3nRWaJnRwTXD28kh6Fz4LcaRzWwNtX153J7WeJFcQB2T6k9THd424Kmjs8Ps1FC1Xb81TXTxxbGZrLqQNp", "idx": 0},
    ]
    body4 = body_text(1, recs)  # order as published (not xpub-sorted)
    assert descriptor_checksum(body4) == "tatkmj5q"
    assert descriptor_checksum(body_text(2, [recs[0], recs[1], recs[3]])) == "0stzl64e"
    change = [
        "tb1qf454te8pvz4txevejg8s8tx5kkyfxgtkpg6tu5xphnyf6l2gcjss5zw0jx",
        "tb1q0lh5an3hep9s57c5xkpyv0yldy825kzzwt888u0qfnu3nqkndrqqjuajuj",
        "tb1qcklg00ymx85x7f5vzll3zypd2epywdxmhx05k7395e470pth8g8qvh62kw",
    ]
    receive = [
        "tb1qlrjv2ek09g9aplga83j9mfvelnt6qymen9gd49kpezdz2g5pgwnsfmrucp",
        "tb1qn2xhgxqxqcs8cl36f7efgg7jvreus4x6959hnc6mfmygnz435dksa39ygr",
        "tb1q2lzh628dmylpf9gr869lgyq9fcc9xqat7unpumnmmn5nph6447cs40k7mw",
    ]
    for i in range(3):
        assert address(1, recs, 1, i) == change[i], (i, address(1, recs, 1, i))
        assert address(1, recs, 0, i) == receive[i]
        assert address(1, list(reversed(recs)), 0, i) == receive[i]
    assert address(2, [recs[0], recs[1], recs[3]], 0, 0) == "tb1q0cy5x39ezyvc4pfydrqedng0h9arh2hcw8lpfa6e9ama7ky7cffsmzmgx8"
    two = [
        {"xfp": "aa917e75", "path": "m/48h/1h/0h/2h", "xpub": "tpubDEZRP2dRKoGRJnR9zn6EoLouYKbYyjFsxywgG7wMQwCDVkwNvoLhcX1rTQipYajmTAF82kJoKDiNCgD4wUPahACE7n1trMSm7QS8B3S1fdy", "idx": 0},
        {"xfp": "2553c4b8", "path": "m/48h/1h/0h/2h", "xpub": "tpubDEiNuxUt4pKjKk7khdv9jfcS92R1WQD6Z3dwjyMFrYj2iMrYbk3xB5kjg6kL4P8SoWsQHpd378RCTrM7fsw4chnJKhE2kfbfc4BCPkVh6g9", "idx": 0},
    ]
    assert descriptor(1, list(reversed(two))) == (body_text(1, two), "t0v98kwu")
    assert address(1, two, 0, 1) == "tb1q6y5dh62l40q9de8k53sjekqz2zcn9dfs55g5v8pjmd7ehg08gk0sms9q4l"
    mixed = [dict(two[0]), {"xfp": "2553c4b8", "path": "m/48h/1h/0h/2h/2046266013/1945465733/1801020214/1402692941", "xpub": vpub, "idx": 0}]
    assert descriptor(1, mixed)[1] == "0lfdttke"

    # --- strict parser / acceptance
    full4 = body4 + "#tatkmj5q"
    p = strict_parse(full4)
    assert p and p["m"] == 1 and p["records"] == recs and accepts(full4)
    assert not accepts(body4 + "#tatkmj5p") and strict_parse(body4 + "#tatkmj5p") is not None
    assert strict_parse(body4.replace("48h", "48H") + "#tatkmj5q") is None
    assert strict_parse(full4.replace("/0/*", "/ 0/*")) is None
    assert len(regions(1, recs)) == len(full4)
    return True


if __name__ == "__main__":
    selftest()
    print("descref selftest ok")
