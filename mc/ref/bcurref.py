"""Reference model of the BCUR (UR v1) air-gap text transport: CBOR byte-string wrapper, bc32,
digest, x-of-y fragments.

Written from the specifications, shares no code with buidl:
  * RFC 8949 section 3 (major type 2, definite-length byte string heads),
  * BCR-2020-004 (bc32: Bech32 character set and BCH generator, no human readable part, no
    separator, checksum constant 0x3fffffff over a leading zero symbol),
  * BCR-2020-005 version 1 (`ur:bytes/<seq>of<total>/<bc32 of sha256(cbor)>/<fragment>`).
Only hashlib is used.  Structure is deliberately different from the library: 8<->5 bit regrouping
goes through a bit string, the BCH checksum is computed as an explicit polynomial remainder over
GF(32) instead of the packed 30-bit register trick.
"""
import hashlib

CHARSET = "qpzry9x8gf2tvdw0s3jn54khce6mua7l"
_POS = {c: i for i, c in enumerate(CHARSET)}
BC32_CONST = 0x3FFFFFFF


# ------------------------------------------------------------------ CBOR byte string (RFC 8949)
def cbor_head(n):
    """Preferred (shortest) head of a definite-length byte string of n bytes."""
    if n < 0:
        raise ValueError("negative length")
    if n < 24:
        return bytes([0x40 | n])
    if n < 1 << 8:
        return b"\x58" + n.to_bytes(1, "big")
    if n < 1 << 16:
        return b"\x59" + n.to_bytes(2, "big")
    if n < 1 << 32:
        return b"\x5a" + n.to_bytes(4, "big")
    if n < 1 << 64:
        return b"\x5b" + n.to_bytes(8, "big")
    raise ValueError("too long")


def cbor_wrap(data, head=None):
    """head: None -> RFC 8949 preferred head; bytes -> use this head verbatim (dialects)."""
    return (cbor_head(len(data)) if head is None else head) + data


def cbor_unwrap(buf, dialect=None):
    """Strict: exactly one definite-length byte string, nothing missing, nothing trailing.
    dialect: optional {initial_byte: number_of_length_bytes} of additional heads to understand
    (only used by the check to follow a non-standard head the library is observed to write)."""
    if not buf:
        raise ValueError("empty")
    ib = buf[0]
    if 0x40 <= ib <= 0x57:
        n, off = ib - 0x40, 1
    elif ib in (0x58, 0x59, 0x5A, 0x5B) or (dialect and ib in dialect):
        k = {0x58: 1, 0x59: 2, 0x5A: 4, 0x5B: 8}.get(ib) or dialect[ib]
        if len(buf) < 1 + k:
            raise ValueError("truncated head")
        n, off = int.from_bytes(buf[1 : 1 + k], "big"), 1 + k
    else:
        raise ValueError("not a definite-length byte string")
    if len(buf) != off + n:
        raise ValueError("length mismatch")
    return buf[off:]


# ------------------------------------------------------------------ GF(32) / BCH checksum
# GF(32) = GF(2)[a]/(a^5 + a^3 + 1); the Bech32 generator polynomial (BIP173) is
# g(x) = x^6 + {29}x^5 + {22}x^4 + {20}x^3 + {21}x^2 + {29}x + {18}.
_G = (29, 22, 20, 21, 29, 18)


def _gf_mul(a, b):
    r = 0
    while b:
        if b & 1:
            r ^= a
        b >>= 1
        a <<= 1
        if a & 32:
            a ^= 0b101001
    return r


_MUL = [[_gf_mul(a, b) for b in range(32)] for a in range(32)]


def _remainder(symbols):
    """Remainder of (x^len + sum symbols[i] x^(len-1-i)) modulo g(x), as 6 GF(32) coefficients
    (the implicit leading 1 is the initial register value 1 of the specification)."""
    rem = [0, 0, 0, 0, 0, 1]
    for s in symbols:
        top = rem[0]
        rem = rem[1:] + [s]
        if top:
            row = _MUL[top]
            rem = [r ^ row[g] for r, g in zip(rem, _G)]
    return rem


def _pack(rem):
    v = 0
    for r in rem:
        v = (v << 5) | r
    return v


def bc32_checksum(symbols):
    v = _pack(_remainder([0] + list(symbols) + [0] * 6)) ^ BC32_CONST
    return [(v >> (5 * (5 - i))) & 31 for i in range(6)]


def bc32_verify(symbols):
    return _pack(_remainder([0] + list(symbols))) == BC32_CONST


# ------------------------------------------------------------------ 8 <-> 5 bit regrouping
def to_base32(data):
    if not data:
        return []
    bits = bin(int.from_bytes(data, "big"))[2:].zfill(8 * len(data))
    bits += "0" * (-len(bits) % 5)
    return [int(bits[i : i + 5], 2) for i in range(0, len(bits), 5)]


def from_base32(symbols):
    """Strict: at most 4 padding bits, all zero."""
    bits = "".join(format(s, "05b") for s in symbols)
    nbytes, extra = divmod(len(bits), 8)
    if extra > 4:
        raise ValueError("too much padding")
    if "1" in bits[8 * nbytes :]:
        raise ValueError("non-zero padding")
    if nbytes == 0:
        return b""
    return int(bits[: 8 * nbytes], 2).to_bytes(nbytes, "big")


def bc32_encode(data):
    syms = to_base32(data)
    return "".join(CHARSET[s] for s in syms + bc32_checksum(syms))


def bc32_decode(text):
    """Returns bytes or raises ValueError."""
    if text != text.lower() and text != text.upper():
        raise ValueError("mixed case")
    text = text.lower()
    try:
        syms = [_POS[c] for c in text]
    except KeyError:
        raise ValueError("character outside the set")
    if len(syms) < 6 or not bc32_verify(syms):
        raise ValueError("checksum")
    return from_base32(syms[:-6])


# ------------------------------------------------------------------ UR v1
def digest_text(cbor):
    return bc32_encode(hashlib.sha256(cbor).digest())


def ur_body(payload, head=None):
    """-> (bc32 text of the CBOR-wrapped payload, bc32 text of its SHA-256)"""
    cbor = cbor_wrap(payload, head)
    return bc32_encode(cbor), digest_text(cbor)


def ceil_div(a, b):
    return -(-a // b)


def chunk_plan(total_len, max_size):
    """Equalised chunking: fewest fragments that respect max_size, then the smallest common
    fragment length that covers the text.  -> (number_of_fragments, fragment_length)"""
    n = max(1, ceil_div(total_len, max_size))
    return n, ceil_div(total_len, n)


def split_text(text, n, size):
    return [text[i * size : (i + 1) * size] for i in range(n)]


def ur_single(payload, with_digest=True, head=None):
    body, dg = ur_body(payload, head)
    return f"ur:bytes/{dg}/{body}" if with_digest else f"ur:bytes/{body}"


def ur_fragments(body, dg, max_size):
    n, size = chunk_plan(len(body), max_size)
    return [f"ur:bytes/{i + 1}of{n}/{dg}/{frag}" for i, frag in enumerate(split_text(body, n, size))]


def ur_parts(payload, max_size, head=None):
    body, dg = ur_body(payload, head)
    return ur_fragments(body, dg, max_size)


class Bad(Exception):
    """reference parser rejection; .stage tells how deep the input got"""

    def __init__(self, stage, why=""):
        Exception.__init__(self, f"{stage}: {why}")
        self.stage = stage


def _fields(text):
    """structural parse of one UR string -> (seq, total, digest or None, fragment)"""
    if not isinstance(text, str):
        raise Bad("syntax", "not text")
    t = text.strip().lower()
    pieces = t.split("/")
    if pieces[0] != "ur:bytes":
        raise Bad("syntax", "type")
    if len(pieces) == 2:
        seq, total, dg, frag = 1, 1, None, pieces[1]
    elif len(pieces) == 3:
        seq, total, dg, frag = 1, 1, pieces[1], pieces[2]
    elif len(pieces) == 4:
        xy = pieces[1].split("of")
        if len(xy) != 2 or not all(p.isascii() and p.isdigit() for p in xy):
            raise Bad("syntax", "seq")
        seq, total, dg, frag = int(xy[0]), int(xy[1]), pieces[2], pieces[3]
        if not 1 <= seq <= total:
            raise Bad("syntax", "seq range")
    else:
        raise Bad("syntax", "field count")
    if dg is not None and (len(dg) != 58 or any(c not in _POS for c in dg)):
        raise Bad("syntax", "digest field")
    if any(c not in _POS for c in frag):
        raise Bad("syntax", "fragment characters")
    return seq, total, dg, frag


def reassemble(parts, dialect=None):
    """Strict in-order reassembly of a list of UR strings -> payload bytes, or raises Bad(stage).
    Stages, in the order a receiver can detect them:
      syntax   a string is not a well-formed UR part
      sequence parts are not exactly 1..total in order, or disagree on total/digest
      bc32     the joined text fails the bc32 checksum or padding rules
      digest   the SHA-256 in the header does not match the CBOR bytes
      cbor     the bytes are not exactly one byte string
    """
    if not isinstance(parts, (list, tuple)) or not parts:
        raise Bad("sequence", "no parts")
    fs = [_fields(p) for p in parts]
    total, dg = fs[0][1], fs[0][2]
    if len(fs) != total:
        raise Bad("sequence", "count")
    for i, (seq, tot, d, _) in enumerate(fs):
        if seq != i + 1 or tot != total or d != dg:
            raise Bad("sequence", "order/consistency")
    try:
        cbor = bc32_decode("".join(f[3] for f in fs))
    except ValueError as e:
        raise Bad("bc32", str(e))
    if dg is not None:
        try:
            want = bc32_decode(dg)
        except ValueError as e:
            raise Bad("digest", str(e))
        if want != hashlib.sha256(cbor).digest():
            raise Bad("digest", "mismatch")
    try:
        return cbor_unwrap(cbor, dialect)
    except ValueError as e:
        raise Bad("cbor", str(e))


def classify(parts, dialect=None):
    """-> ("ok", payload) | ("bad", stage)"""
    try:
        return "ok", reassemble(parts, dialect)
    except Bad as e:
        return "bad", e.stage


# ------------------------------------------------------------------ self test
def selftest():
    # GF(32) sanity: field axioms on the multiplication table, generator has a non-zero constant term
    for a in range(1, 32):
        assert sorted(_MUL[a][b] for b in range(32)) == list(range(32)), a  # a* is a bijection
        assert _MUL[a][1] == a and _MUL[1][a] == a
    for a in range(32):
        for b in range(32):
            assert _MUL[a][b] == _MUL[b][a]
    # the GF(32) formulation reproduces the packed generator constants printed in BIP173
    gen = [0x3B6A57B2, 0x26508E6D, 0x1EA119FA, 0x3D4233DD, 0x2A1462B3]
    for i, gconst in enumerate(gen):
        assert _pack([_MUL[1 << i][g] for g in _G]) == gconst, i
    # BIP173 valid strings (hrp expanded by hand), constant 1: "a12uel5l", hrp "a" = 0x61 -> [3, 0, 1]
    assert _pack(_remainder([3, 0, 1] + [_POS[c] for c in "2uel5l"])[0:6]) == 1
    # BCR-2020-004 test vector
    assert bc32_encode(b"Hello world") == "fpjkcmr0ypmk7unvvsh4ra4j"
    assert bc32_decode("fpjkcmr0ypmk7unvvsh4ra4j") == b"Hello world"
    # RFC 8949 appendix A: h'' = 0x40, h'01020304' = 0x4401020304
    assert cbor_wrap(b"") == b"\x40" and cbor_wrap(bytes([1, 2, 3, 4])) == bytes.fromhex("4401020304")
    assert cbor_head(23) == b"\x57" and cbor_head(24) == b"\x58\x18" and cbor_head(255) == b"\x58\xff"
    assert cbor_head(256) == b"\x59\x01\x00" and cbor_head(65535) == b"\x59\xff\xff"
    assert cbor_head(65536) == b"\x5a\x00\x01\x00\x00"
    for n in (0, 1, 23, 24, 255, 256, 65535, 65536):
        d = bytes(i * 7 & 255 for i in range(n))
        assert cbor_unwrap(cbor_wrap(d)) == d
        assert bc32_decode(bc32_encode(d)) == d
    for bad in (b"", b"\x41", b"\x40\x00", b"\x58\x02\x00", b"\x00", b"\x5f"):
        try:
            cbor_unwrap(bad)
        except ValueError:
            continue
        raise AssertionError(bad)
    # published UR v1 strings (as recorded in the repository's test data): "foo", base64 "aaaa"
    assert ur_parts(b"foo", 300) == ["ur:bytes/1of1/j7snj9l0tttmp4c0d9d9mdz0frkac8s6fz4cn8erca3nxz0cnjuq7fv7lv/gdnx7mc0p7099"]
    aaaa = bytes.fromhex("69a69a")
    assert ur_single(aaaa) == "ur:bytes/ysypyck5etagxt08hzn6vcnwam3lgupp0uhcs7n8pg0wmen32p3qate5eg/gd56dxsyew2w5"
    assert ur_single(aaaa, False) == "ur:bytes/gd56dxsyew2w5"
    # specter-desktop vector: a PSBT in three fragments
    import base64

    psbt = base64.b64decode(
        "cHNidP8BAHEBAAAAAfPQ5Rpeu5nH0TImK4Sbu9lxIOGEynRadywPxaPyhnTwAAAAAAD/////AkoRAAAAAAAAFgAUFCYoQzGSRmYVAuZNuXF0OrPg9jWIEwAAAAAAABYAFOZMlwM1sZGLivwOcOh77amAlvD5AAAAAAABAR+tKAAAAAAAABYAFM4u9V5WG+Fe9l3MefmYEX4ULWAWIgYDA+jO+oOuN37ABK67BA/+SuuR/57c7OkyfyR7hR34FDsYccBxUlQAAIAAAACAAAAAgAAAAAAFAAAAACICApJMZBvzWiavLN7nievKQoylwPoffLkXZUIgGHF4HgwaGHHAcVJUAACAAAAAgAAAAIABAAAACwAAAAAA"
    )
    frags = [
        "tyq3wurnvf607qgqwyqsqqqqq8eapeg6t6aen373xgnzhpymh0vhzg8psn98gknh9s8utgljse60qqqqqqqqpllllllsyjs3qqqqqqqqqqtqq9q5yc5yxvvjgenp2qhxfkuhzap6k0s0vdvgzvqqqqqqqqqpvqq5uexfwqe4kxgchzhupecws7ld4xqfdu8eqqqqqqqq",
        "qyq3ltfgqqqqqqqqqqtqq9xw9m64u4smu900vhwv08uesyt7zskkq93zqcps86xwl2p6udm7cqz2awcyplly46u3l70dem8fxfljg7u9rhupgwccw8q8z5j5qqqgqqqqqzqqqqqqsqqqqqqqq5qqqqqqygpq9yjvvsdlxk3x4ukdaeufa09y9r99crap7l9ezaj5ygqc",
        "w9upurq6rpcuqu2j2sqqpqqqqqqgqqqqqzqqzqqqqq9sqqqqqqqqmkdau4",
    ]
    dg = "hlwjxjx550k4nnfdl5py2tn3vnh6g60slnw5dmld6ktrkkz200as49spg5"
    assert ur_body(psbt) == ("".join(frags), dg)
    parts = [f"ur:bytes/{i + 1}of3/{dg}/{f}" for i, f in enumerate(frags)]
    assert "".join(p.rsplit("/", 1)[1] for p in ur_parts(psbt, 200)) == "".join(frags)  # (the vector itself is cut 200/200/58)
    assert reassemble(parts) == psbt
    assert classify(parts[:2]) == ("bad", "sequence")
    assert classify([parts[1], parts[0], parts[2]]) == ("bad", "sequence")
    assert classify([parts[0], parts[1], parts[2].replace("mkdau4", "mkdau5")]) == ("bad", "bc32")
    other = ur_parts(psbt[:-1] + b"\x01", 200)
    assert classify([parts[0], other[1], parts[2]]) == ("bad", "sequence")
    swapped = [f"ur:bytes/{i + 1}of3/{dg}/{p.split('/')[-1]}" for i, p in enumerate(other)]
    assert classify(swapped) == ("bad", "digest")
    # equalised chunking: fragments never exceed the limit, never empty, cover the text
    for ln in range(1, 400):
        for mx in range(1, 420):
            n, size = chunk_plan(ln, mx)
            assert size <= mx and (n - 1) * size < ln <= n * size
    return True


if __name__ == "__main__":
    selftest()
    print("bcurref selftest ok")
